"""C01 - the composite model tree stays a well-formed tree under any edit history.

Theorems: lean/ArmiVerif/Props/C01.lean over lean/ArmiVerif/Model/Tree.lean (arena with separate
back-pointer and child list).
Tie: seeded edit sequences on four real composite shapes (generic Composite trees with Component
leaves, a HexBlock of real components, a HexAssembly of HexBlocks, the smallest test reactor's
Reactor/Core/Assembly tree); after EVERY operation the canonical state (parent id, child ids, locator
attachment, grid owner of every object, ids = creation order) of the real objects is compared with
the model's, followed by random traversal queries (deep / generation / flags / type / predicate /
components / ancestors) and deepcopy / pickle points.
Oracle (independent of the model): parent/child agreement both ways, no duplicates, acyclicity,
detached-after-remove, every traversal against a naive walk of the child lists, copy clauses.
Excluded points (F4): add of an already-parented object, remove of a non-child, append/extend, a cycle.
"""
import copy
import os
import pickle
import random

from harness import common
from harness.common import Failure, lean_run

PROP_MODULES = ["ArmiVerif.Props.C01"]
PARTIAL = ("deepcopy and pickle are one model operation (both go through __getstate__/__setstate__); the payload of a "
           "copy (parameters, serial numbers) is C16's; locator/grid content beyond attached/detached/owner is C07's; payload (parameter) equality of "
           "copies is C16's; the sort comparator (__lt__ on locators / component diameters) is a parameter of the "
           "model (ranks computed with the real __lt__); Core.add bookkeeping beyond the child list and locator "
           "is C14's")
ASSUMPTIONS = [
    "object identity is modelled by creation-order ids; the harness maps real objects to ids with id()",
    "list.sort() is a stable sort by __lt__ (CPython); the model sorts stably by ranks computed from the real __lt__",
    "pickle/deepcopy of leaf payloads (parameters, materials) is outside the structural model",
]

K_COMPOSITE, K_COMPONENT, K_BLOCK, K_ASSEMBLY, K_CORE = 0, 1, 2, 3, 4
TYPE_POOL = ["fuel", "clad", "duct", "bond", "wire", "coolant", "intercoolant", "igniter fuel", "c1", "c3"]
_TYPES = {t: i + 1 for i, t in enumerate(TYPE_POOL)}


def type_code(o):
    try:
        t = o.getType()
    except Exception:
        return 0
    if t is None:
        return 0
    return _TYPES.setdefault(t, len(_TYPES) + 1)


def kind_of(o):
    from armi.reactor import assemblies, blocks, cores
    from armi.reactor.components import Component

    if isinstance(o, Component):
        return K_COMPONENT
    if isinstance(o, blocks.Block):
        return K_BLOCK
    if isinstance(o, assemblies.Assembly):
        return K_ASSEMBLY
    if isinstance(o, cores.Core):
        return K_CORE
    return K_COMPOSITE


def naive_deep(n):
    out = list(n)
    for c in n:
        out += naive_deep(c)
    return out


def naive_gen(n, k):
    if k < 1:
        return []
    if k == 1:
        return list(n)
    out = []
    for c in n:
        out += naive_gen(c, k - 1)
    return out


def naive_comps(n, pred):
    """leaves that are Components, in depth-first order, below n (n itself if it is a Component)"""
    from armi.reactor.components import Component

    if isinstance(n, Component):
        return [n] if pred(n) else []
    out = []
    for c in n:
        out += naive_comps(c, pred)
    return out


def ref_has_flags(o, spec, exact):
    """independent reading of the hasFlags contract"""
    from armi.reactor.flags import Flags

    if spec is None or (isinstance(spec, Flags) and int(spec) == 0) or (isinstance(spec, list) and not spec):
        return not exact
    if isinstance(spec, list):
        return any(ref_has_flags(o, s, exact) for s in spec)
    f = int(o.p.flags) if o.p.flags else 0
    if f == 0:
        return False
    return f == int(spec) if exact else (f & int(spec)) == int(spec)


class Session:
    """One edit sequence: real objects + the request lines for the model + the real answers."""

    def __init__(self, ctx, shape, seq_seed, batch):
        self.ctx, self.shape, self.seq_seed, self.batch = ctx, shape, seq_seed, batch
        self.rng = random.Random(seq_seed)
        self.objs = []
        self.ids = {}
        self.nops = 0
        self.log = []
        self.removed = []   # (object) taken out of the model and not re-added since
        self.dead = set()   # ids of placeholders for unreachable temporaries
        self.emit("reset", "ok ")

    # ---- bookkeeping
    def case(self):
        return {"shape": self.shape, "seq_seed": self.seq_seed, "op_index": self.nops, "last_ops": self.log[-6:]}

    def emit(self, req, impl):
        self.batch["req"].append(req)
        self.batch["impl"].append(impl)
        self.batch["cases"].append(self.case() | {"request": req})

    def idx(self, o):
        return self.ids.get(id(o))

    def register(self, o):
        self.ids[id(o)] = len(self.objs)
        self.objs.append(o)

    def state(self):
        holders = {}
        for i, o in enumerate(self.objs):
            g = getattr(o, "spatialGrid", None)
            if g is not None and id(g) not in holders:
                holders[id(g)] = i
        parts = []
        for o in self.objs:
            par = "_" if o.parent is None else str(self.ids.get(id(o.parent), "?"))
            kids = ",".join(str(self.ids.get(id(c), "?")) for c in o)
            loc = o.spatialLocator
            if loc is None or loc.grid is None:
                lc = "d"
            elif id(loc.grid) in holders:
                lc = f"a{holders[id(loc.grid)]}"
            else:
                lc = "o"
            g = o.spatialGrid
            if g is None:
                gr = "n"
            elif g.armiObject is None:
                gr = "g_"
            else:
                gr = "g" + str(self.ids.get(id(g.armiObject), "?"))
            parts.append(f"{par}/{kids}/{lc}/{gr}")
        return "|".join(parts)

    def new_line(self, o):
        from armi.reactor.flags import Flags  # noqa

        fl = int(o.p.flags) if o.p.flags else 0
        return f"new {kind_of(o)} {fl} {type_code(o)} {'T' if o.spatialGrid is not None else 'F'}"

    def create(self, o):
        """a freshly constructed detached object"""
        self.register(o)
        self.emit(self.new_line(o), "ok " + self.state())

    def mirror(self, root):
        """register an existing real tree and replay its construction with set-up requests"""
        walk = [root] + naive_deep(root)
        for o in walk:
            self.register(o)
        for o in walk:
            self.batch["req"].append(self.new_line(o)); self.batch["impl"].append(None)
            self.batch["cases"].append(self.case())
        holders = {}
        for i, o in enumerate(self.objs):
            if o.spatialGrid is not None:
                holders.setdefault(id(o.spatialGrid), i)
        for o in walk:
            for c in o:
                self.batch["req"].append(f"rawadd {self.idx(o)} {self.idx(c)}"); self.batch["impl"].append(None)
                self.batch["cases"].append(self.case())
        for o in walk:
            loc = o.spatialLocator
            if loc is not None and loc.grid is not None and id(loc.grid) in holders:
                self.batch["req"].append(f"setloc {self.idx(o)} {holders[id(loc.grid)]}"); self.batch["impl"].append(None)
                self.batch["cases"].append(self.case())
        # the last set-up line must reproduce the real state
        self.batch["impl"][-1] = "ok " + self.state()

    # ---- oracle on the real objects (independent of the model)
    def check_inv(self, what):
        ctx = self.ctx
        n = len(self.objs)
        for o in self.objs:
            kid_ids = [id(c) for c in o]
            if len(set(kid_ids)) != len(kid_ids):
                ctx.fail(f"{what}-child-listed-twice", "a parent lists each child exactly once", self.case(),
                         observed=[self.idx(c) for c in o])
            for c in o:
                if c.parent is not o:
                    ctx.fail(f"{what}-listed-child-has-other-parent", "a listed child's parent is the lister",
                             self.case(), observed={"lister": self.idx(o), "child": self.idx(c),
                                                    "child.parent": None if c.parent is None else self.idx(c.parent)})
            if o.parent is not None and not any(c is o for c in o.parent):
                ctx.fail(f"{what}-parent-does-not-list-child", "an object's parent lists it", self.case(),
                         observed={"object": self.idx(o), "parent": self.idx(o.parent)})
            # acyclic
            x, steps = o, 0
            while x is not None and steps <= n + 2:
                x, steps = x.parent, steps + 1
            if x is not None:
                ctx.fail(f"{what}-cycle", "the parent relation has no cycle", self.case(), observed=self.idx(o))
        for o in self.removed:
            if o.parent is not None or (o.spatialLocator is not None and o.spatialLocator.grid is not None):
                ctx.fail(f"{what}-removed-object-not-detached", "an object taken out has no parent and a detached location",
                         self.case(), observed=self.idx(o))

    # ---- traversal queries: real answer, naive answer, model request
    def queries(self, k):
        from armi.reactor.flags import Flags

        ctx, rng = self.ctx, self.rng
        flagpool = sorted({int(o.p.flags) for o in self.objs if o.p.flags} | {int(Flags.FUEL), int(Flags.CLAD)})
        for _ in range(k):
            n = rng.choice([o for o in self.objs if id(o) not in self.dead])
            kind = rng.choice(["deep", "gen", "gen", "flags", "flags", "type", "pred", "comps", "anc", "anc", "bad"])
            ids = lambda l: "[" + ",".join(str(self.ids.get(id(x), "?")) for x in l) + "]"
            # predicate
            pk = rng.choice(["all", "par", "mod3", "flags", "type"]) if kind in ("deep", "gen", "pred", "anc") else kind
            preq, pred = "all", (lambda o: True)
            spec = None
            exact = False
            if pk == "par":
                r = rng.randint(0, 1); preq = f"par {r}"; pred = lambda o, r=r: self.ids[id(o)] % 2 == r
            elif pk == "mod3":
                r = rng.randint(0, 2); preq = f"mod3 {r}"; pred = lambda o, r=r: self.ids[id(o)] % 3 == r
            elif pk in ("flags", "comps"):
                exact = rng.random() < 0.4
                form = rng.choice(["one", "one", "list", "none", "zero", "combo", "empty"])
                if form == "one":
                    v = rng.choice(flagpool); spec = Flags(v); sreq = f"f{v}"
                elif form == "combo":
                    v = rng.choice(flagpool) | rng.choice(flagpool); spec = Flags(v); sreq = f"f{v}"
                elif form == "list":
                    vs = [rng.choice(flagpool + [0]) for _ in range(rng.randint(1, 3))]
                    spec = [Flags(v) for v in vs]; sreq = "[" + ",".join(map(str, vs)) + "]"
                elif form == "empty":
                    spec = []; sreq = "[]"
                elif form == "zero":
                    spec = Flags(0); sreq = "f0"
                else:
                    spec = None; sreq = "_"
                preq = f"flags {sreq} {'T' if exact else 'F'}"
                pred = lambda o, spec=spec, exact=exact: o.hasFlags(spec, exact)
            elif pk == "type":
                t = rng.choice(TYPE_POOL); preq = f"type {type_code_of(t)}"
                pred = lambda o, t=t: _safe_type(o) == t
            ctx.count(f"query {kind}/{pk}")
            if kind in ("deep", "gen", "pred", "flags", "type", "bad"):
                deep = kind in ("deep", "pred") and rng.random() < 0.8
                g = 1 if deep or kind in ("flags", "type") and rng.random() < 0.5 else rng.randint(-1, 4)
                if kind == "bad":
                    deep, g = True, rng.randint(2, 3)
                try:
                    if pk == "flags" and not deep and g == 1 and rng.random() < 0.5:
                        got = n.getChildrenWithFlags(spec, exactMatch=exact)
                    elif pk == "all" and rng.random() < 0.5:
                        got = n.getChildren(deep=deep, generationNum=g)
                    else:
                        got = list(n.iterChildren(deep=deep, generationNum=g, predicate=pred))
                    line = ids(got)
                except RuntimeError:
                    got, line = None, "reject"
                self.emit(f"iter {self.idx(n)} {'T' if deep else 'F'} {g} {preq}", line)
                # naive walk
                if deep and g > 1:
                    exp = None
                else:
                    refp = pred if pk != "flags" else (lambda o: ref_has_flags(o, spec, exact))
                    exp = [x for x in (naive_deep(n) if deep else naive_gen(n, g)) if refp(x)]
                if (got is None) != (exp is None) or (got is not None and [id(x) for x in got] != [id(x) for x in exp]):
                    ctx.fail(f"traversal-{'deep' if deep else 'generation'}-differs-from-naive-walk",
                             "a traversal returns exactly the objects of a naive walk of the child lists, once, in child order",
                             self.case() | {"root": self.idx(n), "deep": deep, "generation": g, "predicate": preq},
                             observed=None if got is None else ids(got), expected=None if exp is None else ids(exp))
                if got is not None and len({id(x) for x in got}) != len(got):
                    ctx.fail("traversal-returns-object-twice", "each object once", self.case(), observed=ids(got))
            elif kind == "comps":
                got = n.getComponents(spec, exact)
                if list(n.iterComponents(spec, exact)) != got:
                    ctx.fail("components-iter-vs-get", "iterComponents and getComponents agree", self.case())
                self.emit(f"comps {self.idx(n)} {sreq} {'T' if exact else 'F'}", ids(got))
                exp = naive_comps(n, lambda o: ref_has_flags(o, spec, exact))
                if [id(x) for x in got] != [id(x) for x in exp]:
                    ctx.fail("traversal-components-differs-from-naive-walk", "leaf components in depth-first child order",
                             self.case() | {"root": self.idx(n), "spec": sreq, "exact": exact}, observed=ids(got), expected=ids(exp))
            else:  # ancestors
                res = n.getAncestorAndDistance(pred)
                line = "none" if res is None else f"({self.ids.get(id(res[0]), '?')},{res[1]})"
                self.emit(f"anc {self.idx(n)} {preq}", line)
                a1 = n.getAncestor(pred)
                chain, x = [], n
                while x is not None and len(chain) <= len(self.objs) + 1:
                    chain.append(x); x = x.parent
                refp = pred if pk != "flags" else (lambda o: ref_has_flags(o, spec, exact))
                exp = next(((x, d) for d, x in enumerate(chain) if refp(x)), None)
                ok = (res is None and exp is None and a1 is None) or (
                    res is not None and exp is not None and res[0] is exp[0] and res[1] == exp[1] and a1 is exp[0])
                if pk == "flags":
                    a2 = n.getAncestorWithFlags(spec, exactMatch=exact)
                    ok = ok and (a2 is (None if exp is None else exp[0]))
                if not ok:
                    ctx.fail("ancestor-query-differs-from-parent-chain", "first object on the parent chain satisfying the predicate",
                             self.case() | {"start": self.idx(n), "predicate": preq}, observed=line,
                             expected=None if exp is None else [self.idx(exp[0]), exp[1]])

    # ---- operations
    def ancestors_or_self(self, p):
        out, x = [], p
        while x is not None and len(out) <= len(self.objs) + 1:
            out.append(x); x = x.parent
        return out

    def after(self, req, ok, what):
        self.nops += 1
        self.log.append(req)
        self.emit(req, ("ok " if ok else "reject ") + self.state())
        nfail = len(self.ctx.failures)
        self.check_inv(what)
        self.ctx.count(f"op {what}{'' if ok else ' (raised)'}")
        if len(self.ctx.failures) > nfail and self.shape != "excluded":
            # the real tree is no longer well formed: later walks may not terminate; the sequence ends here
            raise _Broken()

    def do_copy(self, n):
        how = self.rng.choice(["deepcopy", "pickle"])
        before = [{"owner_self": x.spatialGrid is not None and x.spatialGrid.armiObject is x,
                   "kids_in_grid": [c.spatialLocator is not None and c.spatialLocator.grid is x.spatialGrid for c in x],
                   "kids": [id(c) for c in x], "parent": x.parent} for x in [n] + naive_deep(n)]
        with common.quiet():
            cp = copy.deepcopy(n) if how == "deepcopy" else pickle.loads(pickle.dumps(n))
        new = [cp] + naive_deep(cp)
        orig = [n] + naive_deep(n)
        for o in new:
            self.register(o)
        ctx = self.ctx
        case = self.case() | {"copied": self.idx(n), "how": how}

        def shape(x):
            return (type(x).__name__, [shape(c) for c in x])
        if shape(cp) != shape(n):
            ctx.fail(f"{how}-shape-differs", "a copy is an equal-shaped tree", case)
        if {id(x) for x in new} & {id(x) for x in orig} or len({id(x) for x in new}) != len(new):
            ctx.fail(f"{how}-shares-node", "a copy shares no node with the original", case)
        if cp.parent is not None:
            ctx.fail(f"{how}-root-has-parent", "the copy's root has no parent", case)
        for x in new:
            for c in x:
                if c.parent is not x:
                    ctx.fail(f"{how}-child-not-relinked", "children of a copy point at the new parent", case)
                if x.spatialGrid is not None and c.spatialLocator is not None and c.spatialLocator.grid is not x.spatialGrid \
                        and orig[new.index(c)].spatialLocator.grid is orig[new.index(x)].spatialGrid:
                    ctx.fail(f"{how}-locator-not-relinked", "locators of a copy live in the copy's grid", case)
            if x.spatialGrid is not None and x.spatialGrid.armiObject is not x:
                ctx.fail(f"{how}-grid-not-relinked", "grids of a copy point at the new owner", case)
            for g in [x.spatialGrid] + ([x.spatialLocator.grid] if x.spatialLocator is not None else []):
                if g is not None and any(g is y.spatialGrid for y in orig):
                    ctx.fail(f"{how}-shares-grid", "a copy shares no grid with the original", case)
        # the ORIGINAL is untouched by the copy: its grids still point at it, its children still live in its grid
        for x, was in zip(orig, before):
            if x.spatialGrid is not None and x.spatialGrid.armiObject is not x and was["owner_self"]:
                ctx.fail(f"{how}-original-grid-owner-changed", "copying leaves the original's grid owned by the original", case,
                         observed=self.idx(x))
            now = [c.spatialLocator is not None and c.spatialLocator.grid is x.spatialGrid for c in x]
            if x.spatialGrid is not None and now != was["kids_in_grid"]:
                ctx.fail(f"{how}-original-locators-changed", "copying leaves the original's children in the original's grid", case,
                         observed=self.idx(x))
            if [id(c) for c in x] != was["kids"] or (x is not n and x.parent is not was["parent"]):
                ctx.fail(f"{how}-original-changed", "copying does not edit the original", case, observed=self.idx(x))
        self.after(f"copy {self.idx(n)}", True, how)
        return cp

    def ranks(self, p):
        """rank of every object among its siblings by the real __lt__ (None if a comparison raises)"""
        r = [0] * len(self.objs)
        todo = [p]
        while todo:
            x = todo.pop()
            ks = list(x)
            for c in ks:
                try:
                    r[self.idx(c)] = sum(1 for s in ks if s is not c and s < c)
                except Exception:
                    return None
                todo.append(c)
            # a strict weak order: equal rank <=> incomparable both ways
            for a in ks:
                for b in ks:
                    if a is not b and (r[self.idx(a)] < r[self.idx(b)]) != bool(a < b):
                        return None
        return r


def _safe_type(o):
    try:
        return o.getType()
    except Exception:
        return None


def type_code_of(t):
    return _TYPES.setdefault(t, len(_TYPES) + 1)


# --------------------------------------------------------------------------- fixtures
_FIX = {}


def fixture():
    if "r" not in _FIX:
        from armi.reactor.tests.test_reactors import loadTestReactor
        from armi.tests import TEST_ROOT

        with common.scratch_dir(), common.quiet():
            o, r = loadTestReactor(os.path.join(TEST_ROOT, "smallestTestReactor"), inputFileName="armiRunSmallest.yaml")
        _FIX["r"] = r
    return _FIX["r"]


def fresh_reactor():
    with common.quiet():
        return copy.deepcopy(fixture())


FLAG_NAMES = ["FUEL", "CLAD", "DUCT", "CONTROL", "INNER", "SHIELD", "COOLANT"]


def make_generic(ses):
    from armi.reactor import composites, grids
    from armi.reactor.components import Circle
    from armi.reactor.flags import Flags

    rng = ses.rng
    pool = [Flags.FUEL, Flags.CLAD, Flags.DUCT, Flags.FUEL | Flags.INNER, Flags.CONTROL, Flags(0),
            Flags.FUEL | Flags.INNER | Flags.SHIELD, Flags.CLAD | Flags.DUCT]
    for i in range(rng.randint(3, 9)):
        if rng.random() < 0.25:
            n = Circle(f"c{i}", "HT9", Tinput=25.0, Thot=25.0, od=1.0 + i, id=0.0, mult=1)
            n.p.flags = rng.choice(pool)
        else:
            n = composites.Composite(f"n{i}")
            n.p.flags = rng.choice(pool)
        n.spatialLocator = grids.IndexLocation(rng.randint(-2, 2), rng.randint(-2, 2), rng.randint(0, 3), None)
        ses.create(n)


def run_sequence(ctx, shape, seq_seed, batch, nops, nq):
    """Generate and execute one valid-use edit sequence on real objects; returns the session."""
    ses = Session(ctx, shape, seq_seed, batch)
    _CTX[0] = ctx
    rng = ses.rng
    core = None
    if shape == "generic":
        make_generic(ses)
        ops = ["add", "add", "add", "insert", "insert", "remove", "removeAll", "setChildren", "sort", "copy"]
    elif shape == "block":
        with common.quiet():
            b = copy.deepcopy(fixture().core[0][0])
        ses.mirror(b)
        if rng.random() < 0.5:
            try:
                prelude_mixed(ses, b)
            except _Broken:
                return ses
        ops = ["add", "add", "add", "insert", "remove", "remove", "removeAll", "setChildren", "sort", "copy", "copychild",
               "group", "group", "moveto", "moveto", "replace"]
    elif shape == "assembly":
        with common.quiet():
            a = copy.deepcopy(fixture().core[0])
        ses.mirror(a)
        ops = ["add", "add", "insert", "insert", "remove", "removeAll", "setChildren", "sort", "reest", "copy", "copychild",
               "blockremove", "moveto", "replace", "replace"]
    else:
        r = fresh_reactor()
        ses.mirror(r)
        core = r.core
        # (no component removal here: Core.add needs geometrically complete blocks)
        ops = ["coreadd", "coreadd", "coreremove", "copychild", "add", "insert", "remove", "sort", "copy", "reest", "moveto",
               "replace"]
    ses.check_inv("initial")
    ses.queries(nq)
    for _ in range(nops):
        op = rng.choice(ops)
        objs = ses.objs
        with common.quiet():
            try:
                _one_op(ses, op, shape, core)
            except _Skip:
                ctx.count(f"op {op} skipped (precondition not available)")
                continue
            except _Abort:
                ctx.count("sequence ended: geometry bookkeeping raised inside a multi-step block edit")
                break
            except _Broken:
                ctx.count("sequence ended: oracle failure")
                break
            except RecursionError:
                ctx.fail("walk-does-not-terminate", "the child lists form a finite tree", ses.case())
                break
        ses.queries(nq)
    ctx.case((shape, seq_seed), nontrivial=ses.nops > 0,
             sample={"shape": shape, "seq_seed": seq_seed, "ops": ses.log[:8], "final_state": ses.state()[:300]})
    ctx.traces += 1
    return ses


_CTX = [None]


def prelude_mixed(ses, b):
    """directed mixed-depth shape: block [group(pinA, pinB), ..., duct, ..., group(pinC)] -- a Component that is a sibling
    of Composites which themselves hold Components (distinguishes depth-first order from 'direct children first')"""
    from armi.reactor import composites

    cs = list(b)
    g1, g2 = composites.Composite("groupA"), composites.Composite("groupB")
    ses.create(g1); ses.create(g2)
    with common.quiet():
        for c, g in ((cs[0], g1), (cs[1], g1), (cs[3], g2)):
            ok = _call(lambda: b.remove(c))
            ses.removed.append(c)
            ses.after(f"remove {ses.idx(b)} {ses.idx(c)}", ok, "remove")
            ok = _call(lambda: g.add(c))
            ses.removed = [x for x in ses.removed if x is not c]
            ses.after(f"add {ses.idx(g)} {ses.idx(c)}", ok, "add")
        ok = _call(lambda: b.insert(0, g1)); ses.after(f"insert {ses.idx(b)} 0 {ses.idx(g1)}", ok, "insert")
        ok = _call(lambda: b.add(g2)); ses.after(f"add {ses.idx(b)} {ses.idx(g2)}", ok, "add")
    ses.ctx.count("directed mixed-depth block built")


def do_replace(ses):
    """b.replaceBlockWithBlock(r): r a free-standing template (parent None) or an attached block; the same template is
    used again for a second block right away (and inspected afterwards)"""
    from armi.reactor import composites

    rng = ses.rng
    blocks_ = [o for o in ses.objs if kind_of(o) == K_BLOCK and id(o) not in ses.dead]
    if len(blocks_) < 2 or len(ses.objs) > 150:
        raise _Skip()
    templates = [o for o in blocks_ if o.parent is None]
    r = rng.choice(templates) if templates and rng.random() < 0.7 else rng.choice(blocks_)
    targets = [o for o in blocks_ if o is not r and not any(x is r for x in ses.ancestors_or_self(o))]
    if not targets:
        raise _Skip()
    for b in rng.sample(targets, min(len(targets), 2 if rng.random() < 0.6 else 1)):
        rkids = [id(c) for c in r]
        old = list(b)
        ok = _call(lambda: b.replaceBlockWithBlock(r), multi=True)
        # the temporary deep copy is unreachable: a placeholder takes its id
        dead = composites.Composite("forgotten-temp-block")
        ses.register(dead)
        ses.dead.add(id(dead))
        for o in naive_deep(b):
            if ses.idx(o) is None:
                ses.register(o)
        ses.removed += [k for k in old if not any(k is x for x in b)]
        ctx = ses.ctx
        case = ses.case() | {"replaced": ses.idx(b), "replacement": ses.idx(r), "template_detached": r.parent is None}
        if [id(c) for c in r] != rkids or any(c.parent is not r for c in r):
            ctx.fail("replace-takes-components-from-replacement", "the replacement block still owns its own components "
                     "(the replaced block receives copies)", case)
        if {id(c) for c in b} & set(rkids):
            ctx.fail("replace-shares-components", "no component object is listed by two blocks", case)
        for root in [o for o in ses.objs if o.parent is None and id(o) not in ses.dead]:
            comps = root.getComponents()
            if len({id(c) for c in comps}) != len(comps):
                ctx.fail("replace-duplicate-components", "getComponents() lists each component once", case | {"root": ses.idx(root)})
        ses.after(f"replace {ses.idx(b)} {ses.idx(r)}", ok, "replaceBlockWithBlock")
        ses.queries(2)


class _Skip(Exception):
    pass


class _Broken(Exception):
    """the oracle found the real tree broken; the rest of the sequence is meaningless"""


def _parents_for(ses, shape, kinds):
    return [o for o in ses.objs if kind_of(o) in kinds]


GEOMETRY_FRAMES = {"getVolumeFractions", "getLargestComponent", "_updatePitchComponent"}


class _Abort(Exception):
    """the real call left the modelled domain (geometry bookkeeping raised inside a multi-step edit)"""


def _call(fn, multi=False):
    """run a mutator of the real code; a raise is data (the model says whether it is expected)"""
    try:
        fn()
        return True
    except Exception as e:
        # Block.remove / Block.add do geometry bookkeeping (volume fractions, pitch-defining component) AFTER the
        # structural change; it raises when the remaining children cannot define the derived coolant or when a
        # child is a plain Composite group.  Geometry is outside the structural model: a single remove/add counts
        # as completed (the state comparison still applies); inside removeAll/setChildren the loop was cut short,
        # so the sequence ends there.
        tb, names = e.__traceback__, []
        while tb is not None:
            names.append(tb.tb_frame.f_code.co_name)
            tb = tb.tb_next
        if GEOMETRY_FRAMES & set(names):
            _CTX[0].count("Block edit: geometry bookkeeping raised after the structural change")
            if multi:
                raise _Abort()
            return True
        return False


def _one_op(ses, op, shape, core):
    rng = ses.rng
    objs = ses.objs
    K = kind_of
    if shape == "generic":
        parent_kinds = (K_COMPOSITE, K_COMPONENT) if rng.random() < 0.1 else (K_COMPOSITE,)
        child_ok = lambda p, c: True
    elif shape == "block":
        # a block of components and of groups (plain Composites) of components: mixed-depth trees
        parent_kinds = (K_BLOCK, K_COMPOSITE)
        child_ok = lambda p, c: K(c) == K_COMPONENT or (K(p) == K_BLOCK and K(c) == K_COMPOSITE)
    else:
        parent_kinds = (K_ASSEMBLY,) if op not in ("blockremove",) else (K_BLOCK,)
        child_ok = lambda p, c: K(c) == K_BLOCK
    parents = [o for o in objs if K(o) in parent_kinds]
    if not parents:
        raise _Skip()
    if op in ("add", "insert"):
        p = rng.choice(parents)
        anc = ses.ancestors_or_self(p)
        cands = [c for c in objs if c.parent is None and not any(c is x for x in anc) and child_ok(p, c)
                 and K(c) not in (K_CORE,) and type(c).__name__ not in ("Reactor", "SpentFuelPool")]
        if shape == "core":
            cands = [c for c in cands if K(c) == K_BLOCK]
        if not cands:
            raise _Skip()
        c = rng.choice(cands)
        if op == "add":
            ok = _call(lambda: p.add(c))
            req = f"add {ses.idx(p)} {ses.idx(c)}"
        else:
            i = rng.randint(-len(p) - 2, len(p) + 2)
            ok = _call(lambda: p.insert(i, c))
            req = f"insert {ses.idx(p)} {i} {ses.idx(c)}"
        ses.removed = [x for x in ses.removed if x is not c]
        ses.after(req, ok, op)
    elif op in ("remove", "blockremove"):
        ps = [p for p in parents if len(p)]
        if not ps:
            raise _Skip()
        p = rng.choice(ps)
        c = rng.choice(list(p))
        ok = _call(lambda: p.remove(c))
        ses.removed.append(c)
        ses.after(f"remove {ses.idx(p)} {ses.idx(c)}", ok, "remove")
    elif op == "removeAll":
        p = rng.choice(parents)
        ks = list(p)
        ok = _call(lambda: p.removeAll(), multi=True)
        ses.removed += [k for k in ks if not any(k is x for x in p)]
        ses.after(f"removeAll {ses.idx(p)}", ok, op)
    elif op == "setChildren":
        p = rng.choice(parents)
        anc = ses.ancestors_or_self(p)
        cands = [c for c in objs if (c.parent is None or c.parent is p) and not any(c is x for x in anc) and child_ok(p, c)]
        ks = rng.sample(cands, min(len(cands), rng.randint(0, 4)))
        old = list(p)
        ok = _call(lambda: p.setChildren(ks), multi=True)
        ses.removed = [x for x in ses.removed + old if not any(x is k for k in p)]
        ses.after(f"setChildren {ses.idx(p)} [{','.join(str(ses.idx(k)) for k in ks)}]", ok, op)
    elif op == "sort":
        p = core if shape == "core" and rng.random() < 0.5 else rng.choice(parents)
        r = ses.ranks(p)
        if r is None:
            raise _Skip()
        ok = _call(lambda: p.sort())
        ses.after(f"sort {ses.idx(p)} [{','.join(map(str, r))}]", ok, op)
    elif op == "group":
        from armi.reactor import composites

        if len(objs) > 150:
            raise _Skip()
        g = composites.Composite(f"group{len(objs)}")
        ses.create(g)
        blocks_ = [o for o in objs if K(o) == K_BLOCK]
        if blocks_ and rng.random() < 0.7:
            p = rng.choice(blocks_)
            i = rng.randint(0, len(p))
            ok = _call(lambda: p.insert(i, g))
            ses.after(f"insert {ses.idx(p)} {i} {ses.idx(g)}", ok, "insert")
    elif op == "moveto":
        # child.moveTo(holder.spatialGrid[i,j,k]); refused unless the grid's owner is the child's parent
        holders = [o for o in objs if o.spatialGrid is not None and K(o) in (K_BLOCK, K_ASSEMBLY)]
        if not holders:
            raise _Skip()
        h = rng.choice(holders)
        pool = list(h) if rng.random() < 0.8 and len(h) else [o for o in objs if K(o) in (K_COMPONENT, K_BLOCK, K_COMPOSITE)]
        pool = [c for c in pool if K(c) not in (K_ASSEMBLY, K_CORE) and type(c).__name__ not in ("Reactor", "SpentFuelPool")]
        if not pool:
            raise _Skip()
        c = rng.choice(pool)
        loc = h.spatialGrid[(0, 0, rng.randint(0, 3)) if K(h) == K_ASSEMBLY else (rng.randint(-1, 1), rng.randint(-1, 1), 0)]
        ok = _call(lambda: c.moveTo(loc))
        ses.after(f"moveto {ses.idx(c)} {ses.idx(h)}", ok, "moveTo")
    elif op == "replace":
        do_replace(ses)
    elif op == "reest":
        p = rng.choice(parents)
        ok = _call(lambda: p.reestablishBlockOrder())
        ses.after(f"reest {ses.idx(p)}", ok, op)
    elif op == "copy":
        pool = [o for o in objs if len(naive_deep(o)) < 60]
        if len(objs) > 150:
            raise _Skip()
        ses.do_copy(rng.choice(pool))
    elif op == "copychild":
        # a fresh detached child to add later: copy of a block / component
        want = K_COMPONENT if shape == "block" else K_BLOCK
        pool = [o for o in objs if K(o) == want]
        if not pool or len(objs) > 150:
            raise _Skip()
        ses.do_copy(rng.choice(pool))
    elif op == "coreadd":
        grid = core.spatialGrid
        free = [(i, j) for i in range(-2, 3) for j in range(-2, 3)
                if grid[i, j, 0] not in core.childrenByLocator and grid.locatorInDomain(grid[i, j, 0], symmetryOverlap=True)]
        cands = [a for a in objs if K(a) == K_ASSEMBLY and a.parent is None and len(a) > 0]
        if not cands:
            srcs = [a for a in objs if K(a) == K_ASSEMBLY and len(a) > 0]
            if not srcs or len(objs) > 150:
                raise _Skip()
            src = rng.choice(srcs)
            cp = ses.do_copy(src)
            cp.makeUnique()
            cands = [cp]
        if not free:
            raise _Skip()
        a = rng.choice(cands)
        if any(x.getName() == a.getName() for x in core):
            a.makeUnique()
        i, j = rng.choice(free)
        ok = _call(lambda: core.add(a, grid[i, j, 0]))
        ses.removed = [x for x in ses.removed if x is not a]
        ses.after(f"add {ses.idx(core)} {ses.idx(a)}", ok, "Core.add")
    elif op == "coreremove":
        if len(core) == 0:
            raise _Skip()
        a = rng.choice(list(core))
        ok = _call(lambda: core.removeAssembly(a, discharge=False))
        ses.removed.append(a)
        ses.after(f"remove {ses.idx(core)} {ses.idx(a)}", ok, "Core.removeAssembly")
    else:
        raise _Skip()


# --------------------------------------------------------------------------- excluded points (F4)
def excluded_points(ctx, batch):
    """The points the theorems exclude by hypothesis, run on the real code; judged by the oracle alone.
    The model transcribes the code there too (its answer is recorded, not required)."""
    from armi.reactor import composites

    def trio(ses):
        for i in range(3):
            ses.create(composites.Composite(f"x{i}"))
        return ses.objs

    out = []
    # (a) add an already-parented object
    ses = Session(ctx, "excluded", 1, batch)
    A, B, x = trio(ses)
    A.add(x); ses.after("add 0 2", True, "add")
    B.add(x); ses.nops += 1; ses.log.append("add 1 2"); ses.emit("add 1 2", "ok " + ses.state())
    if any(c is x for c in A) and x.parent is B:
        ctx.fail("add-already-parented-object", "every object has at most one lister and its parent is that lister",
                 {"ops": ["A.add(x)", "B.add(x)"]}, observed={"A lists x": True, "x.parent": "B"},
                 expected="x detached from A, or the second add refused")
    # (b) remove a non-child
    ses = Session(ctx, "excluded", 2, batch)
    A, B, y = trio(ses)
    A.add(y); ses.after("add 0 2", True, "add")
    try:
        B.remove(y); raised = False
    except ValueError:
        raised = True
    ses.nops += 1; ses.log.append("remove 1 2"); ses.emit("remove 1 2", ("reject " if raised else "ok ") + ses.state())
    if any(c is y for c in A) and y.parent is not A:
        ctx.fail("remove-non-child-clears-parent", "a listed child's parent is the lister (a refused remove changes nothing)",
                 {"ops": ["A.add(y)", "B.remove(y)"]}, observed={"raised": raised, "A lists y": True, "y.parent": None},
                 expected="y.parent is A")
    # (c) append / extend
    ses = Session(ctx, "excluded", 3, batch)
    A, B, z = trio(ses)
    A.append(z); ses.nops += 1; ses.emit("append 0 2", "ok " + ses.state())
    if any(c is z for c in A) and z.parent is not A:
        ctx.fail("append-skips-parent", "a listed child's parent is the lister", {"ops": ["A.append(z)"]},
                 observed={"z.parent": None}, expected="z.parent is A")
    ses = Session(ctx, "excluded", 4, batch)
    A, B, z = trio(ses)
    A.extend([B, z]); ses.nops += 1; ses.emit("extend 0 [1,2]", "ok " + ses.state())
    if any(c is z for c in A) and z.parent is not A:
        ctx.fail("extend-skips-parent", "a listed child's parent is the lister", {"ops": ["A.extend([B, z])"]},
                 observed={"z.parent": None}, expected="z.parent is A")
    # (d) a cycle
    ses = Session(ctx, "excluded", 5, batch)
    A, B, _ = trio(ses)
    A.add(B); ses.after("add 0 1", True, "add")
    try:
        B.add(A); ok = True
    except Exception:
        ok = False
    ses.nops += 1; ses.emit("add 1 0", ("ok " if ok else "reject ") + ses.state())
    if ok and A.parent is B and B.parent is A:
        ctx.fail("add-creates-cycle", "the parent relation has no cycle", {"ops": ["A.add(B)", "B.add(A)"]},
                 observed="A.parent is B and B.parent is A", expected="the second add refused")
    ctx.count("excluded points run", 5)


# --------------------------------------------------------------------------- entry points
SHAPES = ["generic", "generic", "block", "assembly", "core"]


def plan(ctx):
    nseq = ctx.pick(300, 1500)
    out = []
    for k in range(nseq):
        shape = SHAPES[k % len(SHAPES)]
        maxops = ctx.pick(60, 400) if shape == "generic" else ctx.pick(30, 120)
        out.append((shape, ctx.rng.randrange(1 << 40), ctx.rng.randint(1, maxops)))
    return out


def run(ctx):
    batch = {"req": [], "impl": [], "cases": []}
    excl = {"req": [], "impl": [], "cases": []}
    excluded_points(ctx, excl)
    todo = plan(ctx)
    # generic composites first: they need no reactor fixture
    for shape, seq_seed, nops in todo:
        if shape == "generic":
            run_sequence(ctx, shape, seq_seed, batch, nops, nq=3)
    try:
        fixture()
        have_fixture = True
    except Exception as e:  # the real code cannot even build/copy the smallest reactor any more
        have_fixture = False
        ctx.disagree("the smallest test reactor can no longer be built (blueprints construction deep-copies assemblies)",
                     {"shape": "generic", "seq_seed": 0}, "loads", repr(e)[:300])
    if have_fixture:
        for shape, seq_seed, nops in todo:
            if shape != "generic":
                run_sequence(ctx, shape, seq_seed, batch, nops, nq=3)
    model = lean_run("Tree", batch["req"])
    rows = [(c, m, i) for c, m, i in zip(batch["cases"], model, batch["impl"]) if i is not None]
    ctx.compare("Model/Tree.lean vs real composite objects", [r[0] for r in rows], [r[1] for r in rows], [r[2] for r in rows])
    ctx.evaluations += len(rows)
    # excluded points: the model's answer is recorded only
    em = lean_run("Tree", excl["req"])
    agree = sum(1 for m, i in zip(em, excl["impl"]) if m == i)
    ctx.extra["excluded_points_model_agreement"] = f"{agree}/{len(em)} lines"
    ctx.samples.append({"request": batch["req"][-1], "model": model[-1], "impl": batch["impl"][-1]})
    ctx.rule = ("seeded valid-use edit sequences (add/insert with negative and out-of-range indices/remove/removeAll/"
                "setChildren/sort/reestablishBlockOrder/Core.add/removeAssembly/deepcopy/pickle) on generic composite trees, "
                "a HexBlock of real components, a HexAssembly of HexBlocks and the smallest test reactor; evaluations = "
                "compared protocol lines (one canonical whole-tree state per operation + 3 traversal queries after each); "
                "distinct = distinct (shape, sequence seed) with at least one executed operation")


def search(ctx, disagreements, broken):
    """Evaluate the oracle alone on fresh sequences of the disagreeing shapes (more queries per op)."""
    shapes = sorted({d.case.get("shape") for d in disagreements if isinstance(d.case, dict) and d.case.get("shape") in SHAPES})
    sub = common.Ctx(ctx.prop, ctx.tier, ctx.seed)
    dummy = {"req": [], "impl": [], "cases": []}
    for d in disagreements[:20]:
        if isinstance(d.case, dict) and d.case.get("shape") in SHAPES:
            run_sequence(sub, d.case["shape"], d.case["seq_seed"], dummy, 400, nq=8)
    for shape in shapes:
        for k in range(40):
            run_sequence(sub, shape, sub.rng.randrange(1 << 40), dummy, 40, nq=10)
    return list(sub.failures)


def replay(ctx, payload):
    case, key = payload.get("case", {}), payload["key"]
    sub = common.Ctx(ctx.prop, "quick", ctx.seed)
    dummy = {"req": [], "impl": [], "cases": []}
    if case.get("shape") in SHAPES:
        fixture()
        run_sequence(sub, case["shape"], case["seq_seed"], dummy, 400, nq=3)
    else:
        excluded_points(sub, dummy)
    hit = [f for f in sub.failures if f.key == key]
    return hit[0].to_json() if hit else None
