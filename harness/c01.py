"""C01 - the composite model tree stays a well-formed tree under any edit history.

Theorems: lean/ArmiVerif/Props/C01.lean over lean/ArmiVerif/Model/Tree.lean (arena with separate
back-pointer and child list; truthiness of nodes part of the state).
Tie: seeded edit sequences on four real composite shapes (generic Composite trees with Component
leaves, FALSY nodes -- NullComponent, a falsy Composite subclass -- and owners of spatial grids in every state of
the locator cache: empty / partially filled / pre-built; a HexBlock of real components with its lattice in such
states; a HexAssembly of HexBlocks; the smallest test reactor's Reactor/Core/SpentFuelPool/Assembly tree with
discharges into the pool); after EVERY operation the canonical state (parent id, child ids, locator
attachment, grid owner of every object, ids = creation order) of the real objects is compared with
the model's, followed by random traversal queries (deep / generation / flags / type / predicate / NO predicate /
with materials / typed children / first block / components / ancestors) and deepcopy / pickle points.
Oracle (independent of the model): parent/child agreement both ways, no duplicates, acyclicity,
detached-after-remove, removeAll/setChildren postconditions, every traversal against a naive walk of the raw child
lists, container protocol, copy clauses (every owner of a grid re-linked, every locator -- index, coordinate,
multi-index cells -- on the copy's grid, reactor's ex-core registry).
Caller side (C01-c): every list a query hands back is mutated in place or kept across later edits (the tree must not
notice / the result must not change), the idioms `order = x.getChildren(); <permute>; x.setChildren(order)` and
`for c in x.getChildren(): x.remove(c)` are ops.  Query - edit - query (C01-d): after every edit a battery of all
direct-children queries runs on the parent just edited and the next edit is steered to the same parent; setType / flag
changes and clearCache() are part of the histories.  A raise out of the real code is a keyed failure (op-raises /
query-raises / copy-raises), never an infrastructure failure.
Excluded points (F4): add of an already-parented object, remove of a non-child, append/extend, a cycle.  Regression
points of repaired defects: shared cells of a detached multi-index location, a reactor's ex-core registry after deepcopy.
"""
import copy
import os
import pickle
import random

from harness import common
from harness.common import Failure, lean_run

PROP_MODULES = ["ArmiVerif.Props.C01"]
PARTIAL = ("query results are VALUES in the model (fresh by construction): aliasing of a result with the live child list and "
           "per-object caches going stale are carried by the implementation-side oracle (mutate / keep every list result, "
           "query battery after every edit on the same parent) plus the idiom theorems (setChildren_exact, reorder_idiom, "
           "drain_idiom, aliased_drain_skips, typed_queries_follow_edits); "
           "deepcopy and pickle are one model operation (both go through __getstate__/__setstate__); the payload of a "
           "copy (parameters, serial numbers) is C16's; locator/grid content beyond attached/detached/owner is C07's; payload (parameter) equality of "
           "copies is C16's; the sort comparator (__lt__ on locators / component diameters) is a parameter of the "
           "model (ranks computed with the real __lt__); Core.add bookkeeping beyond the child list and locator "
           "is C14's")
ASSUMPTIONS = [
    "object identity is modelled by creation-order ids; the harness maps real objects to ids with id()",
    "list.sort() is a stable sort by __lt__ (CPython); the model sorts stably by ranks computed from the real __lt__",
    "pickle/deepcopy of leaf payloads (parameters, materials) is outside the structural model",
]

K_COMPOSITE, K_COMPONENT, K_BLOCK, K_ASSEMBLY, K_CORE, K_SFP = 0, 1, 2, 3, 4, 5
TYPE_POOL = ["fuel", "clad", "duct", "bond", "wire", "coolant", "intercoolant", "igniter fuel", "c1", "c3"]
_TYPES = {t: i + 1 for i, t in enumerate(TYPE_POOL)}


def type_code(o):
    try:
        t = o.getType()
    except Exception:
        return 0
    if t is None:
        return 0
    return _TYPES.setdefault(t, len(_TYPES) + 1)


def kind_of(o):
    from armi.reactor import assemblies, blocks, cores, excoreStructure
    from armi.reactor.components import Component

    if isinstance(o, Component):
        return K_COMPONENT
    if isinstance(o, blocks.Block):
        return K_BLOCK
    if isinstance(o, assemblies.Assembly):
        return K_ASSEMBLY
    if isinstance(o, cores.Core):
        return K_CORE
    if isinstance(o, excoreStructure.ExcoreStructure):
        return K_SFP
    return K_COMPOSITE


def naive_deep(n):
    out = list(n)
    for c in n:
        out += naive_deep(c)
    return out


def naive_gen(n, k):
    if k < 1:
        return []
    if k == 1:
        return list(n)
    out = []
    for c in n:
        out += naive_gen(c, k - 1)
    return out


def naive_comps(n, pred):
    """leaves that are Components, in depth-first order, below n (n itself if it is a Component)"""
    from armi.reactor.components import Component

    if isinstance(n, Component):
        return [n] if pred(n) else []
    out = []
    for c in n:
        out += naive_comps(c, pred)
    return out


def ref_has_flags(o, spec, exact):
    """independent reading of the hasFlags contract"""
    from armi.reactor.flags import Flags

    if spec is None or (isinstance(spec, Flags) and int(spec) == 0) or (isinstance(spec, list) and not spec):
        return not exact
    if isinstance(spec, list):
        return any(ref_has_flags(o, s, exact) for s in spec)
    f = int(o.p.flags) if o.p.flags else 0
    if f == 0:
        return False
    return f == int(spec) if exact else (f & int(spec)) == int(spec)


def check_registry(ctx, how, case, orig, new):
    """a reactor's registry of ex-core systems (r.excore[name] -> a child of the reactor) is an internal link too"""
    for x, ox in zip(new, orig):
        reg = getattr(ox, "excore", None)
        if reg is None or not hasattr(x, "excore"):
            continue
        for name, st in reg.items():
            k = next((i for i, o in enumerate(orig) if o is st), None)
            if k is not None and x.excore.get(name) is not new[k]:
                got = x.excore.get(name)
                ctx.fail(f"{how}-reactor-excore-registry-not-relinked", "a copy is internally re-linked: the copied reactor's "
                         "registry of ex-core systems names the copy's own systems", case | {"system": name},
                         observed="missing" if got is None else "the original's system" if got is st else "another object",
                         expected="the copied system")


def directed_reactor_copy(ctx):
    """directed point: deepcopy / pickle of the whole fixture reactor (registered spent fuel pool)"""
    r = fixture()
    orig = [r] + naive_deep(r)
    for how in ("deepcopy", "pickle"):
        with common.quiet():
            cp = copy.deepcopy(r) if how == "deepcopy" else pickle.loads(pickle.dumps(r))
        check_registry(ctx, how, {"directed": "copy of the smallest test reactor", "how": how}, orig, [cp] + naive_deep(cp))
    ctx.count("directed reactor copies", 2)


def one_id(ses, x):
    return "none" if x is None else str(ses.ids.get(id(x), "?"))


class Session:
    """One edit sequence: real objects + the request lines for the model + the real answers."""

    def __init__(self, ctx, shape, seq_seed, batch):
        self.ctx, self.shape, self.seq_seed, self.batch = ctx, shape, seq_seed, batch
        self.rng = random.Random(seq_seed)
        self.objs = []
        self.ids = {}
        self.nops = 0
        self.log = []
        self.removed = []   # (object) taken out of the model and not re-added since
        self.dead = set()   # ids of placeholders for unreachable temporaries
        self.kept = []      # query results the "caller" keeps across later edits: (list object, ids at query time, what, op index)
        self.focus = None   # the parent the last edit worked on (query - edit - query on the SAME parent)
        self.emit("reset", "ok ")

    # ---- bookkeeping
    def case(self):
        return {"shape": self.shape, "seq_seed": self.seq_seed, "op_index": self.nops, "last_ops": self.log[-6:]}

    def emit(self, req, impl):
        self.batch["req"].append(req)
        self.batch["impl"].append(impl)
        self.batch["cases"].append(self.case() | {"request": req})

    def idx(self, o):
        return self.ids.get(id(o))

    def register(self, o):
        self.ids[id(o)] = len(self.objs)
        self.objs.append(o)

    def state(self):
        holders = {}
        for i, o in enumerate(self.objs):
            g = getattr(o, "spatialGrid", None)
            if g is not None and id(g) not in holders:
                holders[id(g)] = i
        parts = []
        for o in self.objs:
            par = "_" if o.parent is None else str(self.ids.get(id(o.parent), "?"))
            kids = ",".join(str(self.ids.get(id(c), "?")) for c in o)
            loc = o.spatialLocator
            if loc is None or loc.grid is None:
                lc = "d"
            elif id(loc.grid) in holders:
                lc = f"a{holders[id(loc.grid)]}"
            else:
                lc = "o"
            g = o.spatialGrid
            if g is None:
                gr = "n"
            elif g.armiObject is None:
                gr = "g_"
            else:
                gr = "g" + str(self.ids.get(id(g.armiObject), "?"))
            parts.append(f"{par}/{kids}/{lc}/{gr}")
        return "|".join(parts)

    def new_line(self, o):
        from armi.reactor.flags import Flags  # noqa

        fl = int(o.p.flags) if o.p.flags else 0
        return f"new {kind_of(o)} {fl} {type_code(o)} {'T' if o.spatialGrid is not None else 'F'} {'T' if bool(o) else 'F'}"

    def create(self, o):
        """a freshly constructed detached object"""
        self.register(o)
        self.emit(self.new_line(o), "ok " + self.state())

    def mirror(self, root):
        """register an existing real tree and replay its construction with set-up requests"""
        walk = [root] + naive_deep(root)
        for o in walk:
            self.register(o)
        for o in walk:
            self.batch["req"].append(self.new_line(o)); self.batch["impl"].append(None)
            self.batch["cases"].append(self.case())
        holders = {}
        for i, o in enumerate(self.objs):
            if o.spatialGrid is not None:
                holders.setdefault(id(o.spatialGrid), i)
        for o in walk:
            for c in o:
                self.batch["req"].append(f"rawadd {self.idx(o)} {self.idx(c)}"); self.batch["impl"].append(None)
                self.batch["cases"].append(self.case())
        for o in walk:
            loc = o.spatialLocator
            if loc is not None and loc.grid is not None and id(loc.grid) in holders:
                self.batch["req"].append(f"setloc {self.idx(o)} {holders[id(loc.grid)]}"); self.batch["impl"].append(None)
                self.batch["cases"].append(self.case())
        # the last set-up line must reproduce the real state
        self.batch["impl"][-1] = "ok " + self.state()

    # ---- oracle on the real objects (independent of the model)
    def check_inv(self, what):
        ctx = self.ctx
        n = len(self.objs)
        for o in self.objs:
            kid_ids = [id(c) for c in o]
            if len(set(kid_ids)) != len(kid_ids):
                ctx.fail(f"{what}-child-listed-twice", "a parent lists each child exactly once", self.case(),
                         observed=[self.idx(c) for c in o])
            for c in o:
                if c.parent is not o:
                    ctx.fail(f"{what}-listed-child-has-other-parent", "a listed child's parent is the lister",
                             self.case(), observed={"lister": self.idx(o), "child": self.idx(c),
                                                    "child.parent": None if c.parent is None else self.idx(c.parent)})
            if o.parent is not None and not any(c is o for c in o.parent):
                ctx.fail(f"{what}-parent-does-not-list-child", "an object's parent lists it", self.case(),
                         observed={"object": self.idx(o), "parent": self.idx(o.parent)})
            # acyclic
            x, steps = o, 0
            while x is not None and steps <= n + 2:
                x, steps = x.parent, steps + 1
            if x is not None:
                ctx.fail(f"{what}-cycle", "the parent relation has no cycle", self.case(), observed=self.idx(o))
        for o in self.removed:
            loc = o.spatialLocator
            cells = list(loc) if type(loc).__name__ == "MultiIndexLocation" else []
            if o.parent is not None or (loc is not None and loc.grid is not None) or any(q.grid is not None for q in cells):
                ctx.fail(f"{what}-removed-object-not-detached", "an object taken out has no parent and a detached location",
                         self.case(), observed=self.idx(o))

    # ---- traversal queries: real answer, naive answer, model request
    def queries(self, k):
        from armi.reactor.flags import Flags

        ctx, rng = self.ctx, self.rng
        flagpool = sorted({int(o.p.flags) for o in self.objs if o.p.flags} | {int(Flags.FUEL), int(Flags.CLAD)})
        for _ in range(k):
            n = rng.choice([o for o in self.objs if id(o) not in self.dead])
            kind = rng.choice(["deep", "gen", "gen", "flags", "flags", "type", "pred", "comps", "anc", "anc", "bad",
                               "nopred", "nopred", "nopred", "mat", "typed", "typed", "first", "derived", "compq", "blocks"])
            ids = lambda l: "[" + ",".join(str(self.ids.get(id(x), "?")) for x in l) + "]"
            if kind in ("nopred", "mat", "typed", "first", "derived", "compq", "blocks"):
                self.more_queries(kind, n, flagpool, ids)
                continue
            # predicate
            pk = rng.choice(["all", "par", "mod3", "flags", "type"]) if kind in ("deep", "gen", "pred", "anc") else kind
            preq, pred = "all", (lambda o: True)
            spec = None
            exact = False
            if pk == "par":
                r = rng.randint(0, 1); preq = f"par {r}"; pred = lambda o, r=r: self.ids[id(o)] % 2 == r
            elif pk == "mod3":
                r = rng.randint(0, 2); preq = f"mod3 {r}"; pred = lambda o, r=r: self.ids[id(o)] % 3 == r
            elif pk in ("flags", "comps"):
                exact = rng.random() < 0.4
                form = rng.choice(["one", "one", "list", "none", "zero", "combo", "empty"])
                if form == "one":
                    v = rng.choice(flagpool); spec = Flags(v); sreq = f"f{v}"
                elif form == "combo":
                    v = rng.choice(flagpool) | rng.choice(flagpool); spec = Flags(v); sreq = f"f{v}"
                elif form == "list":
                    vs = [rng.choice(flagpool + [0]) for _ in range(rng.randint(1, 3))]
                    spec = [Flags(v) for v in vs]; sreq = "[" + ",".join(map(str, vs)) + "]"
                elif form == "empty":
                    spec = []; sreq = "[]"
                elif form == "zero":
                    spec = Flags(0); sreq = "f0"
                else:
                    spec = None; sreq = "_"
                preq = f"flags {sreq} {'T' if exact else 'F'}"
                pred = lambda o, spec=spec, exact=exact: o.hasFlags(spec, exact)
            elif pk == "type":
                t = rng.choice(TYPE_POOL); preq = f"type {type_code_of(t)}"
                pred = lambda o, t=t: _safe_type(o) == t
            ctx.count(f"query {kind}/{pk}")
            if kind in ("deep", "gen", "pred", "flags", "type", "bad"):
                deep = kind in ("deep", "pred") and rng.random() < 0.8
                g = 1 if deep or kind in ("flags", "type") and rng.random() < 0.5 else rng.randint(-1, 4)
                if kind == "bad":
                    deep, g = True, rng.randint(2, 3)
                requery = None
                try:
                    if pk == "flags" and not deep and g == 1 and rng.random() < 0.5:
                        requery = lambda: n.getChildrenWithFlags(spec, exactMatch=exact)
                        got = requery()
                    elif rng.random() < 0.5:
                        # getChildren with every argument combination (explicit predicate or none)
                        requery = lambda: n.getChildren(deep=deep, generationNum=g, predicate=None if pk == "all" else pred)
                        got = requery()
                    else:
                        got = list(n.iterChildren(deep=deep, generationNum=g, predicate=pred))
                    line = ids(got)
                except RuntimeError:
                    got, line = None, "reject"
                self.emit(f"iter {self.idx(n)} {'T' if deep else 'F'} {g} {preq}", line)
                # naive walk
                if deep and g > 1:
                    exp = None
                else:
                    refp = pred if pk != "flags" else (lambda o: ref_has_flags(o, spec, exact))
                    exp = [x for x in (naive_deep(n) if deep else naive_gen(n, g)) if refp(x)]
                if (got is None) != (exp is None) or (got is not None and [id(x) for x in got] != [id(x) for x in exp]):
                    ctx.fail(f"traversal-{'deep' if deep else 'generation'}-differs-from-naive-walk",
                             "a traversal returns exactly the objects of a naive walk of the child lists, once, in child order",
                             self.case() | {"root": self.idx(n), "deep": deep, "generation": g, "predicate": preq},
                             observed=None if got is None else ids(got), expected=None if exp is None else ids(exp))
                if got is not None and len({id(x) for x in got}) != len(got):
                    ctx.fail("traversal-returns-object-twice", "each object once", self.case(), observed=ids(got))
                if requery is not None and got is not None and exp is not None:
                    self.fresh_check(n, got, requery, exp, f"list query (deep={deep}, generationNum={g}, predicate={preq})")
            elif kind == "comps":
                got = n.getComponents(spec, exact)
                if list(n.iterComponents(spec, exact)) != got:
                    ctx.fail("components-iter-vs-get", "iterComponents and getComponents agree", self.case())
                self.emit(f"comps {self.idx(n)} {sreq} {'T' if exact else 'F'}", ids(got))
                exp = naive_comps(n, lambda o: ref_has_flags(o, spec, exact))
                got, got0 = list(got), got
                if [id(x) for x in got] == [id(x) for x in exp]:
                    self.fresh_check(n, got0, lambda: n.getComponents(spec, exact), exp, f"getComponents({sreq}, {exact})")
                if [id(x) for x in got] != [id(x) for x in exp]:
                    ctx.fail("traversal-components-differs-from-naive-walk", "leaf components in depth-first child order",
                             self.case() | {"root": self.idx(n), "spec": sreq, "exact": exact}, observed=ids(got), expected=ids(exp))
            else:  # ancestors
                res = n.getAncestorAndDistance(pred)
                line = "none" if res is None else f"({self.ids.get(id(res[0]), '?')},{res[1]})"
                self.emit(f"anc {self.idx(n)} {preq}", line)
                a1 = n.getAncestor(pred)
                chain, x = [], n
                while x is not None and len(chain) <= len(self.objs) + 1:
                    chain.append(x); x = x.parent
                refp = pred if pk != "flags" else (lambda o: ref_has_flags(o, spec, exact))
                exp = next(((x, d) for d, x in enumerate(chain) if refp(x)), None)
                ok = (res is None and exp is None and a1 is None) or (
                    res is not None and exp is not None and res[0] is exp[0] and res[1] == exp[1] and a1 is exp[0])
                if pk == "flags":
                    a2 = n.getAncestorWithFlags(spec, exactMatch=exact)
                    ok = ok and (a2 is (None if exp is None else exp[0]))
                    self.emit(f"ancflags {self.idx(n)} {sreq} {'T' if exact else 'F'}",
                              "none" if a2 is None else str(self.ids.get(id(a2), "?")))
                if not ok:
                    ctx.fail("ancestor-query-differs-from-parent-chain", "first object on the parent chain satisfying the predicate",
                             self.case() | {"start": self.idx(n), "predicate": preq}, observed=line,
                             expected=None if exp is None else [self.idx(exp[0]), exp[1]])

    # ---- a query result belongs to the caller (fresh list): mutate it / keep it across edits
    def fresh_check(self, n, got, requery, naive, what):
        """`got` is the list a list-returning query handed back.  Either the caller mutates it in place right away (the
        tree must not notice, and asking again must give the naive answer), or keeps it (it must not change under the
        caller when the tree is edited later: `check_kept`)."""
        ctx, rng = self.ctx, self.rng
        if not isinstance(got, list):
            return
        if rng.random() < 0.5:
            self.kept.append((got, [id(x) for x in got], what, self.nops, self.idx(n)))
            del self.kept[:-8]
            return
        before = self.state()
        how = rng.choice(["reverse", "pop", "append", "sort", "clear", "insert", "del-slice"])
        try:
            if how == "reverse":
                got.reverse()
            elif how == "pop":
                got and got.pop(rng.randrange(len(got)))
            elif how == "append":
                got.append(rng.choice(self.objs))
            elif how == "sort":
                got.sort(key=lambda o: -id(o))
            elif how == "clear":
                got.clear()
            elif how == "insert":
                got.insert(0, rng.choice(self.objs))
            else:
                del got[::2]
        except Exception:
            return
        ctx.count(f"caller mutates a query result in place ({how})")
        case = self.case() | {"root": self.idx(n), "root_type": type(n).__name__, "query": what, "caller": f"result.{how}()"}
        after = self.state()
        if after != before:
            ctx.fail("query-result-aliases-tree", "a traversal query hands back a fresh list: mutating the result does not change "
                     "the tree (child order, membership, parents)", case, observed=after[:300], expected=before[:300])
            raise _Broken()
        again = requery()
        if [id(x) for x in again] != [id(x) for x in naive]:
            ctx.fail("query-result-shared-between-calls", "a traversal query hands back a fresh list: a later call is not affected "
                     "by what the caller did to an earlier result", case,
                     observed=[self.ids.get(id(x), "?") for x in again], expected=[self.ids.get(id(x), "?") for x in naive])

    def check_kept(self, req):
        """results taken BEFORE this edit are the caller's: they still hold what they held"""
        for got, ids0, what, at, root in self.kept:
            if [id(x) for x in got] != ids0:
                self.ctx.fail("query-result-changes-under-caller", "a result taken before an edit does not change when the tree "
                              "is edited afterwards", self.case() | {"root": root, "query": what, "taken_at_op": at, "edit": req},
                              observed=[self.ids.get(id(x), "?") for x in got], expected=[self.ids.get(i_, "?") for i_ in ids0])
                self.kept = []
                raise _Broken()
        self.kept = [k for k in self.kept if self.nops - k[3] <= 4]

    # ---- query - edit - query on the SAME parent
    def battery(self):
        """every kind of direct-children query on the parent the last edit worked on (and on its parent), each against the
        raw child list at this moment; the next edit is steered to the same parent half of the time"""
        from armi.reactor.flags import Flags

        n = self.focus
        if n is None or self.idx(n) is None or id(n) in self.dead or self.rng.random() < 0.35:
            return
        ctx, rng = self.ctx, self.rng
        ids = lambda l: "[" + ",".join(str(self.ids.get(id(x), "?")) for x in l) + "]"
        raw = list(n)
        case = lambda q: self.case() | {"root": self.idx(n), "root_type": type(n).__name__, "query": q, "after_edit": self.log[-1:] }
        def judge(got, exp, q, key="query-after-edit-differs-from-child-lists"):
            if [id(x) for x in got] != [id(x) for x in exp]:
                ctx.fail(key, "a traversal query repeated after an edit reflects the edit (the child lists at that moment)",
                         case(q), observed=ids(got), expected=ids(exp))
        ctx.count("battery: all direct-children queries on the parent just edited")
        # plain
        got = n.getChildren()
        self.emit(f"iter {self.idx(n)} F 1 none", ids(got)); judge(got, raw, "getChildren()")
        self.fresh_check(n, got, lambda: n.getChildren(), raw, "getChildren()")
        got = n.getChildren(deep=True)
        self.emit(f"iter {self.idx(n)} T 1 none", ids(got)); judge(got, naive_deep(n), "getChildren(deep=True)")
        # by type name (only where every child has a type)
        typed = all(_safe_type(c) is not None for c in raw)
        if typed:
            names = sorted({_safe_type(c) for c in raw} | {_safe_type(c) for c in self.removed[-3:] if _safe_type(c)} | {rng.choice(TYPE_POOL)})
            for t in names[:5]:
                exp = [c for c in raw if _safe_type(c) == t]
                form = rng.choice(["getChildrenOfType", "iterChildrenOfType"])
                got = n.getChildrenOfType(t) if form == "getChildrenOfType" else list(n.iterChildrenOfType(t))
                self.emit(f"kidstype {self.idx(n)} {type_code_of(t)}", ids(got)); judge(got, exp, f"{form}({t!r})")
                if form == "getChildrenOfType":
                    self.fresh_check(n, got, lambda t=t: n.getChildrenOfType(t), exp, f"getChildrenOfType({t!r})")
                if kind_of(n) == K_ASSEMBLY:
                    g1 = n.getFirstBlockByType(t)
                    self.emit(f"firsttype {self.idx(n)} {type_code_of(t)}", one_id(self, g1))
                    if g1 is not (exp[0] if exp else None):
                        ctx.fail("query-after-edit-differs-from-child-lists", "a traversal query repeated after an edit reflects the edit",
                                 case(f"getFirstBlockByType({t!r})"), observed=one_id(self, g1), expected=one_id(self, exp[0] if exp else None))
        # by flags
        vals = sorted({int(c.p.flags) for c in raw if c.p.flags} | {int(c.p.flags) for c in self.removed[-3:] if c.p.flags})
        for v in vals[:4]:
            exact = rng.random() < 0.5
            exp = [c for c in raw if ref_has_flags(c, Flags(v), exact)]
            got = n.getChildrenWithFlags(Flags(v), exactMatch=exact)
            self.emit(f"kidsflags {self.idx(n)} f{v} {'T' if exact else 'F'}", ids(got)); judge(got, exp, f"getChildrenWithFlags(f{v}, exact={exact})")
            self.fresh_check(n, got, lambda v=v, exact=exact: n.getChildrenWithFlags(Flags(v), exactMatch=exact), exp, f"getChildrenWithFlags(f{v})")
            if kind_of(n) == K_ASSEMBLY:
                gb = n.getBlocks(Flags(v), exact)
                judge(gb, exp, f"getBlocks(f{v}, exact={exact})")
                self.fresh_check(n, gb, lambda v=v, exact=exact: n.getBlocks(Flags(v), exact), exp, f"getBlocks(f{v})")
        if kind_of(n) == K_ASSEMBLY:
            gb = n.getBlocks()
            judge(gb, raw, "getBlocks()")
            self.fresh_check(n, gb, lambda: n.getBlocks(), raw, "getBlocks()")
        # leaf components
        got = n.getComponents()
        self.emit(f"comps {self.idx(n)} _ F", ids(got)); judge(got, naive_comps(n, lambda o: True), "getComponents()")
        self.fresh_check(n, got, lambda: n.getComponents(), naive_comps(n, lambda o: True), "getComponents()")

    def more_queries(self, kind, n, flagpool, ids):
        """queries called WITHOUT a predicate (predicate=None paths, includeMaterials, what is built on them) and the
        typed queries; every answer against a naive walk of the raw child lists (`for c in node`)"""
        from armi.reactor.flags import Flags

        ctx, rng = self.ctx, self.rng
        fail_walk = lambda key, what, got, exp: ctx.fail(
            key, "a traversal returns exactly the objects of a naive walk of the child lists, once, in child order",
            self.case() | {"root": self.idx(n), "root_type": type(n).__name__, "query": what,
                           "falsy_nodes_below": sum(1 for x in naive_deep(n) if not bool(x))},
            observed=got, expected=exp)

        def spec_of():
            exact = rng.random() < 0.4
            form = rng.choice(["one", "one", "list", "none", "zero", "combo", "empty"])
            if form == "one":
                v = rng.choice(flagpool); return Flags(v), f"f{v}", exact
            if form == "combo":
                v = rng.choice(flagpool) | rng.choice(flagpool); return Flags(v), f"f{v}", exact
            if form == "list":
                vs = [rng.choice(flagpool + [0]) for _ in range(rng.randint(1, 3))]
                return [Flags(v) for v in vs], "[" + ",".join(map(str, vs)) + "]", exact
            if form == "empty":
                return [], "[]", exact
            if form == "zero":
                return Flags(0), "f0", exact
            return None, "_", exact

        if kind in ("nopred", "mat"):
            deep = rng.random() < 0.4
            g = 1 if deep else rng.choice([1, 1, 2, 2, 3, rng.randint(-1, 4)])
            if rng.random() < 0.08:
                deep, g = True, rng.randint(2, 3)
            naive = None if (deep and g > 1) else (naive_deep(n) if deep else naive_gen(n, g))
            if kind == "nopred":
                form = rng.choice(["getChildren", "iterChildren", "iterChildren-None", "getChildren-None", "default"])
                if form == "default" and (deep or g != 1):
                    form = "getChildren"
                ctx.count(f"query nopred/{form}")
                try:
                    if form == "getChildren":
                        got = n.getChildren(deep=deep, generationNum=g)
                    elif form == "iterChildren":
                        got = list(n.iterChildren(deep=deep, generationNum=g))
                    elif form == "iterChildren-None":
                        got = list(n.iterChildren(deep, g, None))
                    elif form == "getChildren-None":
                        got = n.getChildren(deep, g, False, None)
                    else:
                        got = n.getChildren() if rng.random() < 0.5 else list(n.iterChildren())
                    line = ids(got)
                except RuntimeError:
                    got, line = None, "reject"
                self.emit(f"iter {self.idx(n)} {'T' if deep else 'F'} {g} none", line)
                if (got is None) != (naive is None) or (got is not None and [id(x) for x in got] != [id(x) for x in naive]):
                    fail_walk(f"traversal-without-predicate-differs-from-naive-walk", f"{form}(deep={deep}, generationNum={g})",
                              None if got is None else ids(got), None if naive is None else ids(naive))
                elif got is not None and form.startswith("getChildren") or (got is not None and form == "default"):
                    rq = (lambda: n.getChildren()) if form == "default" else (lambda: n.getChildren(deep, g, False, None)) \
                        if form == "getChildren-None" else (lambda: n.getChildren(deep=deep, generationNum=g))
                    self.fresh_check(n, got, rq, naive, f"{form}(deep={deep}, generationNum={g})")
            else:
                usepred = rng.random() < 0.3
                r = rng.randint(0, 1)
                pred = (lambda o: self.ids[id(o)] % 2 == r) if usepred else None
                form = rng.choice(["getChildren", "iterChildrenWithMaterials"])
                ctx.count(f"query materials/{form}{'/pred' if usepred else ''}")
                try:
                    if form == "getChildren":
                        got = n.getChildren(deep=deep, generationNum=g, includeMaterials=True, predicate=pred)
                    else:
                        got = list(n.iterChildrenWithMaterials(deep=deep, generationNum=g, predicate=pred))
                except RuntimeError:
                    got = None
                exp = None
                if naive is not None:
                    exp = []
                    for x in naive:
                        if pred is None or pred(x):
                            exp.append(("o", x))
                            if getattr(x, "material", None) is not None:
                                exp.append(("m", x))
                def show(items):
                    return "[" + ",".join(("m" if t == "m" else "") + str(self.ids.get(id(x), "?")) for t, x in items) + "]"
                line = "reject"
                if got is not None:
                    tagged, prev = [], None
                    for it in got:
                        if id(it) in self.ids:
                            tagged.append(("o", it)); prev = it
                        elif prev is not None and it is getattr(prev, "material", None):
                            tagged.append(("m", prev))
                        else:
                            tagged.append(("m", it))     # a foreign object: shows as m?
                    line = show(tagged)
                self.emit(f"itermat {self.idx(n)} {'T' if deep else 'F'} {g} {'par ' + str(r) if usepred else 'none'}", line)
                want = "reject" if exp is None else show(exp)
                if line != want:
                    fail_walk("traversal-with-materials-differs-from-naive-walk", f"{form}(deep={deep}, generationNum={g}, "
                              f"includeMaterials=True, predicate={'parity' if usepred else None})", line, want)
                elif got is not None and form == "getChildren":
                    self.fresh_check(n, got, lambda: n.getChildren(deep=deep, generationNum=g, includeMaterials=True, predicate=pred),
                                     [x if t_ == "o" else x.material for t_, x in exp], f"getChildren(deep={deep}, generationNum={g}, includeMaterials=True)")
        elif kind == "typed":
            def has_type(o):
                try:
                    o.getType(); return True
                except Exception:
                    return False
            # (plain Composites carry no `type` parameter: getChildrenOfType is meaningful below typed children only)
            if rng.random() < 0.6 or not all(has_type(c) for c in n):
                spec, sreq, exact = spec_of()
                form = rng.choice(["getChildrenWithFlags", "iterChildrenWithFlags"])
                got = n.getChildrenWithFlags(spec, exactMatch=exact) if form == "getChildrenWithFlags" else \
                    list(n.iterChildrenWithFlags(spec, exact))
                self.emit(f"kidsflags {self.idx(n)} {sreq} {'T' if exact else 'F'}", ids(got))
                exp = [c for c in list(n) if ref_has_flags(c, spec, exact)]
                what = f"{form}({sreq}, exact={exact})"
            else:
                t = rng.choice(TYPE_POOL + [_safe_type(c) for c in n if _safe_type(c)][:3])
                form = rng.choice(["getChildrenOfType", "iterChildrenOfType"])
                got = n.getChildrenOfType(t) if form == "getChildrenOfType" else list(n.iterChildrenOfType(t))
                self.emit(f"kidstype {self.idx(n)} {type_code_of(t)}", ids(got))
                exp = [c for c in list(n) if _safe_type(c) == t]
                what = f"{form}({t!r})"
            ctx.count(f"query typed/{form}")
            if [id(x) for x in got] != [id(x) for x in exp]:
                fail_walk("typed-children-query-differs-from-naive-walk", what, ids(got), ids(exp))
            elif form == "getChildrenWithFlags":
                self.fresh_check(n, got, lambda: n.getChildrenWithFlags(spec, exactMatch=exact), exp, what)
            elif form == "getChildrenOfType":
                self.fresh_check(n, got, lambda: n.getChildrenOfType(t), exp, what)
        elif kind == "first":
            assems = [o for o in self.objs if kind_of(o) == K_ASSEMBLY and id(o) not in self.dead]
            if not assems:
                return
            a = rng.choice(assems)
            one = lambda x: "none" if x is None else str(self.ids.get(id(x), "?"))
            if rng.random() < 0.6:
                spec, sreq, exact = spec_of()
                got = a.getFirstBlock(spec, exact)
                self.emit(f"first {self.idx(a)} {sreq} {'T' if exact else 'F'}", one(got))
                # `typeSpec is None` means no restriction; anything else goes through hasFlags
                exp = next((c for c in list(a) if spec is None or ref_has_flags(c, spec, exact)), None)
                what = f"getFirstBlock({sreq}, exact={exact})"
            else:
                t = rng.choice(TYPE_POOL[:3] + [_safe_type(c) for c in a if _safe_type(c)][:3])
                got = a.getFirstBlockByType(t)
                self.emit(f"firsttype {self.idx(a)} {type_code_of(t)}", one(got))
                exp = next((c for c in list(a) if _safe_type(c) == t), None)
                what = f"getFirstBlockByType({t!r})"
            ctx.count("query first-block")
            if got is not exp:
                ctx.fail("first-block-query-differs-from-naive-walk", "the first child (in child order) that satisfies the query",
                         self.case() | {"assembly": self.idx(a), "query": what}, observed=one(got), expected=one(exp))
        elif kind == "blocks":
            # Assembly.getBlocks / iterBlocks / countBlocksWithFlags (`typeSpec is None`: all children)
            assems = [o for o in self.objs if kind_of(o) == K_ASSEMBLY and id(o) not in self.dead]
            if not assems:
                return
            a = rng.choice(assems)
            spec, sreq, exact = spec_of()
            form = rng.choice(["getBlocks", "iterBlocks", "countBlocksWithFlags"])
            exp = [c for c in list(a) if spec is None or ref_has_flags(c, spec, exact if form != "countBlocksWithFlags" else False)]
            if form == "getBlocks":
                got = a.getBlocks(spec, exact)
            elif form == "iterBlocks":
                got = list(a.iterBlocks(spec, exact))
            else:
                got = a.countBlocksWithFlags(spec)
            ctx.count(f"query blocks/{form}")
            if spec is None:
                self.emit(f"iter {self.idx(a)} F 1 none", ids(exp) if form == "countBlocksWithFlags" else ids(got))
            elif form != "countBlocksWithFlags":
                self.emit(f"kidsflags {self.idx(a)} {sreq} {'T' if exact else 'F'}", ids(got))
            bad = (got != len(exp)) if form == "countBlocksWithFlags" else ([id(x) for x in got] != [id(x) for x in exp])
            if bad:
                ctx.fail("assembly-blocks-query-differs-from-naive-walk", "the blocks of the assembly (child order) that have the flags",
                         self.case() | {"assembly": self.idx(a), "query": f"{form}({sreq}, exact={exact})"},
                         observed=got if form == "countBlocksWithFlags" else ids(got), expected=len(exp) if form == "countBlocksWithFlags" else ids(exp))
        elif kind == "compq":
            # queries over the leaf components (oracle only; the walk itself is `comps` / iterComps in the model)
            from armi.reactor import components as comps_mod

            allc = naive_comps(n, lambda o: True)
            form = rng.choice(["getComponentNames", "getComponentsOfShape", "getComponentByName", "getComponent"])
            ctx.count(f"query components/{form}")
            case = self.case() | {"root": self.idx(n), "query": form}
            if form == "getComponentNames":
                got, exp = n.getComponentNames(), {c.getName() for c in allc}
            elif form == "getComponentsOfShape":
                cls = rng.choice([comps_mod.Circle, comps_mod.Hexagon, comps_mod.NullComponent, comps_mod.DerivedShape, comps_mod.Helix])
                got, exp = ids(n.getComponentsOfShape(cls)), ids([c for c in allc if isinstance(c, cls)])
                case["shape_class"] = cls.__name__
            elif form == "getComponentByName":
                name = rng.choice([c.name for c in allc] + ["no-such-component"])
                hits = [c for c in allc if c.name == name]
                try:
                    got = one_id(self, n.getComponentByName(name))
                except ValueError:
                    got = "raises"
                exp = "none" if not hits else one_id(self, hits[0]) if len(hits) == 1 else "raises"
            elif form == "getComponent":
                spec, sreq, exact = spec_of()
                hits = [c for c in allc if ref_has_flags(c, spec, exact)]
                try:
                    got = one_id(self, n.getComponent(spec, exact=exact, quiet=True))
                except ValueError:
                    got = "raises"
                exp = "none" if not hits else one_id(self, hits[0]) if len(hits) == 1 else "raises"
                case["spec"] = sreq
            if got != exp:
                ctx.fail("component-query-differs-from-naive-walk", "queries over the leaf components answer from the naive "
                         "depth-first walk of the child lists", case, observed=got, expected=exp)
        else:
            # answers DERIVED from the predicate-less traversal (oracle only)
            spec, sreq, exact = spec_of()
            deep = rng.random() < 0.5
            walk = naive_deep(n) if deep else list(n)
            got = list(n.doChildrenHaveFlags(spec, deep=deep))
            exp = [bool(ref_has_flags(c, spec, False)) for c in walk]
            ctx.count("query derived/doChildrenHaveFlags")
            if [bool(x) for x in got] != exp:
                fail_walk("derived-children-query-differs-from-naive-walk", f"doChildrenHaveFlags({sreq}, deep={deep})", got, exp)
            # the container protocol of a composite against its raw child list (identity, not equality / truthiness)
            raw = list(n._children)
            probe = rng.choice(self.objs)
            facts = {"len": len(n) == len(raw), "iter": [id(c) for c in n] == [id(c) for c in raw],
                     "contains": (probe in n) == any(c is probe for c in raw),
                     "getitem": all(n[i] is raw[i] for i in range(len(raw))) and (not raw or n[-1] is raw[-1])}
            if raw:
                c0 = rng.choice(raw)
                facts["contains-child"] = c0 in n
                try:
                    facts["index"] = raw[n.index(c0)] is c0
                except Exception:
                    facts["index"] = False
            ctx.count("query derived/container protocol")
            if not all(facts.values()):
                fail_walk("container-protocol-differs-from-child-list", "len / iter / in / [] / index", 
                          {k: v for k, v in facts.items() if not v}, "all true")
            if kind_of(n) != K_COMPONENT:
                try:
                    both = n + n      # ArmiObject.__add__: getChildren() + other.getChildren()
                except Exception:
                    both = None
                if both is not None and [id(x) for x in both] != [id(x) for x in list(n) + list(n)]:
                    fail_walk("derived-children-query-differs-from-naive-walk", "n + n (children of both)", ids(both), ids(list(n) + list(n)))

    # ---- operations
    def ancestors_or_self(self, p):
        out, x = [], p
        while x is not None and len(out) <= len(self.objs) + 1:
            out.append(x); x = x.parent
        return out

    def after(self, req, ok, what):
        self.nops += 1
        self.log.append(req)
        self.emit(req, ("ok " if ok else "reject ") + self.state())
        nfail = len(self.ctx.failures)
        self.check_inv(what)
        self.check_kept(req)
        w = req.split()
        if w[0] in ("add", "insert", "remove", "removeAll", "setChildren", "discharge", "sfpadd", "sort", "reest") and w[1].isdigit():
            self.focus = self.objs[int(w[1])]
        elif w[0] == "setmeta":
            self.focus = self.objs[int(w[1])].parent
        self.ctx.count(f"op {what}{'' if ok else ' (raised)'}")
        if len(self.ctx.failures) > nfail and self.shape != "excluded":
            # the real tree is no longer well formed: later walks may not terminate; the sequence ends here
            raise _Broken()

    def do_copy(self, n):
        how = self.rng.choice(["deepcopy", "pickle"])
        if self.rng.random() < 0.5:
            # query - copy - query: whatever the queries left on the original (per-object caches) travels with the copy
            self.focus = n
            self.battery()
        before = [{"owner_self": x.spatialGrid is not None and x.spatialGrid.armiObject is x,
                   "kids_in_grid": [c.spatialLocator is not None and c.spatialLocator.grid is x.spatialGrid for c in x],
                   "kids": [id(c) for c in x], "parent": x.parent} for x in [n] + naive_deep(n)]
        with common.quiet():
            cp = copy.deepcopy(n) if how == "deepcopy" else pickle.loads(pickle.dumps(n))
        new = [cp] + naive_deep(cp)
        orig = [n] + naive_deep(n)
        for o in new:
            self.register(o)
        ctx = self.ctx
        case = self.case() | {"copied": self.idx(n), "how": how}

        def shape(x):
            return (type(x).__name__, [shape(c) for c in x])
        if shape(cp) != shape(n):
            ctx.fail(f"{how}-shape-differs", "a copy is an equal-shaped tree", case)
        if {id(x) for x in new} & {id(x) for x in orig} or len({id(x) for x in new}) != len(new):
            ctx.fail(f"{how}-shares-node", "a copy shares no node with the original", case)
        if cp.parent is not None:
            ctx.fail(f"{how}-root-has-parent", "the copy's root has no parent", case)
        for x in new:
            for c in x:
                if c.parent is not x:
                    ctx.fail(f"{how}-child-not-relinked", "children of a copy point at the new parent", case)
                if x.spatialGrid is not None and c.spatialLocator is not None and c.spatialLocator.grid is not x.spatialGrid \
                        and orig[new.index(c)].spatialLocator.grid is orig[new.index(x)].spatialGrid:
                    ctx.fail(f"{how}-locator-not-relinked", "locators of a copy live in the copy's grid", case)
            if x.spatialGrid is not None and x.spatialGrid.armiObject is not x:
                ctx.fail(f"{how}-grid-not-relinked", "grids of a copy point at the new owner",
                         case | {"owner_type": type(x).__name__, "grid": type(x.spatialGrid).__name__, "grid_len": len(x.spatialGrid)})
            ox = orig[new.index(x)]
            if (x.spatialGrid is None) != (ox.spatialGrid is None):
                ctx.fail(f"{how}-grid-lost", "a copy has a grid exactly where the original has one", case)
            if x.spatialGrid is not None:
                for c, oc in zip(x, ox):
                    ol, cl = oc.spatialLocator, c.spatialLocator
                    if ol is not None and ol.grid is ox.spatialGrid:
                        inner = list(getattr(cl, "_locations", [])) if type(cl).__name__ == "MultiIndexLocation" else []
                        if cl is not None and cl.grid is x.spatialGrid and any(q.grid is not x.spatialGrid for q in inner):
                            # the multi-index locator itself is re-linked; (some of) its cells sit on ANOTHER owner's grid
                            ctx.fail("copy-multiindex-cells-on-other-grid", "locators of a copy live in the copy's grid (every cell "
                                     "of a multi-index location too)", case | {"owner_type": type(x).__name__,
                                     "cells_on_a_grid_of_the_copy": [any(q.grid is y.spatialGrid for y in new) for q in inner]})
                        elif cl is None or cl.grid is not x.spatialGrid:
                            ctx.fail(f"{how}-locator-not-relinked", "locators of a copy live in the copy's grid",
                                     case | {"owner_type": type(x).__name__, "locator": type(ol).__name__,
                                             "grid": type(x.spatialGrid).__name__, "grid_len": len(x.spatialGrid)})
                        elif type(cl) is not type(ol) or (not inner and (cl.i, cl.j, cl.k) != (ol.i, ol.j, ol.k)):
                            ctx.fail(f"{how}-locator-moved", "a copy is an equal-shaped tree (same kind of location, same cell / "
                                     "coordinates)", case | {"locator": type(ol).__name__})
            for g in [x.spatialGrid] + ([x.spatialLocator.grid] if x.spatialLocator is not None else []):
                if g is not None and any(g is y.spatialGrid for y in orig):
                    ctx.fail(f"{how}-shares-grid", "a copy shares no grid with the original", case)
        check_registry(ctx, how, case, orig, new)
        # the ORIGINAL is untouched by the copy: its grids still point at it, its children still live in its grid
        for x, was in zip(orig, before):
            if x.spatialGrid is not None and x.spatialGrid.armiObject is not x and was["owner_self"]:
                ctx.fail(f"{how}-original-grid-owner-changed", "copying leaves the original's grid owned by the original", case,
                         observed=self.idx(x))
            now = [c.spatialLocator is not None and c.spatialLocator.grid is x.spatialGrid for c in x]
            if x.spatialGrid is not None and now != was["kids_in_grid"]:
                ctx.fail(f"{how}-original-locators-changed", "copying leaves the original's children in the original's grid", case,
                         observed=self.idx(x))
            if [id(c) for c in x] != was["kids"] or (x is not n and x.parent is not was["parent"]):
                ctx.fail(f"{how}-original-changed", "copying does not edit the original", case, observed=self.idx(x))
        self.after(f"copy {self.idx(n)}", True, how)
        self.focus = cp      # the battery after this op (and, half of the time, the next edit) goes to the copy
        return cp

    def ranks(self, p):
        """rank of every object among its siblings by the real __lt__ (None if a comparison raises)"""
        from armi import runLog

        # (__lt__ logs an error line before raising for locators on different grids: not the check's business)
        old = runLog.getVerbosity()
        runLog.setVerbosity(100)
        try:
            return self._ranks(p)
        finally:
            runLog.setVerbosity(old)

    def _ranks(self, p):
        r = [0] * len(self.objs)
        todo = [p]
        while todo:
            x = todo.pop()
            ks = list(x)
            for c in ks:
                try:
                    r[self.idx(c)] = sum(1 for s in ks if s is not c and s < c)
                except Exception:
                    return None
                todo.append(c)
            # a strict weak order: equal rank <=> incomparable both ways
            for a in ks:
                for b in ks:
                    if a is not b and (r[self.idx(a)] < r[self.idx(b)]) != bool(a < b):
                        return None
        return r


def _safe_type(o):
    try:
        return o.getType()
    except Exception:
        return None


def type_code_of(t):
    return _TYPES.setdefault(t, len(_TYPES) + 1)


# --------------------------------------------------------------------------- fixtures
_FIX = {}


def fixture():
    if "r" not in _FIX:
        from armi.reactor.tests.test_reactors import loadTestReactor
        from armi.tests import TEST_ROOT

        with common.scratch_dir(), common.quiet():
            o, r = loadTestReactor(os.path.join(TEST_ROOT, "smallestTestReactor"), inputFileName="armiRunSmallest.yaml")
        _FIX["r"] = r
    return _FIX["r"]


def fresh_reactor():
    with common.quiet():
        return copy.deepcopy(fixture())


FLAG_NAMES = ["FUEL", "CLAD", "DUCT", "CONTROL", "INNER", "SHIELD", "COOLANT"]

_CLS = {}


def falsy_group_class():
    """a plain Composite whose truth value is False -- what components.NullComponent is among the Components
    (an interior node of the tree that `if obj:` / `filter(None, ...)` would skip)"""
    if "fg" not in _CLS:
        from armi.reactor import composites

        class FalsyGroup(composites.Composite):
            def __bool__(self):
                return False

        FalsyGroup.__module__ = __name__
        FalsyGroup.__qualname__ = "FalsyGroup"
        globals()["FalsyGroup"] = FalsyGroup      # picklable by reference
        _CLS["fg"] = FalsyGroup
    return _CLS["fg"]


def _grids():
    from armi.reactor import grids

    return grids


def null_component(name):
    from armi.reactor.components import NullComponent

    return NullComponent(name, "Void", 25.0, 25.0)


GRID_STATES = ["hex-empty", "hex-empty", "hex-partial", "hex-prebuilt", "cart-empty", "cart-prebuilt", "axial"]


def make_grid(ctx, rng, state=None):
    """a spatial grid in a chosen state of its locator cache: EMPTY (len 0, bool False -- what
    Block.autoCreateSpatialGrids builds), PARTIALLY filled (a few cells requested), PRE-BUILT"""
    from armi.reactor import grids

    state = state or rng.choice(GRID_STATES)
    pitch = rng.choice([1.0, 1.25, 2.0])
    if state == "hex-empty":
        g = grids.HexGrid.fromPitch(pitch, numRings=0)
    elif state == "hex-partial":
        g = grids.HexGrid.fromPitch(pitch, numRings=0)
        for _ in range(rng.randint(1, 3)):
            g[rng.randint(-2, 2), rng.randint(-2, 2), 0]
    elif state == "hex-prebuilt":
        g = grids.HexGrid.fromPitch(pitch, numRings=2)
    elif state == "cart-empty":
        g = grids.CartesianGrid.fromRectangle(pitch, pitch, numRings=0)
    elif state == "cart-prebuilt":
        g = grids.CartesianGrid.fromRectangle(pitch, pitch, numRings=2)
    else:
        g = grids.AxialGrid.fromNCells(rng.randint(1, 4))
    ctx.count(f"own grid {state} (len {'0' if len(g) == 0 else '>0'}, bool {bool(g)})")
    return g


def some_location(rng, g):
    """a locator on grid g: an index cell (fills the cache), a coordinate location (does not), or several cells"""
    from armi.reactor import grids

    if type(g).__name__ == "AxialGrid":
        return g[0, 0, rng.randint(0, 3)]
    k = rng.random()
    if k < 0.45:
        return grids.CoordinateLocation(rng.randint(-4, 4) / 4.0, rng.randint(-4, 4) / 4.0, 0.0, g)
    if k < 0.85:
        return g[rng.randint(-1, 1), rng.randint(-1, 1), 0]
    return g[[(0, 0, 0), (1, 0, 0), (0, 1, 0)][: rng.randint(1, 3)]]


def swap_block_lattice(ctx, rng, b, p_asbuilt=0.2):
    """give the block its own lattice in another state of the locator cache (what Block.autoCreateSpatialGrids-style
    code builds: empty until a cell is requested); children placed with coordinate locations (and, for the partial
    state, index cells / multi-index locations)"""
    variant = "as-built" if rng.random() < p_asbuilt else rng.choice(["hex-empty", "hex-empty", "hex-partial", "cart-empty"])
    if variant != "as-built":
        g = make_grid(ctx, rng, variant)
        g.armiObject = b
        b.spatialGrid = g
        for c in b:
            c.spatialLocator = some_location(rng, g) if variant == "hex-partial" else \
                _grids().CoordinateLocation(rng.randint(-2, 2) / 2.0, rng.randint(-2, 2) / 2.0, 0.0, g)
    ctx.count(f"block lattice {variant}")


def make_generic(ses):
    from armi.reactor import composites, grids
    from armi.reactor.components import Circle
    from armi.reactor.flags import Flags

    rng = ses.rng
    pool = [Flags.FUEL, Flags.CLAD, Flags.DUCT, Flags.FUEL | Flags.INNER, Flags.CONTROL, Flags(0),
            Flags.FUEL | Flags.INNER | Flags.SHIELD, Flags.CLAD | Flags.DUCT]
    forced = {1: "null", 2: rng.choice(["null", "falsygroup"])}      # every tree has falsy nodes
    for i in range(rng.randint(4, 10)):
        k = rng.random()
        what = forced.get(i) or ("circle" if k < 0.2 else "null" if k < 0.35 else "falsygroup" if k < 0.45 else "composite")
        if what == "circle":
            n = Circle(f"c{i}", "HT9", Tinput=25.0, Thot=25.0, od=1.0 + i, id=0.0, mult=1)
        elif what == "null":
            n = null_component(f"null{i}")
        elif what == "falsygroup":
            n = falsy_group_class()(f"fg{i}")
        else:
            n = composites.Composite(f"n{i}")
        n.p.flags = rng.choice(pool)
        if what in ("composite", "falsygroup") and rng.random() < 0.45:
            n.spatialGrid = make_grid(ses.ctx, rng)
            n.spatialGrid.armiObject = n
        n.spatialLocator = grids.IndexLocation(rng.randint(-2, 2), rng.randint(-2, 2), rng.randint(0, 3), None)
        ses.ctx.count(f"generic node: {what}")
        ses.create(n)


def run_sequence(ctx, shape, seq_seed, batch, nops, nq):
    """`_run_sequence`, with any raise out of the real code during the set-up of the sequence (building / copying the
    fixture objects) turned into a keyed failure"""
    import traceback

    try:
        return _run_sequence(ctx, shape, seq_seed, batch, nops, nq)
    except (common.Infra, KeyboardInterrupt):
        raise
    except Exception as e:  # noqa: BLE001
        tb = traceback.extract_tb(e.__traceback__)
        inarmi = [f"{os.path.basename(f.filename)}:{f.lineno} {f.name}" for f in tb if "/armi/" in f.filename]
        if not inarmi:
            raise
        ctx.fail("setup-raises", "building and copying the objects a valid-use history starts from completes (the real code raised)",
                 {"shape": shape, "seq_seed": seq_seed}, observed={"exception": repr(e)[:200], "armi_frames": inarmi[-4:]})
        return None


def _run_sequence(ctx, shape, seq_seed, batch, nops, nq):
    """Generate and execute one valid-use edit sequence on real objects; returns the session."""
    ses = Session(ctx, shape, seq_seed, batch)
    _CTX[0] = ctx
    rng = ses.rng
    core = None
    if shape == "generic":
        make_generic(ses)
        ops = ["add", "add", "add", "add", "insert", "insert", "remove", "removeAll", "setChildren", "sort", "copy", "copy",
               "moveto", "moveto", "moveto"]
    elif shape == "block":
        with common.quiet():
            b = copy.deepcopy(fixture().core[0][0])
            swap_block_lattice(ctx, rng, b)
            for k in range(rng.randint(0, 2)):
                b.insert(rng.randint(0, len(b)), null_component(f"nullb{k}"))
        ses.mirror(b)
        for k in range(rng.randint(1, 2)):
            ses.create(null_component(f"nullfree{k}"))
        if rng.random() < 0.5:
            if not _guarded(ses, "op", lambda: prelude_mixed(ses, b)):
                return ses
        ops = ["add", "add", "add", "insert", "remove", "remove", "removeAll", "setChildren", "sort", "copy", "copychild",
               "group", "group", "moveto", "moveto", "replace"]
    elif shape == "assembly":
        with common.quiet():
            a = copy.deepcopy(fixture().core[0])
            for blk in a:
                swap_block_lattice(ctx, rng, blk, p_asbuilt=0.4)
            if rng.random() < 0.6:
                for k in range(rng.randint(1, 3)):
                    blk = rng.choice(list(a))
                    blk.insert(rng.randint(0, len(blk)), null_component(f"nulla{k}"))
                ctx.count("assembly with NullComponents inside its blocks")
        ses.mirror(a)
        ops = ["add", "add", "insert", "insert", "remove", "removeAll", "setChildren", "sort", "reest", "copy", "copychild",
               "blockremove", "moveto", "replace", "replace"]
    else:
        r = fresh_reactor()
        with common.quiet():
            for blk in r.core.getChildren(deep=True, predicate=lambda o: kind_of(o) == K_BLOCK):
                swap_block_lattice(ctx, rng, blk, p_asbuilt=0.5)
        sfp = next((c for c in r if type(c).__name__ == "SpentFuelPool"), None)
        if sfp is not None and r.excore.get("sfp") is None:
            r.excore["sfp"] = sfp       # (copy.deepcopy of a Reactor does not carry the excore registry over)
        ses.mirror(r)
        core = r.core
        # (no component removal here: Core.add needs geometrically complete blocks)
        ops = ["coreadd", "coreadd", "coreremove", "copychild", "add", "insert", "remove", "sort", "copy", "reest", "moveto",
               "replace", "discharge", "discharge", "sfpadd", "sfpremove"]
    ops = ops + EXTRA_OPS[shape]
    ses.check_inv("initial")
    if not _guarded(ses, "query", lambda: ses.queries(nq)):
        nops = 0
    for _ in range(nops):
        op = rng.choice(ops)
        objs = ses.objs
        with common.quiet():
            try:
                _one_op(ses, op, shape, core)
            except _Skip:
                ctx.count(f"op {op} skipped (precondition not available)")
                continue
            except _Abort:
                ctx.count("sequence ended: geometry bookkeeping raised inside a multi-step block edit")
                break
            except _Broken:
                ctx.count("sequence ended: oracle failure")
                break
            except RecursionError:
                ctx.fail("walk-does-not-terminate", "the child lists form a finite tree", ses.case())
                break
            except Exception as e:  # noqa: BLE001
                _raised(ses, "copy" if op in ("copy", "copychild") else "op", e, {"op": op})
                break
        if not _guarded(ses, "query", lambda: (ses.battery(), ses.queries(nq))):
            break
    ctx.case((shape, seq_seed), nontrivial=ses.nops > 0,
             sample={"shape": shape, "seq_seed": seq_seed, "ops": ses.log[:8], "final_state": ses.state()[:300]})
    ctx.traces += 1
    return ses


_CTX = [None]


def prelude_mixed(ses, b):
    """directed mixed-depth shape: block [group(pinA, pinB), ..., duct, ..., group(pinC)] -- a Component that is a sibling
    of Composites which themselves hold Components (distinguishes depth-first order from 'direct children first')"""
    from armi.reactor import composites

    cs = list(b)
    g1, g2 = composites.Composite("groupA"), composites.Composite("groupB")
    ses.create(g1); ses.create(g2)
    with common.quiet():
        for c, g in ((cs[0], g1), (cs[1], g1), (cs[3], g2)):
            ok = _call(lambda: b.remove(c))
            ses.removed.append(c)
            ses.after(f"remove {ses.idx(b)} {ses.idx(c)}", ok, "remove")
            ok = _call(lambda: g.add(c))
            ses.removed = [x for x in ses.removed if x is not c]
            ses.after(f"add {ses.idx(g)} {ses.idx(c)}", ok, "add")
        ok = _call(lambda: b.insert(0, g1)); ses.after(f"insert {ses.idx(b)} 0 {ses.idx(g1)}", ok, "insert")
        ok = _call(lambda: b.add(g2)); ses.after(f"add {ses.idx(b)} {ses.idx(g2)}", ok, "add")
    ses.ctx.count("directed mixed-depth block built")


def do_replace(ses):
    """b.replaceBlockWithBlock(r): r a free-standing template (parent None) or an attached block; the same template is
    used again for a second block right away (and inspected afterwards)"""
    from armi.reactor import composites

    rng = ses.rng
    blocks_ = [o for o in ses.objs if kind_of(o) == K_BLOCK and id(o) not in ses.dead]
    if len(blocks_) < 2 or len(ses.objs) > 150:
        raise _Skip()
    templates = [o for o in blocks_ if o.parent is None]
    r = rng.choice(templates) if templates and rng.random() < 0.7 else rng.choice(blocks_)
    targets = [o for o in blocks_ if o is not r and not any(x is r for x in ses.ancestors_or_self(o))]
    if not targets:
        raise _Skip()
    for b in rng.sample(targets, min(len(targets), 2 if rng.random() < 0.6 else 1)):
        rkids = [id(c) for c in r]
        old = list(b)
        ok = _call(lambda: b.replaceBlockWithBlock(r), multi=True)
        # the temporary deep copy is unreachable: a placeholder takes its id
        dead = composites.Composite("forgotten-temp-block")
        ses.register(dead)
        ses.dead.add(id(dead))
        for o in naive_deep(b):
            if ses.idx(o) is None:
                ses.register(o)
        ses.removed += [k for k in old if not any(k is x for x in b)]
        ctx = ses.ctx
        case = ses.case() | {"replaced": ses.idx(b), "replacement": ses.idx(r), "template_detached": r.parent is None}
        if [id(c) for c in r] != rkids or any(c.parent is not r for c in r):
            ctx.fail("replace-takes-components-from-replacement", "the replacement block still owns its own components "
                     "(the replaced block receives copies)", case)
        if {id(c) for c in b} & set(rkids):
            ctx.fail("replace-shares-components", "no component object is listed by two blocks", case)
        for root in [o for o in ses.objs if o.parent is None and id(o) not in ses.dead]:
            comps = root.getComponents()
            if len({id(c) for c in comps}) != len(comps):
                ctx.fail("replace-duplicate-components", "getComponents() lists each component once", case | {"root": ses.idx(root)})
        ses.after(f"replace {ses.idx(b)} {ses.idx(r)}", ok, "replaceBlockWithBlock")
        ses.queries(2)


class _Skip(Exception):
    pass


# the caller-side idioms (C01-c) and meta-data edits (C01-d), per shape
EXTRA_OPS = {
    "generic": ["reorder", "reorder", "drain", "retype", "clearcache"],
    "block": ["reorder", "drain", "retype", "retype", "clearcache"],
    "assembly": ["reorder", "reorder", "drain", "retype", "retype", "retype", "clearcache"],
    "core": ["reorder", "retype", "retype", "retype", "clearcache", "coredrain"],
}


def pick_parent(ses, parents):
    """half of the time the edit goes to the parent the previous edit (and the query battery after it) worked on"""
    f = ses.focus
    if f is not None and ses.rng.random() < 0.5 and any(f is p for p in parents):
        return f
    return ses.rng.choice(parents)


def _raised(ses, phase, e, extra=None):
    """an exception that came OUT OF THE REAL CODE on a valid input (op, query, copy, pickle) is a failing input of the
    property, keyed by the phase, with the op history as replay; an exception of the harness itself is re-raised"""
    import traceback

    if isinstance(e, (_Skip, _Abort, _Broken, common.Infra, KeyboardInterrupt)):
        raise e
    tb = traceback.extract_tb(e.__traceback__)
    inarmi = [f"{os.path.basename(f.filename)}:{f.lineno} {f.name}" for f in tb if "/armi/" in f.filename]
    if not inarmi:
        raise e
    incheck = [f"{os.path.basename(f.filename)}:{f.lineno} {f.name}" for f in tb if "/harness/" in f.filename]
    ses.ctx.fail(f"{phase}-raises", "every edit, traversal query, deep copy and pickle round trip of a valid-use history "
                 "completes (the real code raised)", ses.case() | (extra or {}),
                 observed={"exception": repr(e)[:200], "armi_frames": inarmi[-4:], "check_frames": incheck[-2:]})
    ses.ctx.count(f"sequence ended: the real code raised during a {phase}")


def _guarded(ses, phase, fn):
    try:
        with common.quiet():
            fn()
        return True
    except (_Skip, _Abort):
        return True
    except _Broken:
        return False
    except RecursionError:
        ses.ctx.fail("walk-does-not-terminate", "the child lists form a finite tree", ses.case())
        return False
    except Exception as e:  # noqa: BLE001
        _raised(ses, phase, e)
        return False


class _Broken(Exception):
    """the oracle found the real tree broken; the rest of the sequence is meaningless"""


def _parents_for(ses, shape, kinds):
    return [o for o in ses.objs if kind_of(o) in kinds]


GEOMETRY_FRAMES = {"getVolumeFractions", "getLargestComponent", "_updatePitchComponent"}


class _Abort(Exception):
    """the real call left the modelled domain (geometry bookkeeping raised inside a multi-step edit)"""


def _call(fn, multi=False):
    """run a mutator of the real code; a raise is data (the model says whether it is expected)"""
    try:
        fn()
        return True
    except Exception as e:
        # Block.remove / Block.add do geometry bookkeeping (volume fractions, pitch-defining component) AFTER the
        # structural change; it raises when the remaining children cannot define the derived coolant or when a
        # child is a plain Composite group.  Geometry is outside the structural model: a single remove/add counts
        # as completed (the state comparison still applies); inside removeAll/setChildren the loop was cut short,
        # so the sequence ends there.
        tb, names = e.__traceback__, []
        while tb is not None:
            names.append(tb.tb_frame.f_code.co_name)
            tb = tb.tb_next
        if GEOMETRY_FRAMES & set(names):
            _CTX[0].count("Block edit: geometry bookkeeping raised after the structural change")
            if multi:
                raise _Abort()
            return True
        return False


def _one_op(ses, op, shape, core):
    rng = ses.rng
    # (placeholders of unreachable temporaries stand for objects the real code has dropped: never operands)
    objs = [o for o in ses.objs if id(o) not in ses.dead]
    K = kind_of
    if shape == "generic":
        parent_kinds = (K_COMPOSITE, K_COMPONENT) if rng.random() < 0.1 else (K_COMPOSITE,)
        child_ok = lambda p, c: True
    elif shape == "block":
        # a block of components and of groups (plain Composites) of components: mixed-depth trees
        parent_kinds = (K_BLOCK, K_COMPOSITE)
        child_ok = lambda p, c: K(c) == K_COMPONENT or (K(p) == K_BLOCK and K(c) == K_COMPOSITE)
    else:
        parent_kinds = (K_ASSEMBLY,) if op not in ("blockremove",) else (K_BLOCK,)
        child_ok = lambda p, c: K(c) == K_BLOCK
    parents = [o for o in objs if K(o) in parent_kinds]
    if not parents:
        raise _Skip()
    if op in ("add", "insert"):
        p = pick_parent(ses, parents)
        anc = ses.ancestors_or_self(p)
        cands = [c for c in objs if c.parent is None and not any(c is x for x in anc) and child_ok(p, c)
                 and K(c) not in (K_CORE,) and type(c).__name__ not in ("Reactor", "SpentFuelPool")]
        if shape == "core":
            cands = [c for c in cands if K(c) == K_BLOCK]
        if not cands:
            raise _Skip()
        c = rng.choice(cands)
        if op == "add":
            ok = _call(lambda: p.add(c))
            req = f"add {ses.idx(p)} {ses.idx(c)}"
        else:
            i = rng.randint(-len(p) - 2, len(p) + 2)
            ok = _call(lambda: p.insert(i, c))
            req = f"insert {ses.idx(p)} {i} {ses.idx(c)}"
        ses.removed = [x for x in ses.removed if x is not c]
        ses.after(req, ok, op)
    elif op in ("remove", "blockremove"):
        ps = [p for p in parents if len(p)]
        if not ps:
            raise _Skip()
        p = pick_parent(ses, ps)
        c = rng.choice(list(p))
        ok = _call(lambda: p.remove(c))
        ses.removed.append(c)
        ses.after(f"remove {ses.idx(p)} {ses.idx(c)}", ok, "remove")
    elif op == "removeAll":
        p = pick_parent(ses, parents)
        ks = list(p)
        ok = _call(lambda: p.removeAll(), multi=True)
        ses.removed += [k for k in ks if not any(k is x for x in p)]
        if ok and len(p):
            left = list(p)
            ses.ctx.fail("removeAll-leaves-children", "removeAll takes every child out of the model (no parent, detached "
                         "location, not listed)", ses.case() | {"parent": ses.idx(p), "parent_type": type(p).__name__,
                                                                 "left_falsy": [not bool(c) for c in left]},
                         observed=[ses.idx(c) for c in left], expected=[])
        ses.after(f"removeAll {ses.idx(p)}", ok, op)
    elif op == "setChildren":
        p = pick_parent(ses, parents)
        anc = ses.ancestors_or_self(p)
        cands = [c for c in objs if (c.parent is None or c.parent is p) and not any(c is x for x in anc) and child_ok(p, c)]
        ks = rng.sample(cands, min(len(cands), rng.randint(0, 4)))
        old = list(p)
        ok = _call(lambda: p.setChildren(ks), multi=True)
        ses.removed = [x for x in ses.removed + old if not any(x is k for k in p)]
        if ok and [id(c) for c in p] != [id(k) for k in ks]:
            ses.ctx.fail("setChildren-children-differ-from-items", "after setChildren(items) the child list is items, in order; "
                         "every other former child is out of the model", ses.case() | {"parent": ses.idx(p)},
                         observed=[ses.idx(c) for c in p], expected=[ses.idx(k) for k in ks])
        ses.after(f"setChildren {ses.idx(p)} [{','.join(str(ses.idx(k)) for k in ks)}]", ok, op)
    elif op == "reorder":
        # the re-ordering idiom: order = x.getChildren(); order.sort(...) / reverse() / shuffle; x.setChildren(order)
        ps = [p for p in parents if len(p) >= 1]
        if not ps:
            raise _Skip()
        p = pick_parent(ses, ps)
        order = p.getChildren()
        how = rng.choice(["reverse", "sort", "shuffle", "as-is"])
        if how == "reverse":
            order.reverse()
        elif how == "sort":
            order.sort(key=lambda o: -ses.idx(o))
        elif how == "shuffle":
            rng.shuffle(order)
        want = list(order)
        ok = _call(lambda: p.setChildren(order), multi=True)
        ses.ctx.count(f"idiom: order = x.getChildren(); order.{how}; x.setChildren(order) on a {type(p).__name__}")
        if ok and ([id(c) for c in p] != [id(c) for c in want] or any(c.parent is not p for c in want)):
            ses.ctx.fail("reorder-idiom-loses-children", "order = x.getChildren(); <re-order it>; x.setChildren(order) leaves x with "
                         "exactly those children in that order, each with parent x", ses.case() | {"parent": ses.idx(p), "how": how,
                         "parent_type": type(p).__name__}, observed=[ses.idx(c) for c in p], expected=[ses.idx(c) for c in want])
        ses.after(f"setChildren {ses.idx(p)} [{','.join(str(ses.idx(k)) for k in want)}]", ok, "setChildren")
    elif op == "drain":
        # for c in x.getChildren(): x.remove(c)
        ps = [p for p in parents if len(p) >= 1]
        if not ps:
            raise _Skip()
        p = pick_parent(ses, ps)
        was = list(p)

        def loop():
            for c in p.getChildren():
                p.remove(c)
        ok = _call(loop, multi=True)
        ses.ctx.count(f"idiom: for c in x.getChildren(): x.remove(c) on a {type(p).__name__}")
        ses.removed += [k for k in was if not any(k is x for x in p)]
        if ok and len(p):
            ses.ctx.fail("remove-while-iterating-query-result-skips-children", "for c in x.getChildren(): x.remove(c) removes every "
                         "child (the result is the caller's list, not the live child list)",
                         ses.case() | {"parent": ses.idx(p), "parent_type": type(p).__name__},
                         observed=[ses.idx(c) for c in p], expected=[])
        ses.after(f"removeAll {ses.idx(p)}", ok, "removeAll")
    elif op == "coredrain":
        if len(core) == 0 or rng.random() < 0.6:
            raise _Skip()
        was = list(core)
        for a in core.getChildren():
            ok = _call(lambda: core.removeAssembly(a, discharge=False))
            ses.removed.append(a)
            ses.after(f"discharge {ses.idx(core)} {ses.idx(a)} _", ok, "Core.removeAssembly")
        ses.ctx.count("idiom: for a in core.getChildren(): core.removeAssembly(a)")
        if len(core):
            ses.ctx.fail("remove-while-iterating-query-result-skips-children", "for a in core.getChildren(): core.removeAssembly(a) "
                         "removes every assembly", ses.case(), observed=[ses.idx(c) for c in core], expected=[])
    elif op == "retype":
        # a child's type name / flags change: typed queries on its parent must follow (no stale per-object cache)
        from armi.reactor.flags import Flags

        pool = [o for o in objs if _safe_type(o) is not None and id(o) not in ses.dead and o.parent is not None
                and K(o) in (K_COMPONENT, K_BLOCK, K_ASSEMBLY)]
        if ses.focus is not None and rng.random() < 0.6:
            pool = [o for o in pool if o.parent is ses.focus] or pool
        if not pool:
            raise _Skip()
        c = rng.choice(pool)
        how = rng.choice(["setType", "setType+flags", "flags"])
        t = rng.choice(TYPE_POOL)
        fl = Flags(rng.choice([int(Flags.FUEL), int(Flags.CLAD), int(Flags.DUCT), int(Flags.FUEL | Flags.INNER), int(Flags.CONTROL)]))
        if how == "setType":
            ok = _call(lambda: c.setType(t))
        elif how == "setType+flags":
            ok = _call(lambda: c.setType(t, fl))
        else:
            def setf():
                c.p.flags = fl
            ok = _call(setf)
        ses.ctx.count(f"meta-data edit: {how} on a {type(c).__name__}")
        if ok and how != "flags" and _safe_type(c) != t:
            ses.ctx.fail("setType-not-applied", "setType changes the type name", ses.case() | {"object": ses.idx(c)})
        ses.after(f"setmeta {ses.idx(c)} {int(c.p.flags) if c.p.flags else 0} {type_code(c)}", ok, "setType/flags")
    elif op == "clearcache":
        o = ses.focus if ses.focus is not None and rng.random() < 0.6 else rng.choice(objs)
        o.clearCache()
        ses.ctx.count("clearCache()")
        raise _Skip()
    elif op == "sort":
        p = core if shape == "core" and rng.random() < 0.5 else rng.choice(parents)
        r = ses.ranks(p)
        if r is None:
            raise _Skip()
        ok = _call(lambda: p.sort())
        ses.after(f"sort {ses.idx(p)} [{','.join(map(str, r))}]", ok, op)
    elif op == "group":
        from armi.reactor import composites

        if len(objs) > 150:
            raise _Skip()
        g = composites.Composite(f"group{len(objs)}")
        ses.create(g)
        blocks_ = [o for o in objs if K(o) == K_BLOCK]
        if blocks_ and rng.random() < 0.7:
            p = rng.choice(blocks_)
            i = rng.randint(0, len(p))
            ok = _call(lambda: p.insert(i, g))
            ses.after(f"insert {ses.idx(p)} {i} {ses.idx(g)}", ok, "insert")
    elif op == "moveto":
        # child.moveTo(holder.spatialGrid[i,j,k]); refused unless the grid's owner is the child's parent
        holders = [o for o in objs if o.spatialGrid is not None and
                   (K(o) in (K_BLOCK, K_ASSEMBLY) or (shape == "generic" and K(o) == K_COMPOSITE))]
        if not holders:
            raise _Skip()
        h = rng.choice(holders)
        if shape in ("generic", "block") and K(h) != K_ASSEMBLY:
            pool = list(h) if rng.random() < 0.85 and len(h) else [o for o in objs if K(o) in (K_COMPONENT, K_COMPOSITE)]
            if not pool:
                raise _Skip()
            c = rng.choice(pool)
            was_len = len(h.spatialGrid)
            loc = some_location(rng, h.spatialGrid)
            ok = _call(lambda: c.moveTo(loc))
            ses.ctx.count(f"moveTo a {type(loc).__name__} (locator cache {'empty' if was_len == 0 else 'non-empty'} before, "
                          f"{'empty' if len(h.spatialGrid) == 0 else 'non-empty'} after)")
            ses.after(f"moveto {ses.idx(c)} {ses.idx(h)}", ok, "moveTo")
            return
        pool = list(h) if rng.random() < 0.8 and len(h) else [o for o in objs if K(o) in (K_COMPONENT, K_BLOCK, K_COMPOSITE)]
        pool = [c for c in pool if K(c) not in (K_ASSEMBLY, K_CORE) and type(c).__name__ not in ("Reactor", "SpentFuelPool")]
        if not pool:
            raise _Skip()
        c = rng.choice(pool)
        loc = h.spatialGrid[(0, 0, rng.randint(0, 3)) if K(h) == K_ASSEMBLY else (rng.randint(-1, 1), rng.randint(-1, 1), 0)]
        ok = _call(lambda: c.moveTo(loc))
        ses.after(f"moveto {ses.idx(c)} {ses.idx(h)}", ok, "moveTo")
    elif op == "replace":
        do_replace(ses)
    elif op == "reest":
        p = rng.choice(parents)
        ok = _call(lambda: p.reestablishBlockOrder())
        ses.after(f"reest {ses.idx(p)}", ok, op)
    elif op == "copy":
        pool = [o for o in objs if len(naive_deep(o)) < 60]
        if len(objs) > 150:
            raise _Skip()
        ses.do_copy(rng.choice(pool))
    elif op == "copychild":
        # a fresh detached child to add later: copy of a block / component
        want = K_COMPONENT if shape == "block" else K_BLOCK
        pool = [o for o in objs if K(o) == want]
        if not pool or len(objs) > 150:
            raise _Skip()
        ses.do_copy(rng.choice(pool))
    elif op == "coreadd":
        grid = core.spatialGrid
        free = [(i, j) for i in range(-2, 3) for j in range(-2, 3)
                if grid[i, j, 0] not in core.childrenByLocator and grid.locatorInDomain(grid[i, j, 0], symmetryOverlap=True)]
        cands = [a for a in objs if K(a) == K_ASSEMBLY and a.parent is None and len(a) > 0]
        if not cands:
            srcs = [a for a in objs if K(a) == K_ASSEMBLY and len(a) > 0]
            if not srcs or len(objs) > 150:
                raise _Skip()
            src = rng.choice(srcs)
            cp = ses.do_copy(src)
            cp.makeUnique()
            cands = [cp]
        if not free:
            raise _Skip()
        a = rng.choice(cands)
        if any(x.getName() == a.getName() for x in core) or core.assembliesByName.get(a.getName(), a) is not a:
            # (the name index also holds tracked assemblies sitting in the pool; a clash makes Core.add raise after the
            # structural change -- C14's bookkeeping)
            a.makeUnique()
        i, j = rng.choice(free)
        ok = _call(lambda: core.add(a, grid[i, j, 0]))
        ses.removed = [x for x in ses.removed if x is not a]
        ses.after(f"add {ses.idx(core)} {ses.idx(a)}", ok, "Core.add")
    elif op == "discharge":
        # Core.removeAssembly(a, discharge=True) with assembly tracking on / off, pool registered or not
        if len(core) == 0:
            raise _Skip()
        a = rng.choice(list(core))
        r = core.parent
        sfp = r.excore.get("sfp")
        track = rng.random() < 0.75
        hide = False   # (tracking on with the pool unregistered leaves Core's name index stale: C14's bookkeeping, not a tree effect)
        old = core._trackAssems
        core._trackAssems = track
        if hide:
            del r.excore["sfp"]
        try:
            ok = _call(lambda: core.removeAssembly(a, discharge=True))
        finally:
            core._trackAssems = old
            if hide:
                r.excore["sfp"] = sfp
        dest = sfp if (track and not hide and sfp is not None) else None
        if dest is None:
            ses.removed.append(a)
        elif ok and (a.parent is not dest or not any(x is a for x in dest) or any(x is a for x in core)
                     or a.spatialLocator is None or a.spatialLocator.grid is not dest.spatialGrid):
            ses.ctx.fail("discharge-assembly-not-in-pool", "a discharged, tracked assembly is a child of the spent fuel pool "
                         "(and of nothing else), located on the pool's grid", ses.case() | {"assembly": ses.idx(a)},
                         observed={"parent": None if a.parent is None else ses.idx(a.parent), "in pool list": any(x is a for x in dest),
                                   "in core list": any(x is a for x in core)})
        ses.ctx.count(f"discharge ({'into the pool' if dest is not None else 'not tracked / no pool'})")
        ses.after(f"discharge {ses.idx(core)} {ses.idx(a)} {'_' if dest is None else ses.idx(dest)}", ok, "Core.removeAssembly(discharge)")
    elif op == "sfpadd":
        sfp = core.parent.excore.get("sfp")
        cands = [a for a in objs if K(a) == K_ASSEMBLY and a.parent is None and len(a) > 0]
        if sfp is None or not cands:
            raise _Skip()
        a = rng.choice(cands)
        ok = _call(lambda: sfp.add(a))
        ses.removed = [x for x in ses.removed if x is not a]
        ses.after(f"sfpadd {ses.idx(sfp)} {ses.idx(a)}", ok, "SpentFuelPool.add")
    elif op == "sfpremove":
        sfp = core.parent.excore.get("sfp")
        if sfp is None or len(sfp) == 0:
            raise _Skip()
        a = rng.choice(list(sfp))
        ok = _call(lambda: sfp.remove(a))
        ses.removed.append(a)
        ses.after(f"remove {ses.idx(sfp)} {ses.idx(a)}", ok, "remove")
    elif op == "coreremove":
        if len(core) == 0:
            raise _Skip()
        a = rng.choice(list(core))
        ok = _call(lambda: core.removeAssembly(a, discharge=False))
        ses.removed.append(a)
        ses.after(f"remove {ses.idx(core)} {ses.idx(a)}", ok, "Core.removeAssembly")
    else:
        raise _Skip()


# --------------------------------------------------------------------------- excluded points (F4)
def excluded_points(ctx, batch):
    """The points the theorems exclude by hypothesis, run on the real code; judged by the oracle alone.
    The model transcribes the code there too (its answer is recorded, not required)."""
    from armi.reactor import composites

    def trio(ses):
        for i in range(3):
            ses.create(composites.Composite(f"x{i}"))
        return ses.objs

    out = []
    # (a) add an already-parented object
    ses = Session(ctx, "excluded", 1, batch)
    A, B, x = trio(ses)
    A.add(x); ses.after("add 0 2", True, "add")
    B.add(x); ses.nops += 1; ses.log.append("add 1 2"); ses.emit("add 1 2", "ok " + ses.state())
    if any(c is x for c in A) and x.parent is B:
        ctx.fail("add-already-parented-object", "every object has at most one lister and its parent is that lister",
                 {"ops": ["A.add(x)", "B.add(x)"]}, observed={"A lists x": True, "x.parent": "B"},
                 expected="x detached from A, or the second add refused")
    # (b) remove a non-child
    ses = Session(ctx, "excluded", 2, batch)
    A, B, y = trio(ses)
    A.add(y); ses.after("add 0 2", True, "add")
    try:
        B.remove(y); raised = False
    except ValueError:
        raised = True
    ses.nops += 1; ses.log.append("remove 1 2"); ses.emit("remove 1 2", ("reject " if raised else "ok ") + ses.state())
    if any(c is y for c in A) and y.parent is not A:
        ctx.fail("remove-non-child-clears-parent", "a listed child's parent is the lister (a refused remove changes nothing)",
                 {"ops": ["A.add(y)", "B.remove(y)"]}, observed={"raised": raised, "A lists y": True, "y.parent": None},
                 expected="y.parent is A")
    # (c) append / extend
    ses = Session(ctx, "excluded", 3, batch)
    A, B, z = trio(ses)
    A.append(z); ses.nops += 1; ses.emit("append 0 2", "ok " + ses.state())
    if any(c is z for c in A) and z.parent is not A:
        ctx.fail("append-skips-parent", "a listed child's parent is the lister", {"ops": ["A.append(z)"]},
                 observed={"z.parent": None}, expected="z.parent is A")
    ses = Session(ctx, "excluded", 4, batch)
    A, B, z = trio(ses)
    A.extend([B, z]); ses.nops += 1; ses.emit("extend 0 [1,2]", "ok " + ses.state())
    if any(c is z for c in A) and z.parent is not A:
        ctx.fail("extend-skips-parent", "a listed child's parent is the lister", {"ops": ["A.extend([B, z])"]},
                 observed={"z.parent": None}, expected="z.parent is A")
    # (d) a cycle
    ses = Session(ctx, "excluded", 5, batch)
    A, B, _ = trio(ses)
    A.add(B); ses.after("add 0 1", True, "add")
    try:
        B.add(A); ok = True
    except Exception:
        ok = False
    ses.nops += 1; ses.emit("add 1 0", ("ok " if ok else "reject ") + ses.state())
    if ok and A.parent is B and B.parent is A:
        ctx.fail("add-creates-cycle", "the parent relation has no cycle", {"ops": ["A.add(B)", "B.add(A)"]},
                 observed="A.parent is B and B.parent is A", expected="the second add refused")
    # (e) shared cells of a multi-index location (MultiIndexLocation.detachedCopy keeps the grid's own cell objects)
    from armi.reactor import grids

    top, X, Y, c1, c2 = (composites.Composite(nm) for nm in ("top", "X", "Y", "c1", "c2"))
    for o, pitch in ((X, 1.0), (Y, 2.0)):
        o.spatialGrid = grids.HexGrid.fromPitch(pitch, numRings=0)
        o.spatialGrid.armiObject = o
        top.add(o)
    X.add(c1); X.add(c2)
    c1.moveTo(X.spatialGrid[[(0, 0, 0), (1, 0, 0)]])
    c2.moveTo(X.spatialGrid[[(0, 0, 0)]])
    X.remove(c1)
    Y.add(c1)
    for how in ("deepcopy", "pickle"):
        t2 = copy.deepcopy(top) if how == "deepcopy" else pickle.loads(pickle.dumps(top))
        X2 = t2[0]
        cells = list(X2[0].spatialLocator)
        if X2[0].spatialLocator.grid is X2.spatialGrid and any(q.grid is not X2.spatialGrid for q in cells):
            ctx.fail("copy-multiindex-cells-on-other-grid", "locators of a copy live in the copy's grid (every cell of a "
                     "multi-index location too)",
                     {"ops": ["c1.moveTo(X.grid[[(0,0,0),(1,0,0)]])", "c2.moveTo(X.grid[[(0,0,0)]])", "X.remove(c1)", "Y.add(c1)",
                              f"{how}(top)"], "how": how},
                     observed="the cell of c2' (child of X') sits on the grid of Y'", expected="on the grid of X'")
    ctx.count("excluded points run", 6)


# --------------------------------------------------------------------------- entry points
SHAPES = ["generic", "generic", "block", "assembly", "core"]


def plan(ctx):
    nseq = ctx.pick(300, 1100)
    out = []
    for k in range(nseq):
        shape = SHAPES[k % len(SHAPES)]
        maxops = ctx.pick(60, 400) if shape == "generic" else ctx.pick(30, 120)
        out.append((shape, ctx.rng.randrange(1 << 40), ctx.rng.randint(1, maxops)))
    return out


def run(ctx):
    batch = {"req": [], "impl": [], "cases": []}
    excl = {"req": [], "impl": [], "cases": []}
    try:
        excluded_points(ctx, excl)
    except common.Infra:
        raise
    except Exception as e:  # noqa: BLE001
        import traceback

        if not any("/armi/" in f.filename for f in traceback.extract_tb(e.__traceback__)):
            raise
        ctx.fail("directed-point-raises", "the directed edit / copy points complete (the real code raised)", {"directed": "excluded points"},
                 observed=repr(e)[:200])
    todo = plan(ctx)
    # generic composites first: they need no reactor fixture
    for shape, seq_seed, nops in todo:
        if shape == "generic":
            run_sequence(ctx, shape, seq_seed, batch, nops, nq=4)
    try:
        fixture()
        have_fixture = True
    except Exception as e:  # the real code cannot even build/copy the smallest reactor any more
        have_fixture = False
        ctx.disagree("the smallest test reactor can no longer be built (blueprints construction deep-copies assemblies)",
                     {"shape": "generic", "seq_seed": 0}, "loads", repr(e)[:300])
    if have_fixture:
        try:
            directed_reactor_copy(ctx)
        except Exception as e:  # noqa: BLE001
            ctx.fail("copy-raises", "a deep copy / pickle round trip of the reactor completes", {"directed": "copy of the smallest test reactor"},
                     observed=repr(e)[:200])
        for shape, seq_seed, nops in todo:
            if shape != "generic":
                run_sequence(ctx, shape, seq_seed, batch, nops, nq=4)
    model = lean_run("Tree", batch["req"])
    rows = [(c, m, i) for c, m, i in zip(batch["cases"], model, batch["impl"]) if i is not None]
    ctx.compare("Model/Tree.lean vs real composite objects", [r[0] for r in rows], [r[1] for r in rows], [r[2] for r in rows])
    ctx.evaluations += len(rows)
    # excluded points: the model's answer is recorded only
    em = lean_run("Tree", excl["req"])
    agree = sum(1 for m, i in zip(em, excl["impl"]) if m == i)
    ctx.extra["excluded_points_model_agreement"] = f"{agree}/{len(em)} lines"
    ctx.samples.append({"request": batch["req"][-1], "model": model[-1], "impl": batch["impl"][-1]})
    ctx.rule = ("seeded valid-use edit sequences (add/insert with negative and out-of-range indices/remove/removeAll/"
                "setChildren/sort/reestablishBlockOrder/moveTo/Core.add/removeAssembly with and without discharge into the spent "
                "fuel pool/SpentFuelPool.add/deepcopy/pickle) on generic composite trees (with falsy nodes and grid owners in "
                "every locator-cache state), a HexBlock of real components, a HexAssembly of HexBlocks and the smallest test "
                "reactor; evaluations = "
                "compared protocol lines (one canonical whole-tree state per operation + 4 traversal queries after each); "
                "distinct = distinct (shape, sequence seed) with at least one executed operation")


def search(ctx, disagreements, broken):
    """Evaluate the oracle alone on fresh sequences of the disagreeing shapes (more queries per op)."""
    shapes = sorted({d.case.get("shape") for d in disagreements if isinstance(d.case, dict) and d.case.get("shape") in SHAPES})
    sub = common.Ctx(ctx.prop, ctx.tier, ctx.seed)
    dummy = {"req": [], "impl": [], "cases": []}
    for d in disagreements[:20]:
        if isinstance(d.case, dict) and d.case.get("shape") in SHAPES:
            run_sequence(sub, d.case["shape"], d.case["seq_seed"], dummy, 400, nq=8)
    for shape in shapes:
        for k in range(40):
            run_sequence(sub, shape, sub.rng.randrange(1 << 40), dummy, 40, nq=10)
    return list(sub.failures)


def replay(ctx, payload):
    case, key = payload.get("case", {}), payload["key"]
    sub = common.Ctx(ctx.prop, "quick", ctx.seed)
    dummy = {"req": [], "impl": [], "cases": []}
    if case.get("shape") in SHAPES:
        fixture()
        run_sequence(sub, case["shape"], case["seq_seed"], dummy, 400, nq=4)
    elif case.get("directed"):
        directed_reactor_copy(sub)
    else:
        excluded_points(sub, dummy)
    hit = [f for f in sub.failures if f.key == key]
    return hit[0].to_json() if hit else None
