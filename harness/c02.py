"""C02 - mass, volume and number densities are accounted consistently at every level.

Theorems: lean/ArmiVerif/Props/C02.lean (one generic composite level, instantiated for block / assembly / core; trees
of arbitrary depth by structural induction; the adjustMassFrac dict).
Tie: the reference test reactor (third core: centre assembly symmetry factor 3, edge assemblies 2) and generated
blocks/assemblies built from the real shape classes and library materials are mirrored into Model/Compo.lean
(volumes, symmetry factors, number densities, atomic weights read from the real objects, sent as exact
rationals); seeded edit sequences (set/update/replace/scale number densities, add/remove/set mass, set mass
fractions; incl. exact zeros, trace densities, voiding and refilling) are applied to both sides and volume,
density, total mass, per-nuclide density and mass are compared after every edit (relative 1e-9).
Oracle: additivity (mass, volume, atoms) at component/block/assembly/core level, mass = density x volume,
read-back and frame of every setter, mass-fraction clauses, nuclide specifier variants (nuclide, element, list)
- evaluated in plain Python on the real objects.
"""
import copy
import math
import random
from fractions import Fraction

from harness import common
from harness.common import Failure, lean_run, rat, ratlist, intlist

PROP_MODULES = ["ArmiVerif.Props.C02"]
PARTIAL = ("floating-point rounding is outside the theorems (comparison tolerance 1e-9 relative); volumes of "
           "components are inputs of the model (shape areas are C03's; the derived shape's remainder is modelled); "
           "lumped-fission-product expansion and composition-dependent thermal expansion inside Component.updateNumberDensities are not modelled (no library "
           "material has the latter); at assembly level mass = density x volume and the mass read-backs carry the "
           "hypothesis of equal block areas (finding assembly-volume-first-block-area); a component with no nuclide entry "
           "at all reports its material's density (Comp.density, finding "
           "component-density-empty-composition-reports-material-density); component-level setNumberDensities(wipe) and "
           "changeNDensByFactor are modelled and compared but carry no theorem (they are the definition)")
ASSUMPTIONS = [
    "component volumes, symmetry factors, block areas/heights, atomic weights and units constants are read from the "
    "real objects and are parameters of the model",
    "Component.updateNumberDensities: the material's expansion does not depend on composition (true of every "
    "class in armi.materials), so the volume-preserving renormalisation branch is not taken",
    "dict iteration order and set order are not compared (values are compared per nuclide)",
    "the element table (element symbol -> isotopes, elements.bySymbol without the natural pseudo-nuclide) is a parameter "
    "of the selection model, read from the real tables for every symbol used; a selection naming something that is no "
    "nuclide at all is an invalid request (calculateMassDensity raises KeyError) and outside the model; element-level "
    "setMass / setMassFrac are not supported by the code unless the elemental nuclide itself is present (ValueError, "
    "modelled as reject)",
    "adjustMassFrac: nucDir.getNuclideNames(nuclide / element) is a parameter (the name lists are read from the real "
    "directory); requests with nothing left to absorb the change (every nuclide adjusted or held) are only made with the "
    "unchanged value; the adjusted and the held names are disjoint (hypotheses of adjustDict_total, produced by the generator)",
    "negative-volume children: no theorem assumes a child volume positive (only the sums divided by are non-zero, which the "
    "harness checks on the real blocks); the zero-volume fallback of getVolumeFractions to areas is outside the model",
    "run_core_negative changes the shared reference reactor and therefore runs last; in the quick tier the core level is judged by "
    "the oracle only (the whole core is mirrored into the model in the thorough tier)",
    "getMasses() is judged by the oracle only (sum and per nuclide against getMass, element names that getMass expands excluded)",
    "arbitrary-depth trees: generic composites have symmetry factor 1 and volume = sum of the children; blocks divide by "
    "their symmetry factor (Tree.SymOK / Tree.WF, evaluated on the real nested objects)",
]
RTOL = 1e-9


# --------------------------------------------------------------------------- numerics
def rel_close(f, q, scale=0.0, tol=RTOL):
    """|float - exact| <= tol * max(|exact|, scale) (exact zeros must be exact up to 1e-300)."""
    q = Fraction(q)
    f = float(f)
    if math.isnan(f) or math.isinf(f):
        return False
    return abs(Fraction(f) - q) <= Fraction(tol) * max(abs(q), Fraction(scale)) + Fraction(1, 10 ** 300)


def fclose(a, b, scale=0.0, tol=RTOL):
    a, b = float(a), float(b)
    return abs(a - b) <= tol * max(abs(a), abs(b), scale) + 1e-300


# density() of a whole core costs seconds (one homogenisation per nuclide): memoise per object and edit epoch
EPOCH = [0]
_DENS = {}


def dens(obj):
    """obj.density(), memoised per edit epoch"""
    key = (id(obj), EPOCH[0])
    if key not in _DENS:
        if len(_DENS) > 20000:
            _DENS.clear()
        _DENS[key] = float(obj.density())
    return _DENS[key]


def ambiguous(obj, extra=()):
    """nuclide names (present here, or in `extra`) that are also element symbols with isotopes present here ('O'
    next to 'O16', or 'MN' asked of a block that only holds 'MN55'): getMass('O') then means the element (it
    expands per component), not the single nuclide - such names are kept out of the single-nuclide mass
    comparisons and mass edits."""
    from armi.nucDirectory import elements

    here = set(obj.getNuclides())
    out = set()
    for n in here | set(extra):
        el = elements.bySymbol.get(n)
        if el is not None and any(nb.name in here and nb.name != n for nb in el.nuclides):
            out.add(n)
    return out


def leaves(obj):
    if level_of(obj) == "component":
        return [obj]
    out = []
    for c in obj:
        out += leaves(c)
    return out


def comp_empty(obj):
    """component with NO nuclide entry at all (e.g. after setNumberDensities({})): Component.density() then reports
    the material's density (Model: Comp.density, the material density being a parameter)."""
    return level_of(obj) == "component" and not obj.p.numberDensities


def material_density(c):
    """what Component.density() falls back to, computed the way the code does"""
    f = type(c.material).density
    return float(getattr(f, "__wrapped__", f)(c.material, Tc=c.temperatureInC))


# --------------------------------------------------------------------------- mirror: real tree -> model session
class Mirror:
    """Builds the request lines that load a list of real assemblies into the driver and addresses objects."""

    def __init__(self):
        from armi.nucDirectory import nuclideBases
        from armi.utils import units

        self.nb = nuclideBases
        self.K = units.MOLES_PER_CC_TO_ATOMS_PER_BARN_CM
        self.barn = units.CM2_PER_BARN
        self.ids = {}
        self.names = []
        self.phys_sent = None  # number of nuclides covered by the last phys line
        self.elem = {}         # element symbol -> isotope names (elements.bySymbol, natural pseudo-nuclide excluded)
        self.elem_sent = None
        self.lines = []      # request lines
        self.checks = []     # parallel: None | callable(model_line) -> None   (records disagreements itself)

    def nid(self, name):
        if name not in self.ids:
            self.ids[name] = len(self.names)
            self.names.append(name)
        return self.ids[name]

    def aw(self, name):
        try:
            return self.nb.byName[name].weight
        except KeyError:
            return 0.0      # a name that is no nuclide can never be present in a component

    def flatten(self, spec):
        if isinstance(spec, str):
            return [spec]
        out = []
        for x in spec:
            out += self.flatten(x)
        return out

    def spec_ids(self, spec):
        """ids of a (nested) specifier; registers the element table rows it may need"""
        from armi.nucDirectory import elements

        names = self.flatten(spec)
        for n in names:
            if n in elements.bySymbol and n not in self.elem:
                self.elem[n] = [nb.name for nb in elements.bySymbol[n].nuclides
                                if not isinstance(nb, self.nb.NaturalNuclideBase)]
                for iso in self.elem[n]:
                    self.nid(iso)
        return [self.nid(n) for n in names]

    def elements_line(self):
        syms = list(self.elem)
        return ("elements " + intlist([self.nid(x) for x in syms]) + " [" +
                ",".join(intlist([self.nid(i) for i in self.elem[x]]) for x in syms) + "]")

    def emit(self, line, check=None):
        if self.phys_sent is not None and self.phys_sent != len(self.names) and not line.startswith("phys"):
            # a nuclide was numbered since the constants were sent: send its atomic weight first
            self.lines.append(self.phys_line())
            self.checks.append(None)
            self.phys_sent = len(self.names)
        if self.elem and self.elem_sent != len(self.elem) and not line.startswith(("phys", "elements", "new")):
            self.lines.append(self.elements_line())
            self.checks.append(None)
            self.elem_sent = len(self.elem)
        self.lines.append(line)
        self.checks.append(check)

    def phys_line(self):
        names = list(self.names)
        return f"phys {rat(self.K)} {rat(self.barn)} {intlist(range(len(names)))} {ratlist([self.aw(n) for n in names])}"

    def load(self, assemblies, extra_nucs=()):
        """(re)load the model state from the real objects; returns {id(obj): path}."""
        paths = {}
        body = ["new"]
        for i, a in enumerate(assemblies):
            blocks = list(a)
            body.append(f"assem {rat(a.getSymmetryFactor())} {ratlist([b.getArea() for b in blocks])} "
                        f"{ratlist([b.getHeight() for b in blocks])}")
            paths[id(a)] = [i]
            for j, b in enumerate(blocks):
                body.append(f"block {rat(b.getSymmetryFactor())}")
                paths[id(b)] = [i, j]
                for k, c in enumerate(b):
                    nd = c.p.numberDensities
                    psym = c.parent.getSymmetryFactor() if c.parent else 1.0
                    body.append(f"comp {rat(c.getVolume())} {rat(psym)} {intlist([self.nid(n) for n in nd])} "
                                f"{ratlist(list(nd.values()))}")
                    paths[id(c)] = [i, j, k]
        for n in extra_nucs:
            self.nid(n)
        # constants after the nuclide numbering is known
        self.emit(body[0])
        self.emit(self.phys_line())
        self.phys_sent = len(self.names)
        for line in body[1:]:
            self.emit(line)
        return paths


def pth(p):
    return "[" + ",".join(str(x) for x in p) + "]"


def snap_real(obj, nucs):
    """what `snap` returns, from the real object: vol, density, total mass, nd per nuclide, mass per nuclide."""
    nds = [float(obj.getNumberDensity(n)) for n in nucs]
    ms = [float(obj.getMass(n)) for n in nucs]
    return [float(obj.getVolume()), None if comp_empty(obj) else dens(obj), float(obj.getMass())] + nds + ms


def add_comp_density(ctx, mir, what, case, c):
    """Component.density() incl. the material fallback on the empty composition vs Model Comp.density"""
    from armi.materials import void

    nd = c.p.numberDensities
    val = dens(c)
    try:
        md = material_density(c)
    except Exception:
        md = 0.0
        if not nd:
            return
    isvoid = isinstance(c.material, void.Void)

    def check(line):
        if line in ("reject", "bad-op") or not rel_close(val, common.unrat(line)):
            ctx.disagree(what, case, line, val)

    mir.emit(f"compdensity {rat(md)} {'T' if isvoid else 'F'} {intlist([mir.nid(n) for n in nd])} {ratlist(list(nd.values()))}",
             check)


def add_snap(ctx, mir, what, case, obj, path, nucs):
    vals = snap_real(obj, nucs)
    k = len(nucs)

    def check(line, vals=vals, case=case):
        try:
            qs = [common.unrat(x) for x in common.parse_list(line)]
        except Exception:
            ctx.disagree(what, case, line, vals)
            return
        if len(qs) != len(vals):
            ctx.disagree(what, case, line, vals)
            return
        vol, rho = abs(qs[0]), abs(qs[1])
        ndscale = max([abs(q) for q in qs[3:3 + k]] + [0])
        for idx, (v, q) in enumerate(zip(vals, qs)):
            if v is None:
                continue
            # masses: scale by the total mass so that an exact zero is compared against rounding of a sum
            scale = 0.0
            if idx >= 3 + k or idx == 2:
                scale = float(abs(qs[2])) * 1e-6
            if not rel_close(v, q, scale):
                label = (["volume", "density", "total mass"] + [f"nd {n}" for n in nucs] + [f"mass {n}" for n in nucs])[idx]
                ctx.disagree(what, dict(case, quantity=label), float(q), v)
                return

    mir.emit(f"snap {pth(path)} {intlist([mir.nid(n) for n in nucs])}", check)


def selection_specs(rng, obj):
    """nuclide selections for this object: element symbols (present through isotopes, present as natural element,
    absent), mixed lists with duplicates, nested lists, a valid but absent nuclide (an unknown name is an invalid
    request: calculateMassDensity raises KeyError)"""
    from armi.nucDirectory import elements, nuclideBases

    here = sorted(obj.getNuclides())
    els = []
    for n in here:
        nb = nuclideBases.byName[n]
        el = getattr(nb, "element", None)
        if el is not None and el.symbol not in els:
            els.append(el.symbol)
    specs = []
    for e in rng.sample(els, min(3, len(els))):
        specs.append(e)
    for e in ("U", "ZR", "FE"):
        if e not in specs:
            specs.append(e)
    if here:
        a, b = rng.choice(here), rng.choice(here)
        e = rng.choice(els) if els else "FE"
        specs.append([a, e, b, a])
        specs.append([[e], a, [b, [e]]])
        specs.append([a, "AM241" if "AM241" not in here else "CM245"])   # a valid nuclide that is absent
    # the empty selection selects NOTHING (None selects everything); lists that resolve to nothing
    specs.append([])
    specs.append([[], []])
    gone = [e for e in ("XE", "PU", "CM", "KR") if not any(
        nuclideBases.byName[n].element.symbol == e for n in here if getattr(nuclideBases.byName[n], "element", None))]
    if gone:
        specs.append(rng.choice(gone))                # element symbol, none of its isotopes present
        specs.append([gone[0], []])
    return specs


def complement_and_getters(ctx, mir, what, case, obj, path):
    """a selection and its complement sum to the total; getHMMass / getFPMass are the masses of exactly the heavy-metal /
    lumped-fission-product nuclides present (0 when there are none)"""
    from armi.nucDirectory import nucDir

    rng = ctx.rng
    here = sorted(obj.getNuclides())
    tot = float(obj.getMass())
    lvl = level_of(obj)
    if here and not ambiguous(obj):
        sel = rng.sample(here, rng.choice([0, len(here), rng.randint(0, len(here))]) if rng.random() < 0.3
                         else rng.randint(0, len(here)))
        rest = [n for n in here if n not in sel]
        m1, m2 = float(obj.getMass(sel)), float(obj.getMass(rest))
        if not fclose(m1 + m2, tot, scale=abs(tot) * 1e-9):
            ctx.fail(f"selection-complement-{lvl}", "getMass(selection) + getMass(complement) == getMass()",
                     dict(case, selection=sel[:6], n_selected=len(sel), n_rest=len(rest)), observed=m1 + m2, expected=tot)
        for part in (sel, rest):
            add_selection(ctx, mir, what + " (complement pair)", case, obj, path, part, mf_too=lvl in ("component", "block"))
        ctx.count(f"selection complement pair @{lvl}" + (" (one side empty)" if not sel or not rest else ""))
    hm = [n for n in obj.getNuclides() if nucDir.isHeavyMetal(n)]
    fp = [n for n in obj.getNuclides() if "LFP" in n]
    for name, getter, lst in (("getHMMass", obj.getHMMass, hm), ("getFPMass", obj.getFPMass, fp)):
        val = float(getter())
        if lvl == "core" and not ctx.thorough and lst:
            want = val      # quick: the whole-core leaf sum is left to the thorough tier (correspondence still runs)
        else:
            want = sum(float(c.getMass(n)) for c in leaves(obj) for n in c.getNuclides() if n in lst) if lst else 0.0
        if not fclose(val, want, scale=abs(tot) * 1e-9):
            ctx.fail(f"{name}-{lvl}", f"{name}() == mass of the {'heavy-metal' if name == 'getHMMass' else 'fission-product'} "
                     "nuclides present (0 when there are none)", dict(case, nuclides=sorted(lst)[:6]), observed=val, expected=want)
        ids = mir.spec_ids(sorted(lst))

        def check(line, val=val, name=name):
            if line in ("reject", "bad-op") or not rel_close(val, common.unrat(line), scale=abs(tot) * 1e-9):
                ctx.disagree(what + f" ({name})", dict(case, nuclides=sorted(lst)[:6]), line, val)

        mir.emit(f"masssel {pth(path)} {intlist(ids)}", check)
        ctx.count(f"{name} @{lvl}: " + ("none present" if not lst else "present"))


def add_selection(ctx, mir, what, case, obj, path, spec, mf_too=True):
    """getMass(spec) (and getMassFrac for a single name) vs Model massSel / massFracSel"""
    ids = mir.spec_ids(spec)
    val = float(obj.getMass(spec))
    tot = abs(float(obj.getMass()))
    scase = dict(case, selection=spec)

    def check(line, val=val):
        if line in ("reject", "bad-op") or not rel_close(val, common.unrat(line), scale=tot * 1e-9):
            ctx.disagree(what, scase, line if line in ("reject", "bad-op") else float(common.unrat(line)), val)

    mir.emit(f"masssel {pth(path)} {intlist(ids)}", check)
    lvl_ = level_of(obj)
    if not ctx.thorough and (lvl_ == "core" and not isinstance(spec, str) or lvl_ == "assembly" and ctx.rng.random() < 0.5):
        mf_too = False      # a composite-level mass-fraction vector costs one homogenisation per nuclide on both sides
    if mf_too and not comp_empty(obj):
        try:
            mf = float(obj.getMassFrac(spec))
        except Exception:
            return

        def check2(line, mf=mf):
            if line in ("reject", "bad-op") or not rel_close(mf, common.unrat(line), scale=1e-9):
                ctx.disagree(what + " (getMassFrac)", scase, line, mf)

        mir.emit(f"massfracsel {pth(path)} {intlist(ids)}", check2)
        # oracle: the mass fraction of a selection is the selection's share of the total mass
        if tot > 0 and not fclose(mf, val / float(obj.getMass()), scale=1e-9) and level_of(obj) == "component":
            ctx.fail(f"selection-massfrac-{level_of(obj)}", "getMassFrac(selection) == getMass(selection) / getMass()", scase,
                     observed=mf, expected=val / float(obj.getMass()))
    # oracle, independent of the model: a list is the sum over its distinct resolved members, component by component
    if level_of(obj) == "core" and not ctx.thorough and isinstance(spec, list):
        return
    want = 0.0
    from armi.nucDirectory import elements, nuclideBases

    for c in leaves(obj):
        chere = set(c.getNuclides())
        res = set()
        for n in mir.flatten(spec):
            if n in chere:
                res.add(n)
            elif n in elements.bySymbol:
                res.update(nb.name for nb in elements.bySymbol[n].nuclides
                           if not isinstance(nb, nuclideBases.NaturalNuclideBase))
        want += sum(float(c.getMass(n)) for n in res if n in chere)
    if not fclose(val, want, scale=tot * 1e-9):
        ctx.fail(f"selection-mass-{level_of(obj)}", "getMass(selection) == sum over components of the masses of the distinct "
                 "nuclides the selection resolves to there", scase, observed=val, expected=want)


def add_volfracs(ctx, mir, what, case, obj, path):
    """getVolumeFractions() of a composite vs Node.volFrac; oracle: the fractions sum to one."""
    vals = [float(vf) for _c, vf in obj.getVolumeFractions()]
    if vals and abs(sum(vals) - 1.0) > 1e-9:
        ctx.fail(f"volume-fractions-sum-{level_of(obj)}", "volume fractions of the children sum to one", case,
                 observed=sum(vals), expected=1.0)

    def check(line, vals=vals, case=case):
        try:
            qs = [common.unrat(x) for x in common.parse_list(line)]
        except Exception:
            ctx.disagree(what, case, line, vals)
            return
        if len(qs) != len(vals) or any(not rel_close(v, q) for v, q in zip(vals, qs)):
            ctx.disagree(what, case, [float(q) for q in qs], vals)

    mir.emit(f"volfracs {pth(path)}", check)


# --------------------------------------------------------------------------- oracle on the real objects
def level_of(obj):
    from armi.reactor import assemblies, blocks, components, cores

    if isinstance(obj, components.Component):
        return "component"
    if isinstance(obj, blocks.Block):
        return "block"
    if isinstance(obj, assemblies.Assembly):
        return "assembly"
    return "core"


def additivity(obj, fail, nucs, f5_ok=True):
    """mass / volume / atoms additivity and mass = density x volume at this object (one level down)."""
    lvl = level_of(obj)
    if lvl == "component":
        # component: mass == density x volume / parent symmetry factor, total == sum over nuclides
        sym = obj.parent.getSymmetryFactor() if obj.parent else 1.0
        tot = float(obj.getMass())
        parts = sum(float(obj.getMass(n)) for n in obj.getNuclides())
        if not fclose(tot, parts, scale=abs(tot) * 1e-3):
            fail(f"total-mass-is-sum-of-nuclides-{lvl}", "getMass() == sum of getMass(n) over the nuclides present", tot, parts)
        d = dens(obj)
        if not fclose(tot, d * float(obj.getVolume()) / sym):
            key = f"mass-density-volume-{lvl}"
            if comp_empty(obj):
                key = "component-density-empty-composition-reports-material-density"
            fail(key, "component mass == density x volume / symmetry factor", tot, d * float(obj.getVolume()) / sym)
        return
    kids = list(obj)
    sym = float(obj.getSymmetryFactor()) if lvl == "block" else 1.0
    vol = float(obj.getVolume())
    kvol = sum(float(c.getVolume()) for c in kids) / sym
    if not fclose(vol, kvol):
        key = "assembly-volume-first-block-area" if lvl == "assembly" else f"volume-additive-{lvl}"
        fail(key, "volume == sum of the children's volumes (/ symmetry factor for a block)", vol, kvol)
    tot = float(obj.getMass())
    ktot = sum(float(c.getMass()) for c in kids)
    if not fclose(tot, ktot):
        fail(f"mass-additive-{lvl}", "mass == sum of the children's masses", tot, ktot)
    if not ambiguous(obj):
        parts = sum(float(obj.getMass(n)) for n in obj.getNuclides())
        if not fclose(tot, parts, scale=abs(tot) * 1e-9):
            fail(f"total-mass-is-sum-of-nuclides-{lvl}", "getMass() == sum of getMass(n) over the nuclides present", tot, parts)
    lsum = sum(float(c.getMass(n)) for c in leaves(obj) for n in c.getNuclides())
    if not fclose(tot, lsum, scale=abs(tot) * 1e-9):
        fail(f"total-mass-is-sum-of-component-nuclide-masses-{lvl}",
             "getMass() == sum over components and their nuclides of getMass(n)", tot, lsum)
    volume_ok = fclose(vol, kvol)
    if volume_ok:
        rhov = dens(obj) * vol
        if not fclose(tot, rhov, tol=1e-8):
            fail(f"mass-density-volume-{lvl}", "mass == density x volume", tot, rhov)
    for n in nucs:
        m = float(obj.getMass(n))
        km = sum(float(c.getMass(n)) for c in kids)
        if not fclose(m, km, scale=abs(tot) * 1e-12):
            fail(f"mass-additive-{lvl}", f"mass of {n} == sum of the children's", m, km)
        nv = float(obj.getNumberDensity(n)) * vol
        knv = sum(float(c.getNumberDensity(n)) * float(c.getVolume()) for c in kids) / sym
        if volume_ok and not fclose(nv, knv, tol=1e-8):
            fail(f"atoms-additive-{lvl}", f"N x V of {n} == sum over the children of N x V (/ symmetry factor)", nv, knv)
        at = float(obj.getNumberOfAtoms(n))
        if not fclose(at * 1e-24, nv, tol=1e-8):
            fail(f"number-of-atoms-{lvl}", "getNumberOfAtoms == N x V / 1e-24", at, nv / 1e-24)
    rho = dens(obj)
    if rho > 0:
        mf = obj.getMassFracs()
        s = sum(mf.values())
        if not fclose(s, 1.0):
            fail(f"mass-fractions-sum-{lvl}", "mass fractions sum to one", s, 1.0)


def specifier_variants(obj, fail):
    """element symbol and list specifiers against an independent expansion via elements.bySymbol."""
    from armi.nucDirectory import elements, nuclideBases

    here = sorted(obj.getNuclides())
    if not here:
        return
    lvl = level_of(obj)
    by_el = {}
    for n in here:
        nb = nuclideBases.byName[n]
        if hasattr(nb, "element") and nb.element is not None and not isinstance(nb, nuclideBases.NaturalNuclideBase):
            by_el.setdefault(nb.element.symbol, []).append(n)
    for sym, ns in list(by_el.items())[:3]:
        if sym in here:
            continue
        want = sum(float(obj.getMass(n)) for n in ns)
        got = float(obj.getMass(sym))
        if not fclose(got, want, scale=abs(want) * 1e-6):
            fail(f"element-specifier-{lvl}", f"getMass('{sym}') == sum over its isotopes present", got, want)
        got2 = float(obj.getMass([sym]))
        if not fclose(got2, want, scale=abs(want) * 1e-6):
            fail(f"list-specifier-{lvl}", f"getMass(['{sym}']) == sum over its isotopes present", got2, want)
    amb = ambiguous(obj)
    pair = [n for n in here if n not in amb][:2]
    want = sum(float(obj.getMass(n)) for n in pair)
    got = float(obj.getMass(list(pair)))
    if not fclose(got, want, scale=abs(want) * 1e-6):
        fail(f"list-specifier-{lvl}", "getMass([n1, n2]) == getMass(n1) + getMass(n2)", got, want)


# --------------------------------------------------------------------------- edits
def gen_edit(rng, obj, allow_absent=True):
    """one random composition edit for this object: (op, args) with exact-zero / trace / identity values mixed in."""
    lvl = level_of(obj)
    nucs = sorted(obj.getNuclides())
    if not nucs:
        return ("setnds", {"d": {"FE56": 0.0625, "NA23": 0.015625}}) if lvl == "component" else ("scale", {"f": 2.0})
    cur = {n: float(obj.getNumberDensity(n)) for n in nucs}
    pos = [n for n in nucs if cur[n] > 1e-30]
    op = rng.choice(["setnd", "setnd", "upd", "setnds", "scale", "addmass", "removemass", "setmass", "setmf",
                     "addmasses", "setmasses"])
    fac = lambda: rng.choice([0.5, 0.75, 1.0, 1.25, 1.5, 2.0])  # noqa: E731
    special = lambda v: rng.choice([v, v, v, 0.0, 1e-50])  # noqa: E731
    new = [n for n in ("XE135", "PU239", "AM241", "HE4", "SM149") if n not in nucs]
    newval = lambda: rng.choice([1e-6, 0.00048828125, 0.001953125, 0.0])  # noqa: E731
    if op == "setnd":
        n = rng.choice(nucs)
        if allow_absent and new and rng.random() < 0.3:
            return ("setnd", {"n": rng.choice(new), "v": newval()})
        base = cur[n] if cur[n] > 0 else 0.0009765625
        return ("setnd", {"n": n, "v": special(base * fac())})
    if op == "upd":
        ks = rng.sample(nucs, min(len(nucs), rng.randint(1, 3)))
        d = {n: special((cur[n] or 0.0009765625) * fac()) for n in ks}
        if allow_absent and new and rng.random() < 0.3:
            # first introduction of a nuclide at this level (goes to EVERY child, void gaps included)
            for n in rng.sample(new, min(len(new), rng.randint(1, 2))):
                d[n] = newval()
            if rng.random() < 0.5:
                d = dict(reversed(list(d.items())))
        return ("upd", {"d": d})
    if op == "setnds":
        ks = rng.sample(nucs, max(1, min(len(nucs), rng.randint(1, len(nucs)))))
        d = {n: special((cur[n] or 0.0009765625) * fac()) for n in ks}
        if allow_absent and new and rng.random() < 0.3:
            d[rng.choice(new)] = newval()
        if lvl == "component" and rng.random() < 0.25:
            d = {}
        return ("setnds", {"d": d})
    if op == "scale":
        return ("scale", {"f": rng.choice([0.0, 0.5, 1.0, 1.25, 2.0, 0.9375])})
    if op in ("addmasses", "setmasses"):
        amb = ambiguous(obj)
        cands = [n for n in (pos or nucs) if n not in amb]
        if not cands or float(obj.getVolume()) == 0.0:
            return ("scale", {"f": 1.25})
        ks = rng.sample(cands, min(len(cands), rng.randint(1, 3)))
        if op == "addmasses":
            # positive, zero (skipped by the code) and negative (= removal) entries
            d = {n: rng.choice([8.0, 0.0, 0.5 * float(obj.getMass(n)) + 1.0, -0.25 * float(obj.getMass(n))]) for n in ks}
        else:
            d = {n: rng.choice([64.0, 0.0, 1.5 * float(obj.getMass(n)) + 2.0]) for n in ks}
        return (op, {"d": d})
    if op in ("addmass", "removemass", "setmass"):
        amb = ambiguous(obj)
        cands = [n for n in (pos or nucs) if n not in amb]
        if not cands:
            return ("scale", {"f": 1.25})
        n = rng.choice(cands)
        m = float(obj.getMass(n))
        if op == "addmass":
            return ("addmass", {"n": n, "m": rng.choice([0.0, 8.0, 0.5 * m + 1.0, 125.5])})
        if op == "removemass":
            return ("removemass", {"n": n, "m": rng.choice([0.0, 0.25 * m, 0.5 * m])})
        return ("setmass", {"n": n, "m": rng.choice([0.0, 64.0, 1.5 * m + 2.0, m])})
    # mass fractions
    if comp_empty(obj):
        return ("scale", {"f": 2.0})
    mf0 = obj.getMassFracs() if (dens(obj) or 0.0) > 0 else {}
    cands = [n for n, v in mf0.items() if v > 1e-6]
    if not cands:
        return ("setmf", {"d": {nucs[0]: 0.25}})
    ks = rng.sample(cands, min(len(cands), rng.randint(1, 2)))
    d, tot = {}, 0.0
    for n in ks:
        f = min(0.4, mf0[n] * rng.choice([0.5, 1.0, 1.5]))
        d[n] = f
        tot += f
    if allow_absent and new and rng.random() < 0.35:
        # blend in nuclides that are NEW to the object (component level: accepted; composite level: refused)
        if rng.random() < 0.4:
            d = {}
        for n in rng.sample(new, min(len(new), rng.randint(1, 2))):
            d[n] = rng.choice([0.1, 0.05, 0.0625])
        if rng.random() < 0.5:
            d = dict(reversed(list(d.items())))
    return ("setmf", {"d": d})


def value_class(op, a, obj):
    """coarse class of an edit's argument, for the coverage histogram"""
    def vc(v):
        return "zero" if v == 0.0 else ("trace" if abs(v) < 1e-40 else "value")
    here = set(obj.getNuclides())
    if op == "setnd":
        return ("absent-" if a["n"] not in here else "") + vc(a["v"])
    if op in ("upd", "setnds", "setmf", "addmasses", "setmasses"):
        d = a["d"]
        if not d:
            return "empty"
        tags = sorted({vc(v) for v in d.values()} | ({"absent"} if any(n not in here for n in d) else set()))
        return f"n={min(len(d), 3)}{'+' if len(d) > 3 else ''}:" + "+".join(tags)
    if op == "scale":
        return {0.0: "zero", 1.0: "identity"}.get(a["f"], "shrink" if a["f"] < 1 else "grow")
    return "zero" if a["m"] == 0.0 else "value"


def sym_of(obj):
    lvl = level_of(obj)
    if lvl == "core":
        return 1.0
    if lvl == "component":
        return float(obj.parent.getSymmetryFactor()) if obj.parent else 1.0
    return float(obj.getSymmetryFactor())


def _rec(ctx, stream, obj, op, a, res, vclass, sample=None):
    """distinct = (level, edit kind, value class, symmetry factor, object type, result) combinations exercised
    (value class judged on the state BEFORE the edit)"""
    lvl = level_of(obj)
    combo = (lvl, op, vclass, f"sym{sym_of(obj):g}", res)
    ctx.count("combo " + "/".join(combo))
    ctx.case(combo + (str(obj.getType()) if lvl != "core" else "core",), nontrivial=True, sample=sample)


def apply_real(obj, op, a):
    """apply on the real object; 'ok' | 'reject'."""
    EPOCH[0] += 1
    try:
        with common.quiet():
            if op == "setnd":
                obj.setNumberDensity(a["n"], a["v"])
            elif op == "upd":
                obj.updateNumberDensities(dict(a["d"]))
            elif op == "setnds":
                obj.setNumberDensities(dict(a["d"]))
            elif op == "scale":
                obj.changeNDensByFactor(a["f"])
            elif op == "addmass":
                obj.addMass(a["n"], a["m"])
            elif op == "removemass":
                obj.removeMass(a["n"], a["m"])
            elif op == "setmass":
                obj.setMass(a["n"], a["m"])
            elif op == "setmf":
                obj.setMassFracs(dict(a["d"]))
            elif op == "addmasses":
                obj.addMasses(dict(a["d"]))
            elif op == "setmasses":
                obj.setMasses(dict(a["d"]))
            else:
                raise KeyError(op)
    except (ValueError, ZeroDivisionError):
        return "reject"
    return "ok"


def model_line(mir, path, op, a):
    p = pth(path)
    if op == "setnd":
        return f"setnd {p} {mir.nid(a['n'])} {rat(a['v'])}"
    if op in ("upd", "setnds", "setmf", "addmasses"):
        d = a["d"]
        return f"{op} {p} {intlist([mir.nid(n) for n in d])} {ratlist(list(d.values()))}"
    if op == "setmasses":
        from armi.utils import units

        d = a["d"]
        return f"setmasses {p} {rat(units.TRACE_NUMBER_DENSITY)} {intlist([mir.nid(n) for n in d])} {ratlist(list(d.values()))}"
    if op == "scale":
        return f"scale {p} {rat(a['f'])}"
    if op == "addmass":
        return f"addmass {p} {mir.nid(a['n'])} {rat(a['m'])}"
    if op == "removemass":
        return f"addmass {p} {mir.nid(a['n'])} {rat(-a['m'])}"
    if op == "setmass":
        return f"setmass {p} {mir.nid(a['n'])} {rat(a['m'])}"
    raise KeyError(op)


def before_state(obj):
    nucs = sorted(obj.getNuclides())
    return {"nucs": nucs, "nd": {n: float(obj.getNumberDensity(n)) for n in nucs},
            "mass": {n: float(obj.getMass(n)) for n in nucs}, "rho": None if comp_empty(obj) else dens(obj),
            "mf": dict(obj.getMassFracs()) if nucs else {}, "vol": float(obj.getVolume()),
            "mtot": float(obj.getMass())}


def edit_oracle(obj, op, a, res, bef, fail):
    """read-back / frame clauses of one edit, on the real object."""
    lvl = level_of(obj)
    ndmax = max(list(bef["nd"].values()) + [1e-300])

    def nd(n):
        return float(obj.getNumberDensity(n))

    def frame(changed, tol=1e-12):
        for m_, v in bef["nd"].items():
            if m_ not in changed and not fclose(nd(m_), v, tol=tol):
                fail(f"{op}-frame-{lvl}", f"{op} leaves every other nuclide's density unchanged ({m_})", nd(m_), v)
                return

    if res == "reject" and op in ("setmf", "addmasses", "setmasses"):
        # as coded, setMassFracs applies the listed fractions one by one: when a later nuclide is refused the
        # earlier ones stay applied (Model: setMassFracsPrefix). Atomicity is not part of the property; recorded.
        return
    if res == "reject":
        # a refused call changes nothing
        for m_, v in bef["nd"].items():
            if nd(m_) != v:
                fail(f"{op}-reject-changes-state-{lvl}", "a refused edit leaves the composition unchanged", nd(m_), v)
                return
        return
    if float(obj.getVolume()) != bef["vol"]:
        fail(f"{op}-changes-volume-{lvl}", "a composition edit does not change the volume", float(obj.getVolume()), bef["vol"])
    if op == "setnd":
        if not fclose(nd(a["n"]), a["v"]):
            fail(f"setnd-readback-{lvl}", "setNumberDensity(n, v) reads back v at the same level", nd(a["n"]), a["v"])
        frame({a["n"]})
    elif op == "upd":
        for n, v in a["d"].items():
            if not fclose(nd(n), v):
                fail(f"upd-readback-{lvl}", "updateNumberDensities reads back every listed value", nd(n), v)
        frame(set(a["d"]))
    elif op == "setnds":
        for n, v in a["d"].items():
            if not fclose(nd(n), v):
                fail(f"setnds-readback-{lvl}", "setNumberDensities reads back every listed value", nd(n), v)
        for m_ in bef["nd"]:
            if m_ not in a["d"] and nd(m_) != 0.0:
                fail(f"setnds-others-zero-{lvl}", "setNumberDensities resets unlisted nuclides to zero", nd(m_), 0.0)
    elif op == "scale":
        for m_, v in bef["nd"].items():
            if not fclose(nd(m_), v * a["f"]):
                fail(f"scale-linear-{lvl}", "changeNDensByFactor(f) multiplies every density by f", nd(m_), v * a["f"])
                return
    elif op in ("addmass", "removemass", "setmass"):
        n = a["n"]
        m0 = bef["mass"].get(n, 0.0)
        want = a["m"] if op == "setmass" else (m0 + a["m"] if op == "addmass" else m0 - a["m"])
        got = float(obj.getMass(n))
        sym = obj.parent.getSymmetryFactor() if (lvl == "component" and obj.parent) else 1.0
        if not fclose(got, want, scale=max(abs(m0), abs(a["m"])) * 1e-3):
            key = f"{op}-readback-{lvl}"
            if lvl == "assembly" and not fclose(float(obj.getVolume()), sum(float(b.getVolume()) for b in obj)):
                # consequence of F5: the assembly's own volume is not the sum of its blocks'
                key = "assembly-volume-first-block-area"
            fail(key, f"{op} makes the nuclide's mass read back the requested value at the same level", got, want)
        frame({n})
    elif op in ("addmasses", "setmasses"):
        # the vector forms: every listed nuclide exactly as the single-nuclide call would do it, at the same level
        mscale = max([abs(v) for v in bef["mass"].values()] + [abs(v) for v in a["d"].values()] + [0.0])
        f5 = lvl == "assembly" and not fclose(float(obj.getVolume()), sum(float(b.getVolume()) for b in obj))
        for n, m in a["d"].items():
            m0 = bef["mass"].get(n, 0.0)
            want = m0 + m if op == "addmasses" else m
            got = float(obj.getMass(n))
            if not fclose(got, want, scale=mscale * 1e-9):
                fail("assembly-volume-first-block-area" if f5 else f"{op}-readback-{lvl}",
                     f"{op} changes every listed nuclide's mass by / to exactly the requested amount at the same level ({n})",
                     got, want)
        if op == "addmasses":
            frame(set(a["d"]))
        else:
            for m_ in bef["nd"]:
                if m_ not in a["d"] and abs(nd(m_)) > 1e-40:
                    fail(f"setmasses-others-cleared-{lvl}", "setMasses leaves only trace densities of unlisted nuclides", nd(m_), 1e-50)
                    break
    elif op == "setmf":
        rest = sum(v for n, v in bef["mf"].items() if n not in a["d"])
        if not rest > 1e-9:
            # excluded point: nothing (or nothing with mass) remains to take up 1 - sum(fractions)
            return
        if bef["rho"] is not None and not fclose(dens(obj), bef["rho"], tol=1e-8):
            fail(f"setmf-density-{lvl}", "setMassFracs keeps the total density", dens(obj), bef["rho"])
        if bef.get("mtot") is not None and not fclose(float(obj.getMass()), bef["mtot"], tol=1e-8):
            fail(f"setmf-mass-{lvl}", "setMassFracs keeps the total mass", float(obj.getMass()), bef["mtot"])
        mf1 = obj.getMassFracs()
        for n, f in a["d"].items():
            if not fclose(mf1.get(n, 0.0), f, tol=1e-8):
                fail(f"setmf-readback-{lvl}", "setMassFracs reads back the assigned fractions", mf1.get(n, 0.0), f)
        others = [n for n, v in bef["mf"].items() if n not in a["d"] and v > 1e-9]
        if len(others) >= 2:
            k1, k2 = others[0], others[-1]
            if mf1[k2] > 0 and not fclose(mf1[k1] / mf1[k2], bef["mf"][k1] / bef["mf"][k2], tol=1e-7):
                fail(f"setmf-proportions-{lvl}", "setMassFracs keeps the remaining nuclides' proportions",
                     mf1[k1] / mf1[k2], bef["mf"][k1] / bef["mf"][k2])


# --------------------------------------------------------------------------- streams
def pick_nucs(rng, obj, k=5, extra=()):
    amb = ambiguous(obj)
    nucs = sorted(n for n in obj.getNuclides() if n not in amb)
    out = rng.sample(nucs, min(k, len(nucs)))
    for e in extra:
        if e not in out:
            out.append(e)
    return out


def run_session(ctx, mir, label):
    if not mir.lines:
        return
    out = lean_run("Compo", mir.lines)
    for line, req, chk in zip(out, mir.lines, mir.checks):
        if chk is not None:
            chk(line)
        elif line not in ("ok",):
            ctx.disagree(f"{label}: build request refused by the model", {"request": req[:200]}, line, "ok")
    ctx.evaluations += len(mir.lines)
    ctx.count(f"model requests ({label})", len(mir.lines))
    if len(ctx.samples) < 6:
        idx = next((i for i, c in enumerate(mir.checks) if c is not None), 0)
        ctx.samples.append({"stream": label, "request": mir.lines[idx][:200], "model": out[idx][:300]})
    mir.lines, mir.checks = [], []


def expect_result(ctx, what, case, res):
    def check(line):
        if line != res:
            ctx.disagree(what, case, line, res)
    return check


def do_edit(ctx, mir, paths, obj, op, a, label, step):
    """one edit on both sides: oracle clauses, accepted/refused, then the edited object, its ancestors and a child"""
    rng = ctx.rng
    lvl = level_of(obj)
    case = {"stream": label, "object": str(obj.name if hasattr(obj, "name") else obj), "level": lvl,
            "step": step, "op": op, "args": a}
    bef = before_state(obj)
    combo_before = value_class(op, a, obj)
    res = apply_real(obj, op, a)
    ctx.count(f"edit {op} @{lvl}: {res}")
    _rec(ctx, label, obj, op, a, res, combo_before, case if step == 0 else None)

    def fail(key, clause, observed, expected, case=case):
        ctx.fail(key, clause, case, observed=observed, expected=expected)

    edit_oracle(obj, op, a, res, bef, fail)
    if res == "reject" and op == "setmf" and any(float(obj.getNumberDensity(n)) != v for n, v in bef["nd"].items()):
        ctx.count("refused setMassFracs after partial application")
    mir.emit(model_line(mir, paths[id(obj)], op, a),
             expect_result(ctx, f"{label}: edit accepted/refused", case, res))
    # compare the edited object, its parent chain, and one child
    touched = ([a["n"]] if "n" in a else []) + (list(a["d"]) if "d" in a else [])
    amb0 = ambiguous(obj, touched)
    nucs = pick_nucs(rng, obj, 5, extra=[n for n in touched if n in obj.getNuclides() and n not in amb0][:4])
    chain = [obj]
    p = obj.parent
    while p is not None and id(p) in paths:
        chain.append(p)
        p = p.parent
    if lvl != "component" and len(obj):
        chain.append(rng.choice(list(obj)))
    for o in chain:
        amb = ambiguous(o, nucs)
        add_snap(ctx, mir, f"{label}: Model/Compo vs {level_of(o)} after {op}", dict(case, observed_at=level_of(o)),
                 o, paths[id(o)], [n for n in nucs if n not in amb])
        if level_of(o) == "component":
            add_comp_density(ctx, mir, f"{label}: Comp.density vs Component.density after {op}", case, o)
        sps = selection_specs(rng, o)
        for sp in (rng.choice(sps[-4:] if rng.random() < 0.5 else sps),):
            add_selection(ctx, mir, f"{label}: massSel vs getMass(selection) after {op}", dict(case, observed_at=level_of(o)),
                          o, paths[id(o)], sp)
        # atoms of the touched nuclides first, then a few others
        additivity(o, fail, ([n for n in touched if n in o.getNuclides()] + nucs)[:4])
    return res


def edit_sequence(ctx, mir, assemblies, paths, targets, nedits, label, resync=6):
    """seeded edits on `targets` (objects inside `assemblies`), compared after every edit."""
    rng = ctx.rng
    for step in range(nedits):
        if step and step % resync == 0:
            paths = mir.load(assemblies, extra_nucs=("PU239", "AM241", "HE4"))
        obj = rng.choice(targets)
        op, a = gen_edit(rng, obj)
        do_edit(ctx, mir, paths, obj, op, a, label, step)
    return paths


def vector_mass_script(ctx, mir, paths, a, label):
    """addMasses / setMasses (vector forms) at component, block and assembly level of this assembly - in a
    symmetry-cut assembly the component-level scaling of the single-nuclide calls must hold for them too"""
    step = [2000]

    def go(obj, op, args):
        step[0] += 1
        return do_edit(ctx, mir, paths, obj, op, args, label, step[0])

    def masses(obj, k):
        amb = ambiguous(obj)
        return [(n, float(obj.getMass(n))) for n in sorted(obj.getNuclides())
                if n not in amb and float(obj.getNumberDensity(n)) > 1e-30][:k]

    blocks = [b for b in a if len(b)]
    b = blocks[min(1, len(blocks) - 1)]
    comps = [c for c in b if not comp_empty(c) and float(c.getVolume()) > 0 and masses(c, 1)]
    for obj in comps[:1] + [b, a]:
        ms = masses(obj, 3)
        if not ms:
            continue
        d = {ms[0][0]: 8.0}
        if len(ms) > 1:
            d[ms[1][0]] = -0.25 * ms[1][1]
        if len(ms) > 2:
            d[ms[2][0]] = 0.0
        go(obj, "addmasses", {"d": d})
    for obj in (comps[:1] + [b] if ctx.thorough else comps[:1]):
        ms = masses(obj, 2)
        if ms:
            go(obj, "setmasses", {"d": {n: (64.0 if i == 0 else 0.5 * m + 1.0) for i, (n, m) in enumerate(ms)}})
            go(obj, "addmasses", {"d": {ms[0][0]: 4.0}})


def new_nuclide_script(ctx, mir, paths, a, label):
    """first introduction of nuclides that are new to the object, at every level, on blocks with and without a
    void gap; later edits of the same nuclides; mass fractions of new nuclides"""
    blocks = list(a)
    step = [1000]

    def go(obj, op, args):
        step[0] += 1
        return do_edit(ctx, mir, paths, obj, op, args, label, step[0])

    for b in blocks[:2]:
        here = set(b.getNuclides())
        if "XE135" in here:
            continue
        gap = any(c.name == "gap" for c in b)
        ctx.count("new-nuclide script on a block " + ("with" if gap else "without") + " a void gap")
        fuel = [c for c in b if c.name == "fuel"][0] if any(c.name == "fuel" for c in b) else list(b)[0]
        go(b, "setnd", {"n": "XE135", "v": 1e-6})                       # refused: nowhere present
        go(b, "upd", {"d": {"XE135": 1e-6}})                            # first introduction: every child, gap included
        go(b, "setnd", {"n": "XE135", "v": 2.5e-6})                     # later edit
        cur = {n: float(b.getNumberDensity(n)) for n in sorted(b.getNuclides())[:3]}
        go(b, "setnds", {"d": dict(cur, SM149=1e-6)})                   # new nuclide through setNumberDensities
        go(b, "scale", {"f": 1.25})
        if not comp_empty(fuel) and (dens(fuel) or 0.0) > 0:
            go(fuel, "setmf", {"d": {"PU239": 0.1}})                    # a nuclide NEW to the component
            ex = sorted(n for n, v in fuel.getMassFracs().items() if v > 1e-3 and n != "PU239")[:1]
            go(fuel, "setmf", {"d": dict({"AM241": 0.05}, **{n: 0.2 for n in ex})})   # new + existing in one call
            go(fuel, "setmf", {"d": {"PU239": 0.15, "CM244": 0.0625}})     # existing-by-now + new
        if (dens(b) or 0.0) > 0:
            go(b, "setmf", {"d": {"PU239": 0.1}})                       # block level: held by the fuel by now
            go(b, "setmf", {"d": {"NP237": 0.05}})                      # block level, held nowhere: refused
        go(b, "upd", {"d": {"XE135": 0.0, "HE4": 1e-6}})
    go(a, "upd", {"d": {"KR85": 1e-6}})                                 # assembly level, first introduction
    go(a, "setnd", {"n": "KR85", "v": 3e-6})
    return paths


def element_level_edits(ctx, mir, paths, objs, label):
    """setMass / setMassFrac with an ELEMENT symbol: the code distributes over children holding that very name, so
    unless the elemental nuclide itself is present the call is refused (ValueError) and nothing changes"""
    for obj in objs:
        here = set(obj.getNuclides())
        for sym, op, a in (("U", "setmass", {"n": "U", "m": 5.0}), ("ZR", "setmf", {"d": {"ZR": 0.0625}}),
                           ("FE", "addmass", {"n": "FE", "m": 2.0})):
            if sym in here or (op == "setmf" and not (dens(obj) or 0.0) > 0):
                continue
            case = {"stream": label, "level": level_of(obj), "op": op, "args": a, "element_level": True}
            bef = before_state(obj)
            vclass = "element-absent"
            res = apply_real(obj, op, a)
            _rec(ctx, label, obj, op, a, res, vclass)
            fail = lambda k, cl, o, e, case=case: ctx.fail(k, cl, case, observed=o, expected=e)  # noqa: E731
            if res == "reject":
                # as coded today: refused, nothing changes; the model refuses too
                edit_oracle(obj, op, a, res, bef, fail)
                mir.emit(model_line(mir, paths[id(obj)], op, a), expect_result(ctx, f"{label}: element-level edit", case, res))
                continue
            # an implementation that accepts element-level edits must read them back (judged by the oracle alone)
            ctx.count(f"element-level {op} accepted")
            if op == "setmass" and not fclose(float(obj.getMass(sym)), a["m"], tol=1e-8):
                fail("element-level-setmass-readback", "setMass(element, m) reads back m for the element", float(obj.getMass(sym)), a["m"])
            if op == "setmf" and not fclose(float(obj.getMassFrac(sym)), a["d"][sym], tol=1e-8):
                fail("element-level-setmf-readback", "setMassFrac(element, f) reads back f", float(obj.getMassFrac(sym)), a["d"][sym])
            return   # model and implementation are out of step from here on: stop this object list


def make_reference(ctx):
    from armi.reactor.converters.geometryConverters import EdgeAssemblyChanger
    from armi.reactor.tests.test_reactors import loadTestReactor
    from armi.tests import TEST_ROOT

    with common.quiet():
        o, r = loadTestReactor(TEST_ROOT)
        EdgeAssemblyChanger().addEdgeAssemblies(r.core)
    return r


def run_core(ctx, r):
    """whole third-core reference reactor with edge assemblies: additivity chain at every level, core-level edits."""
    core = r.core
    rng = ctx.rng
    assems = list(core)
    syms = sorted({float(a.getSymmetryFactor()) for a in assems})
    ctx.count("core symmetry factors present: " + ",".join(str(s) for s in syms))
    mir = Mirror()
    paths = mir.load(assems, extra_nucs=("PU239", "AM241", "HE4"))
    paths[id(core)] = []
    nucs = ["U235", "NA23", "FE56"]
    nucs = [n for n in nucs if n in core.getNuclides()]
    case = {"stream": "reference core", "assemblies": len(assems)}

    def fail(key, clause, observed, expected, case=case):
        ctx.fail(key, clause, case, observed=observed, expected=expected)

    def whole_chain():
        # core N*V == sum assemblies == sum blocks == sum components (/ symmetry factor)
        blocks = core.getBlocks()
        vol = float(core.getVolume())
        for n in nucs[:2]:
            top = float(core.getNumberDensity(n)) * vol
            sa = sum(float(a.getNumberDensity(n)) * float(a.getVolume()) for a in assems)
            sb = sum(float(b.getNumberDensity(n)) * float(b.getVolume()) for b in blocks)
            sc = sum(float(c.getNumberDensity(n)) * float(c.getVolume()) / float(b.getSymmetryFactor())
                     for b in blocks for c in b)
            for name, v in (("assemblies", sa), ("blocks", sb), ("components", sc)):
                if not fclose(top, v, tol=1e-8):
                    fail(f"atoms-chain-core-{name}", f"core N x V of {n} == sum over {name}", top, v)
        mtot = float(core.getMass())
        if not fclose(mtot, dens(core) * vol, tol=1e-8):
            fail("mass-density-volume-core", "core mass == core density x volume", mtot, dens(core) * vol)
        mb = sum(float(c.getMass()) for b in blocks for c in b)
        if not fclose(mtot, mb, tol=1e-8):
            fail("mass-additive-core", "core mass == sum of all component masses", mtot, mb)

    whole_chain()
    additivity(core, fail, nucs)
    add_snap(ctx, mir, "core: Model/Compo vs Core", dict(case, observed_at="core"), core, [], nucs)
    cut = [a for a in assems if a.getSymmetryFactor() != 1.0]
    plain = [a for a in assems if a.getSymmetryFactor() == 1.0]
    centre0 = [a for a in cut if a.getSymmetryFactor() == 3.0]
    edges0 = [a for a in cut if a.getSymmetryFactor() == 2.0]
    for a in (assems if ctx.thorough else centre0[:1] + edges0[:2] + rng.sample(plain, 3)):
        additivity(a, lambda k, c, o, e, a=a: ctx.fail(k, c, dict(case, assembly=a.name), observed=o, expected=e), nucs[:2])
        add_snap(ctx, mir, "core: Model/Compo vs Assembly", dict(case, assembly=a.name, sym=a.getSymmetryFactor()),
                 a, paths[id(a)], nucs)
        ctx.case(("ref-assembly", a.name), nontrivial=True)
    centre = [a for a in cut if a.getSymmetryFactor() == 3.0]
    edges = [a for a in cut if a.getSymmetryFactor() == 2.0]
    for a in (cut + rng.sample(plain, 30) if ctx.thorough else centre[:1] + edges[:1] + rng.sample(plain, 1)):
        for b in a:
            fb = lambda k, c, o, e, b=b: ctx.fail(k, c, dict(case, block=b.name, sym=b.getSymmetryFactor()), observed=o, expected=e)  # noqa: E731
            bn = pick_nucs(rng, b, 3)
            additivity(b, fb, bn)
            specifier_variants(b, fb)
            add_snap(ctx, mir, "core: Model/Compo vs Block", dict(case, block=b.name, sym=b.getSymmetryFactor()),
                     b, paths[id(b)], bn)
            add_volfracs(ctx, mir, "core: Node.volFrac vs Block.getVolumeFractions",
                         dict(case, block=b.name, sym=b.getSymmetryFactor()), b, paths[id(b)])
            complement_and_getters(ctx, mir, "core: massSel vs Block.getMass", dict(case, block=b.name), b, paths[id(b)])
            for spec in selection_specs(rng, b)[:3] + selection_specs(rng, b)[-4:]:
                add_selection(ctx, mir, "core: massSel vs Block.getMass(selection)", dict(case, block=b.name), b, paths[id(b)], spec)
                ctx.count("selection " + ("element/name" if isinstance(spec, str) else "list") + " @block")
            cc = rng.choice(list(b))
            complement_and_getters(ctx, mir, "core: massSel vs Component.getMass", dict(case, block=b.name, comp=cc.name), cc,
                                   paths[id(cc)])
            for spec in selection_specs(rng, cc)[:2] + selection_specs(rng, cc)[-4:]:
                add_selection(ctx, mir, "core: massSel vs Component.getMass(selection)", dict(case, block=b.name, comp=cc.name),
                              cc, paths[id(cc)], spec)
                ctx.count("selection " + ("element/name" if isinstance(spec, str) else "list") + " @component")
            c = rng.choice(list(b))
            additivity(c, fb, [])
            add_snap(ctx, mir, "core: Model/Compo vs Component", dict(case, block=b.name, comp=c.name),
                     c, paths[id(c)], pick_nucs(rng, c, 3))
            ctx.case(("ref-block", b.name), nontrivial=True)
    specifier_variants(core, fail)
    complement_and_getters(ctx, mir, "core: massSel vs Core.getMass", case, core, [])
    for spec in ["U", "ZR", ["U235", "FE", "U235"], [["NA"], "U"], [], "XE"]:
        add_selection(ctx, mir, "core: massSel vs Core.getMass(selection)", case, core, [], spec)
        ctx.count("selection @core")
    for a in cut[:3]:
        complement_and_getters(ctx, mir, "core: massSel vs Assembly.getMass", dict(case, assembly=a.name), a, paths[id(a)])
        for spec in selection_specs(rng, a)[:2] + selection_specs(rng, a)[-4:]:
            add_selection(ctx, mir, "core: massSel vs Assembly.getMass(selection)", dict(case, assembly=a.name), a, paths[id(a)], spec)
            ctx.count("selection " + ("element/name" if isinstance(spec, str) else "list") + " @assembly")
    # core-level and cut-assembly-level edits, no resync (state carried on both sides)
    targets = [core, cut[0][1]] + cut[:3] + [cut[-1][1]]
    quick = not ctx.thorough
    for step in range(ctx.pick(2, 14)):
        obj = targets[step % len(targets)]
        if quick and obj is core:
            # quick tier: ONE core-level state change, chosen without scanning every nuclide of the core
            n0 = nucs[0]
            op, a = "setnd", {"n": n0, "v": float(core.getNumberDensity(n0)) * 1.25}
            bef = {"nucs": nucs, "nd": {n: float(core.getNumberDensity(n)) for n in nucs},
                   "mass": {n: float(core.getMass(n)) for n in nucs}, "rho": None, "mf": {}, "vol": float(core.getVolume()),
                   "mtot": None}
        else:
            op, a = gen_edit(rng, obj, allow_absent=False)
            if op in ("setnds",) and obj is core:
                op, a = "scale", {"f": 1.25}
            bef = before_state(obj)
        ecase = dict(case, object=str(getattr(obj, "name", "core")), level=level_of(obj), step=step, op=op, args=a)
        combo_before = value_class(op, a, obj)
        res = apply_real(obj, op, a)
        ctx.count(f"edit {op} @{level_of(obj)}: {res}")
        _rec(ctx, "reference core", obj, op, a, res, combo_before)
        ef = lambda k, c, o, e, ecase=ecase: ctx.fail(k, c, ecase, observed=o, expected=e)  # noqa: E731
        edit_oracle(obj, op, a, res, bef, ef)
        mir.emit(model_line(mir, paths[id(obj)], op, a), expect_result(ctx, "core: edit accepted/refused", ecase, res))
        if obj is not core:
            add_snap(ctx, mir, f"core: Model/Compo vs {level_of(obj)} after {op}", ecase, obj, paths[id(obj)], nucs)
            par = obj.parent
            if par is not None and id(par) in paths:
                add_snap(ctx, mir, f"core: Model/Compo vs {level_of(par)} after {op}", ecase, par, paths[id(par)], nucs)
        if obj is core or not quick:
            # a new core-level state costs one core.density() (seconds): in quick only after the core-level edit
            add_snap(ctx, mir, f"core: Model/Compo vs Core after {op}", dict(ecase, observed_at="core"), core, [], nucs)
            whole_chain()
            additivity(core, ef, nucs[:2])
    run_session(ctx, mir, "reference core")


def run_assemblies(ctx, r):
    """long edit sequences on single assemblies of the reference reactor (centre: 3, edge: 2, ordinary: 1)."""
    from armi.reactor.flags import Flags

    core = r.core
    rng = ctx.rng
    assems = list(core)
    centre = [a for a in assems if a.getSymmetryFactor() == 3.0]
    edge = [a for a in assems if a.getSymmetryFactor() == 2.0]
    plain = [a for a in assems if a.getSymmetryFactor() == 1.0]
    chosen = centre[:1] + edge[:1] + rng.sample(plain, ctx.pick(1, 8))
    for a in chosen:
        mir = Mirror()
        paths = mir.load([a], extra_nucs=("PU239", "AM241", "HE4"))
        blocks = list(a)
        targets = [a] + blocks + [c for b in rng.sample(blocks, min(2, len(blocks))) for c in rng.sample(list(b), 2)]
        label = f"assembly sym={a.getSymmetryFactor():g}"
        paths = edit_sequence(ctx, mir, [a], paths, targets, ctx.pick(10, 60), label)
        if ctx.thorough or a.getSymmetryFactor() != 1.0:
            paths = mir.load([a], extra_nucs=("PU239", "AM241", "HE4"))
            vector_mass_script(ctx, mir, paths, a, label)
        element_level_edits(ctx, mir, paths, [a, blocks[1], list(blocks[1])[0]], label)
        run_session(ctx, mir, label)


def run_zero_refill(ctx, r):
    """void completely, query total mass without a nuclide selection at component/block/assembly level, refill."""
    core = r.core
    rng = ctx.rng
    a = rng.choice([x for x in core if x.getSymmetryFactor() == 1.0 and len(x) > 2])
    mir = Mirror()
    paths = mir.load([a], extra_nucs=("PU239", "AM241", "HE4"))
    b = a[1]
    comps = list(b)
    c = comps[0]
    label = "void-and-refill"
    saved = dict(c.p.numberDensities)
    script = [(c, "scale", {"f": 0.0}), (c, "setnds", {"d": {}}), (b, "setnd", {"n": "NA23", "v": 0.0}),
              (c, "setnds", {"d": {k: v for k, v in saved.items()}}), (b, "scale", {"f": 0.0}),
              (b, "setnd", {"n": sorted(b.getNuclides())[0], "v": 1e-50}),
              (comps[-1], "setnds", {"d": {"FE56": 0.03125}}), (a, "scale", {"f": 0.0}),
              (c, "setnds", {"d": saved}), (a, "scale", {"f": 2.0})]
    for step, (obj, op, args) in enumerate(script):
        if "n" in args and args["n"] not in obj.getNuclides():
            continue
        case = {"stream": label, "level": level_of(obj), "step": step, "op": op, "args": args}
        bef = before_state(obj)
        combo_before = value_class(op, args, obj)
        res = apply_real(obj, op, args)
        ctx.count(f"edit {op} @{level_of(obj)}: {res}")
        _rec(ctx, label, obj, op, args, res, combo_before)
        fail = lambda k, cl, o, e, case=case: ctx.fail(k, cl, case, observed=o, expected=e)  # noqa: E731
        edit_oracle(obj, op, args, res, bef, fail)
        mir.emit(model_line(mir, paths[id(obj)], op, args), expect_result(ctx, f"{label}: accepted/refused", case, res))
        for o in (c, comps[-1], b, a):
            nucs = pick_nucs(rng, o, 4)
            additivity(o, fail, nucs[:2])
            tot = float(o.getMass())
            parts = sum(float(o.getMass(n)) for n in o.getNuclides())
            if not ambiguous(o) and not fclose(tot, parts, scale=abs(tot) * 1e-9 + 1e-12):
                fail(f"total-mass-is-sum-of-nuclides-{level_of(o)}", "getMass() == sum of nuclide masses (incl. all-zero)", tot, parts)
            add_snap(ctx, mir, f"{label}: Model/Compo vs {level_of(o)}", dict(case, observed_at=level_of(o)), o,
                     paths[id(o)], nucs)
            if level_of(o) == "component":
                add_comp_density(ctx, mir, f"{label}: Comp.density vs Component.density", case, o)
    run_session(ctx, mir, label)


# ---- generated blocks from real shape classes and materials
FUEL_MATS = ["UZr", "UO2", "MOX", "ThO2", "Uranium"]
STRUCT_MATS = ["HT9", "Zr", "Inconel600", "Inconel625", "InconelX750", "HastelloyN", "Graphite", "TZM", "B4C", "MgO"]
COOLANTS = ["Sodium", "Lead", "LeadBismuth", "Potassium"]


def gen_block(rng, name, height, force_gap=None):
    """a hex block from real shape classes: fuel circles, bond, clad, wire helix, duct hexagon, derived coolant, and
    optionally rectangles / triangles / holed shapes as extra structure."""
    from armi.reactor import blocks, components

    b = blocks.HexBlock(name, height=height)
    mult = float(rng.choice([1, 7, 19, 61, 169, 271]))
    tf = common.dyadic(rng, 400, 700, 2)
    ts = common.dyadic(rng, 350, 550, 2)
    pin_pitch = 1.25
    duct_ip = max(6.0, 1.3 * math.sqrt(mult) * pin_pitch * 1.05 + 1.0)
    duct_ip = math.ceil(duct_ip * 4) / 4.0
    cool = rng.choice(COOLANTS)
    fuel = components.Circle("fuel", rng.choice(FUEL_MATS), 25.0, tf, od=common.dyadic(rng, 0.5, 0.75, 4), id=0.0, mult=mult)
    clad = components.Circle("clad", rng.choice(STRUCT_MATS), 25.0, ts, od=1.0, id=0.875, mult=mult)
    if (rng.random() < 0.5) if force_gap is None else force_gap:
        # a void gap of sizeable volume (no nuclides) between fuel and clad
        bond = components.Circle("gap", "Void", ts, ts, od="clad.id", id="fuel.od", mult="fuel.mult",
                                 components={"fuel": fuel, "clad": clad})
    else:
        bond = components.Circle("bond", cool, ts, ts, od="clad.id", id="fuel.od", mult="fuel.mult",
                                 components={"fuel": fuel, "clad": clad})
    comps = [fuel, bond, clad]
    if rng.random() < 0.7:
        comps.append(components.Helix("wire", rng.choice(STRUCT_MATS), 25.0, ts, od=0.125, id=0.0,
                                      axialPitch=common.dyadic(rng, 15, 30, 1), helixDiameter=1.125, mult=mult))
    kind = rng.choice(["none", "rect", "tri", "holedhex", "square"])
    if kind == "rect":
        comps.append(components.Rectangle("structure", rng.choice(STRUCT_MATS), 25.0, ts, lengthOuter=0.5, lengthInner=0.25,
                                          widthOuter=0.5, widthInner=0.25, mult=float(rng.choice([1, 3, 6]))))
    elif kind == "tri":
        comps.append(components.Triangle("structure", rng.choice(STRUCT_MATS), 25.0, ts, base=0.5, height=0.375,
                                         mult=float(rng.choice([1, 6]))))
    elif kind == "holedhex":
        comps.append(components.HoledHexagon("structure", rng.choice(STRUCT_MATS), 25.0, ts, op=0.75, holeOD=0.25,
                                             nHoles=1.0, mult=float(rng.choice([1, 3]))))
    elif kind == "square":
        comps.append(components.Square("structure", rng.choice(STRUCT_MATS), 25.0, ts, widthOuter=0.5, widthInner=0.0,
                                       mult=float(rng.choice([1, 4]))))
    duct = components.Hexagon("duct", rng.choice(STRUCT_MATS), 25.0, ts, op=duct_ip + 0.5, ip=duct_ip, mult=1.0)
    inter = components.Hexagon("intercoolant", cool, ts, ts, op=duct_ip + 0.75, ip="duct.op", mult=1.0,
                               components={"duct": duct})
    coolant = components.DerivedShape("coolant", cool, ts, ts)
    comps += [duct, inter, coolant]
    for c in comps:
        b.add(c)
    b.getVolumeFractions()   # derive the coolant
    return b


def gen_assembly(rng, idx, centre_grid):
    from armi.reactor import assemblies, grids

    nb = rng.randint(1, 6)
    a = assemblies.HexAssembly("gen%02d" % idx)
    a.spatialGrid = grids.AxialGrid.fromNCells(nb)
    template = None
    z = 0.0
    for j in range(nb):
        h = common.dyadic(rng, 10, 40, 1)
        if template is None or rng.random() < 0.5:
            b = gen_block(rng, "gb%02d_%d" % (idx, j), h, force_gap=(idx % 2 == 0) if j == 0 else None)
            template = b
        else:
            b = copy.deepcopy(template)
            b.setName("gb%02d_%d" % (idx, j))
            b.setHeight(h)
        b.p.zbottom, b.p.ztop = z, z + h
        z += h
        a.add(b)
    if centre_grid is not None:
        a.spatialLocator = centre_grid[0, 0, 0]
    for b in a:
        b.clearCache()
        for c in b:
            c.clearCache()
        b.getVolumeFractions()
    return a


def run_generated(ctx):
    from armi.reactor import grids

    rng = ctx.rng
    n = ctx.pick(5, 80)
    third = grids.HexGrid.fromPitch(16.0, numRings=3, symmetry="third periodic")
    made = 0
    for idx in range(n):
        centre = rng.random() < 0.4
        try:
            with common.quiet():
                a = gen_assembly(rng, idx, third if centre else None)
        except (ValueError, ArithmeticError) as e:
            ctx.count(f"generated assembly refused by armi ({type(e).__name__})")
            continue
        made += 1
        ctx.count(f"generated assembly, symmetry factor {a.getSymmetryFactor():g}")
        ctx.count("generated blocks with a void gap", sum(1 for b in a for c in b if c.name == "gap"))
        ctx.count("generated blocks without a void gap", sum(1 for b in a if not any(c.name == "gap" for c in b)))
        mir = Mirror()
        paths = mir.load([a], extra_nucs=("PU239", "AM241", "HE4"))
        blocks = list(a)
        label = f"generated sym={a.getSymmetryFactor():g}"
        case = {"stream": label, "assembly": idx, "blocks": len(blocks),
                "components": [[(c.name, type(c).__name__, c.material.name) for c in b] for b in blocks][:2]}
        fail = lambda k, c, o, e, case=case: ctx.fail(k, c, case, observed=o, expected=e)  # noqa: E731
        for gb in blocks:
            tot = sum(float(c.getArea()) for c in gb)
            if not fclose(tot, float(gb.getMaxArea())):
                fail("derived-shape-closes-area", "component areas of a block with a derived shape sum to the block's max area",
                     tot, float(gb.getMaxArea()))
            if not fclose(float(gb.getVolume()) * float(gb.getSymmetryFactor()), float(gb.getMaxArea()) * float(gb.getHeight())):
                fail("derived-shape-closes-volume", "block volume == max area x height / symmetry factor",
                     float(gb.getVolume()) * float(gb.getSymmetryFactor()), float(gb.getMaxArea()) * float(gb.getHeight()))
        for o in [a] + blocks:
            nucs = pick_nucs(rng, o, 4)
            # generated assemblies mix block cross sections: volume additivity at assembly level is F5's business
            if o is a and len({round(float(b.getArea()), 9) for b in blocks}) > 1:
                ctx.count("generated assembly with unequal block areas (F5 territory)")
            additivity(o, fail, nucs)
            specifier_variants(o, fail)
            add_snap(ctx, mir, f"{label}: Model/Compo vs {level_of(o)}", dict(case, observed_at=level_of(o)), o, paths[id(o)], nucs)
            add_volfracs(ctx, mir, f"{label}: Node.volFrac vs getVolumeFractions", dict(case, observed_at=level_of(o)), o, paths[id(o)])
            complement_and_getters(ctx, mir, f"{label}: massSel vs getMass", dict(case, observed_at=level_of(o)), o, paths[id(o)])
            for spec in selection_specs(rng, o):
                add_selection(ctx, mir, f"{label}: massSel vs getMass(selection)", dict(case, observed_at=level_of(o)), o,
                              paths[id(o)], spec)
                ctx.count("selection " + ("element/name" if isinstance(spec, str) else "list") + " @" + level_of(o))
        targets = [a] + blocks + [c for b in blocks[:2] for c in rng.sample(list(b), 2)]
        paths = edit_sequence(ctx, mir, [a], paths, targets, ctx.pick(6, 24), label)
        if idx < ctx.pick(3, 40):
            paths = mir.load([a], extra_nucs=("PU239", "AM241", "HE4", "XE135", "SM149", "KR85", "NP237", "CM244"))
            new_nuclide_script(ctx, mir, paths, a, label)
        element_level_edits(ctx, mir, paths, [a, blocks[0], list(blocks[0])[0]], label)
        run_session(ctx, mir, label)
    if not made:
        raise common.Infra("no generated assembly could be built")


# --------------------------------------------------------------------------- blocks with a NEGATIVE-volume gap
def gen_assembly_gap(rng, idx, centre_grid):
    """an assembly whose blocks hold a Void (or gas) gap between fuel and clad that is slightly negative, exactly zero or
    positive: the fuel's hot outer diameter is set past / onto / inside the clad's inner diameter (dimension-driven) or the
    fuel is heated until it crosses (temperature-driven). armi allows the negative area (Component._checkNegativeArea,
    getVolumeFractions notes). -> (assembly, [sign per block])"""
    from armi.reactor import assemblies, grids

    nb = rng.randint(1, 4)
    a = assemblies.HexAssembly("gap%02d" % idx)
    a.spatialGrid = grids.AxialGrid.fromNCells(nb)
    z = 0.0
    signs = []
    template = None
    for j in range(nb):
        h = common.dyadic(rng, 10, 40, 1)
        if template is None:
            # one cross section for the whole assembly (equal block areas: assembly-level clauses are judged strictly)
            b = template = gen_block(rng, "nb%02d_%d" % (idx, j), h, force_gap=True)
        else:
            b = copy.deepcopy(template)
            b.setName("nb%02d_%d" % (idx, j))
            b.setHeight(h)
        fuel = b.getComponentByName("fuel")
        clad = b.getComponentByName("clad")
        gap = b.getComponentByName("gap")
        want = rng.choice(["negative", "negative", "zero", "positive", "negative-by-temperature"])
        cid = float(clad.getDimension("id"))
        if want == "negative":
            fuel.setDimension("od", cid * rng.choice([1.00390625, 1.0009765625, 1.015625]), cold=False)
        elif want == "zero":
            fuel.setDimension("od", cid, cold=False)
        elif want == "positive":
            fuel.setDimension("od", cid * 0.96875, cold=False)
        else:
            # cold: inside the clad; hot: heated until it has crossed (or as far as the material's range allows)
            fuel.setDimension("od", float(clad.getDimension("id", cold=True)) * 0.998046875, cold=True)
            fuel.setTemperature(rng.choice([700.0, 800.0, 850.0]))
        b.p.zbottom, b.p.ztop = z, z + h
        z += h
        a.add(b)
    if centre_grid is not None:
        a.spatialLocator = centre_grid[0, 0, 0]
    for b in a:
        b.clearCache()
        for c in b:
            c.clearCache()
        b.getVolumeFractions()
        ga = float(b.getComponentByName("gap").getArea())
        signs.append("negative" if ga < 0 else ("zero" if ga == 0 else "positive"))
    return a, signs


def run_negative_gap(ctx):
    """blocks with a negative / zero / positive Void gap (see gen_assembly_gap), detached or at the centre of a third-core
    grid: volume fractions are the SIGNED V_child / V_block and sum to one, homogenised densities weight by the signed
    volumes, every setter at block and assembly level reads back; everything compared with Model/Compo."""
    from armi.reactor import grids

    rng = random.Random(f"{ctx.prop}-{ctx.seed}-gap")
    third = grids.HexGrid.fromPitch(16.0, numRings=3, symmetry="third periodic")
    for idx in range(ctx.pick(2, 10)):
        try:
            with common.quiet():
                a, signs = gen_assembly_gap(rng, idx, third if rng.random() < 0.4 else None)
        except (ValueError, ArithmeticError) as e:
            ctx.count(f"negative-gap assembly refused by armi ({type(e).__name__})")
            continue
        for sg in signs:
            ctx.count(f"block with a {sg} gap")
        blocks = list(a)
        label = f"negative gap sym={a.getSymmetryFactor():g}"
        case = {"stream": label, "assembly": idx, "gaps": signs}
        fail = lambda k, c, o, e, case=case: ctx.fail(k, c, case, observed=o, expected=e)  # noqa: E731
        mir = Mirror()
        paths = mir.load([a], extra_nucs=("PU239", "AM241", "HE4"))

        def fractions(tag):
            with common.quiet():
                for b in blocks:
                    fr = b.getVolumeFractions()
                    vb = sum(float(c.getVolume()) for c in b)
                    tot = sum(float(f) for _, f in fr)
                    if not fclose(tot, 1.0):
                        fail("volume-fractions-sum-block", "volume fractions sum to one (signed volumes)", tot, 1.0)
                    for c, f in fr:
                        want = float(c.getVolume()) / vb
                        if not fclose(float(f), want, scale=1e-12):
                            ctx.fail("volume-fraction-signed-block", "getVolumeFractions()[c] == V_c / V_block with the SIGNED "
                                     "volumes (a negative gap counts negative)", dict(case, block=b.name, comp=c.name, after=tag),
                                     observed=float(f), expected=want)
                            break
                    if not fclose(float(b.getVolume()) * float(b.getSymmetryFactor()), vb):
                        fail("block-volume-signed-sum", "block volume x symmetry factor == signed sum of the component volumes",
                             float(b.getVolume()) * float(b.getSymmetryFactor()), vb)
                    add_volfracs(ctx, mir, f"{label}: Node.volFrac vs getVolumeFractions ({tag})",
                                 dict(case, block=b.name, observed_at="block"), b, paths[id(b)])

        fractions("built")
        for o in [a] + blocks:
            nucs = pick_nucs(rng, o, 4)
            additivity(o, fail, nucs)
            add_snap(ctx, mir, f"{label}: Model/Compo vs {level_of(o)}", dict(case, observed_at=level_of(o)), o, paths[id(o)], nucs)
        # setters at block and assembly level (and a few components), read back and compared after every edit
        targets = blocks + blocks + [a] + [c for b in blocks[:2] for c in rng.sample([x for x in b if x.name != "gap"], 1)]
        nedits = ctx.pick(10, 30)
        for step in range(nedits):
            if step and step % 6 == 0:
                paths = mir.load([a], extra_nucs=("PU239", "AM241", "HE4"))
            obj = rng.choice(targets)
            op, args = gen_edit(rng, obj)
            do_edit(ctx, mir, paths, obj, op, args, label, step)
        fractions("after the edits")
        run_session(ctx, mir, label)


def run_core_negative(ctx, r):
    """LAST stream (it changes the reference reactor): the sodium bond of fuel blocks in the centre (factor 3), an edge
    (factor 2) and two ordinary assemblies is made negative / zero by setting the hot fuel diameter past / onto the clad's
    inner diameter - a negative-volume component that HOLDS nuclides. Signed volume fractions, the atoms chain
    core = assemblies = blocks = components, and setters at block, assembly and CORE level read back; compared with the
    model at every level."""
    rng = random.Random(f"{ctx.prop}-{ctx.seed}-coregap")
    core = r.core
    assems = list(core)
    cut3 = [a for a in assems if a.getSymmetryFactor() == 3.0]
    cut2 = [a for a in assems if a.getSymmetryFactor() == 2.0]
    plain = [a for a in assems if a.getSymmetryFactor() == 1.0 and any(b.getComponentByName("bond") is not None for b in a)]
    chosen = cut3[:1] + (rng.sample(cut2, 1) if cut2 else []) + rng.sample(plain, min(2, len(plain)))
    changed = []
    with common.quiet():
        for a in chosen:
            for b in a:
                fuel, clad, bond = (b.getComponentByName(n) for n in ("fuel", "clad", "bond"))
                if None in (fuel, clad, bond):
                    continue
                want = rng.choice(["negative", "negative", "zero"])
                cid = float(clad.getDimension("id"))
                fuel.setDimension("od", cid * (rng.choice([1.00390625, 1.0009765625]) if want == "negative" else 1.0), cold=False)
                b.clearCache()
                for c in b:
                    c.clearCache()
                b.getVolumeFractions()
                changed.append(b)
                ctx.count("reference block with a %s sodium bond" % ("negative" if float(bond.getVolume()) < 0 else "zero"))
    EPOCH[0] += 1
    case = {"stream": "core negative bond", "assemblies": [a.name for a in chosen]}
    fail = lambda k, c, o, e, case=case: ctx.fail(k, c, case, observed=o, expected=e)  # noqa: E731
    mir = Mirror()
    # thorough: the whole core is mirrored (core-level model comparison); quick: the changed assemblies only - the core level
    # is then judged by the oracle alone (atoms chain, read-back)
    full = ctx.thorough
    paths = mir.load(assems if full else chosen, extra_nucs=("PU239", "AM241", "HE4"))
    if full:
        paths[id(core)] = []
    nucs = [n for n in ("NA23", "U235", "FE56") if n in core.getNuclides()]

    def chain(tag):
        with common.quiet():
            blocks = core.getBlocks()
            vol = float(core.getVolume())
            for n in nucs[:2]:
                top = float(core.getNumberDensity(n)) * vol
                sa = sum(float(a.getNumberDensity(n)) * float(a.getVolume()) for a in assems)
                sb = sum(float(b.getNumberDensity(n)) * float(b.getVolume()) for b in blocks)
                sc = sum(float(c.getNumberDensity(n)) * float(c.getVolume()) / float(b.getSymmetryFactor())
                         for b in blocks for c in b)
                for name, v in (("assemblies", sa), ("blocks", sb), ("components", sc)):
                    if not fclose(top, v, tol=1e-8):
                        ctx.fail(f"atoms-chain-core-{name}", f"core N x V of {n} == sum over {name} (signed volumes)",
                                 dict(case, after=tag), observed=top, expected=v)
            for b in changed:
                fr = b.getVolumeFractions()
                vb = sum(float(c.getVolume()) for c in b)
                for c, f in fr:
                    if not fclose(float(f), float(c.getVolume()) / vb, scale=1e-12):
                        ctx.fail("volume-fraction-signed-block", "getVolumeFractions()[c] == V_c / V_block with the SIGNED volumes",
                                 dict(case, block=b.name, comp=c.name, after=tag), observed=float(f),
                                 expected=float(c.getVolume()) / vb)
                        break
                if not fclose(sum(float(f) for _, f in fr), 1.0):
                    ctx.fail("volume-fractions-sum-block", "volume fractions sum to one (signed volumes)",
                             dict(case, block=b.name, after=tag), observed=sum(float(f) for _, f in fr), expected=1.0)

    chain("bond made negative")
    if full:
        add_snap(ctx, mir, "core negative bond: Model/Compo vs Core", dict(case, observed_at="core"), core, [], nucs)
    for a in chosen:
        additivity(a, fail, nucs[:2])
        add_snap(ctx, mir, "core negative bond: Model/Compo vs Assembly", dict(case, assembly=a.name), a, paths[id(a)], nucs)
    for b in changed[:6]:
        additivity(b, fail, pick_nucs(rng, b, 3, extra=["NA23"]))
        add_snap(ctx, mir, "core negative bond: Model/Compo vs Block", dict(case, block=b.name), b, paths[id(b)], nucs)
        add_volfracs(ctx, mir, "core negative bond: Node.volFrac vs Block.getVolumeFractions", dict(case, block=b.name), b,
                     paths[id(b)])
    # setters: core level (one nuclide held by the negative bond, one held by the fuel), then blocks / assemblies
    for step, n0 in enumerate(nucs[:ctx.pick(1, 2)]):
        op, a_ = "setnd", {"n": n0, "v": float(core.getNumberDensity(n0)) * rng.choice([1.25, 0.75])}
        bef = {"nucs": nucs, "nd": {n: float(core.getNumberDensity(n)) for n in nucs},
               "mass": {n: float(core.getMass(n)) for n in nucs}, "rho": None, "mf": {}, "vol": float(core.getVolume()),
               "mtot": None}
        ecase = dict(case, object="core", level="core", step=step, op=op, args=a_)
        res = apply_real(core, op, a_)
        ctx.count(f"edit {op} @core (negative bond): {res}")
        ctx.case(("core-negative", op, n0), nontrivial=True)
        edit_oracle(core, op, a_, res, bef, lambda k, c, o, e, ecase=ecase: ctx.fail(k, c, ecase, observed=o, expected=e))
        if full:
            mir.emit(model_line(mir, [], op, a_), expect_result(ctx, "core negative bond: edit accepted/refused", ecase, res))
            add_snap(ctx, mir, f"core negative bond: Model/Compo vs Core after {op}", ecase, core, [], nucs)
            b0 = changed[0]
            add_snap(ctx, mir, f"core negative bond: Model/Compo vs Block after core {op}", ecase, b0, paths[id(b0)], nucs)
        else:
            # the model has not seen the core-level edit: reload the changed assemblies from the real objects
            paths = mir.load(chosen, extra_nucs=("PU239", "AM241", "HE4"))
    targets = changed[:4] + chosen
    below = {k: v for k, v in paths.items() if k != id(core)}      # (the parent chain compared after an edit stops at the assembly)
    for step in range(ctx.pick(3, 12)):
        obj = rng.choice(targets)
        op, a_ = gen_edit(rng, obj, allow_absent=False)
        do_edit(ctx, mir, below, obj, op, a_, "core negative bond", 100 + step)
    chain("core, block and assembly edits")
    run_session(ctx, mir, "core negative bond")


# --------------------------------------------------------------------------- dummy nuclides; exact-zero requests; merging
GETMASSES_KEY = "component-getmasses-ignores-symmetry-cut"


def getmasses_oracle(o, fail):
    """getMasses() (the fast per-nuclide masses) agrees with getMass(n) for every nuclide and sums to getMass(); components
    of symmetry-cut blocks are judged under their own key (defect repaired by fa646bc: it must never fire)"""
    lvl = level_of(o)
    with common.quiet():
        ms = {n: float(v) for n, v in o.getMasses().items()}
        mt = float(o.getMass())
        amb = ambiguous(o)      # element names held next to their isotopes somewhere below: getMass(name) expands them
        one = {n: float(o.getMass(n)) for n in [x for x in ms if x not in amb][:6]}
    if lvl == "assembly" and len({round(float(b.getArea()), 9) for b in o}) > 1:
        return      # Assembly.getVolume is the first block's area x height (finding assembly-volume-first-block-area)
    key = f"getmasses-{lvl}"
    if lvl == "component" and o.parent is not None and float(o.parent.getSymmetryFactor()) != 1.0:
        key = GETMASSES_KEY
    if not fclose(sum(ms.values()), mt, scale=abs(mt) * 1e-9):
        fail(key, "sum of getMasses() == getMass()", sum(ms.values()), mt)
        return
    for n, v in one.items():
        if not fclose(ms[n], v, scale=abs(mt) * 1e-9):
            fail(key, f"getMasses()[{n}] == getMass({n})", ms[n], v)
            return


def run_dump_and_zero(ctx):
    """(a) compositions carrying the dummy nuclides DUMP1 / DUMP2 (10 and 240 g/mole) with non-zero density: additivity,
    mass = density x volume = sum of the nuclide masses, setMass / addMass of them read back, the densityTools round
    trip; (b) exact-zero requests at block and assembly level: updateNumberDensities({n: 0.0}) zeroes n in every child,
    setNumberDensities resets the unlisted nuclides, changeNDensByFactor(0.0) zeroes everything; (c)
    Block.mergeWithBlock(other, f) incl. f = 1.0 (nuclides the other block lacks vanish). All through the model too."""
    from armi.reactor import grids
    from armi.utils import densityTools

    rng = random.Random(f"{ctx.prop}-{ctx.seed}-dumpzero")
    third = grids.HexGrid.fromPitch(16.0, numRings=3, symmetry="third periodic")
    label = "dump and zero"
    for idx in range(ctx.pick(2, 8)):
        try:
            with common.quiet():
                a = gen_assembly(rng, 700 + idx, third if rng.random() < 0.4 else None)
        except (ValueError, ArithmeticError):
            continue
        blocks = list(a)
        mir = Mirror()
        paths = mir.load([a], extra_nucs=("DUMP1", "DUMP2", "PU239"))
        case = {"stream": label, "assembly": idx}
        fail = lambda k, c, o, e, case=case: ctx.fail(k, c, case, observed=o, expected=e)  # noqa: E731
        step = [0]

        def edit(obj, op, args):
            step[0] += 1
            return do_edit(ctx, mir, paths, obj, op, args, label, step[0])

        # (a) dummy nuclides introduced in a component, then handled at block / assembly level
        b0 = blocks[0]
        fuel = b0.getComponentByName("fuel")
        edit(fuel, "upd", {"d": {"DUMP1": 0.0009765625, "DUMP2": 0.001953125}})
        for o in (fuel, b0, a):
            additivity(o, fail, ["DUMP1", "DUMP2"])
            add_snap(ctx, mir, f"{label}: Model/Compo vs {level_of(o)} (dummy nuclides)", dict(case, observed_at=level_of(o)),
                     o, paths[id(o)], ["DUMP1", "DUMP2"])
            getmasses_oracle(o, fail)
        for o in (fuel, b0, a):
            m1 = float(o.getMass("DUMP1"))
            edit(o, "setmass", {"n": "DUMP1", "m": 1.5 * m1 + 2.0})
            edit(o, "addmass", {"n": "DUMP2", "m": 8.0})
        rho = common.dyadic(rng, 1, 19, 3)
        mf = {"DUMP1": 0.25, "DUMP2": 0.125, "U235": 0.5, "FE56": 0.125}
        nd = densityTools.getNDensFromMasses(rho, mf)
        back = float(densityTools.calculateMassDensity(nd))
        if not fclose(back, rho):
            fail("massdensity-ndens-inverse-dummy", "calculateMassDensity(getNDensFromMasses(rho, mf)) == rho with dummy nuclides",
                 back, rho)
        ids = [mir.nid(n) for n in mf]

        def chk_nd(line, nd=nd, mf=mf):
            try:
                qs = [common.unrat(x) for x in common.parse_list(line)]
            except Exception:
                ctx.disagree(f"{label}: getNDensFromMasses with dummy nuclides", case, line, list(nd.values()))
                return
            if any(not rel_close(nd[n], q) for n, q in zip(mf, qs)):
                ctx.disagree(f"{label}: getNDensFromMasses with dummy nuclides", case, [float(q) for q in qs], list(nd.values()))

        mir.emit(f"ndfrommasses {rat(rho)} {intlist(ids)} {ratlist(list(mf.values()))}", chk_nd)
        # (b) exact-zero requests at composite level
        for o in [rng.choice(blocks), a]:
            lvl = level_of(o)
            held = [n for n in sorted(o.getNuclides()) if float(o.getNumberDensity(n)) > 0]
            if not held:
                continue
            n0 = rng.choice(held)
            res = edit(o, "upd", {"d": {n0: 0.0}})
            kids = leaves(o)
            with common.quiet():
                left = [(c.name, float(c.getNumberDensity(n0))) for c in kids if float(c.getNumberDensity(n0)) != 0.0]
            if res == "ok" and (float(o.getNumberDensity(n0)) != 0.0 or left):
                fail(f"upd-zero-{lvl}", "updateNumberDensities({n: 0.0}) zeroes n at this level and in every component below",
                     [float(o.getNumberDensity(n0)), left[:3]], 0.0)
            keep = rng.sample(held, min(2, len(held)))
            d = {n: float(o.getNumberDensity(n)) * 1.25 or 0.0009765625 for n in keep}
            res = edit(o, "setnds", {"d": d})
            with common.quiet():
                others = [(n, float(o.getNumberDensity(n))) for n in o.getNuclides() if n not in d and float(o.getNumberDensity(n)) != 0.0]
            if res == "ok" and others:
                fail(f"setnds-resets-unlisted-{lvl}", "setNumberDensities resets every nuclide it is not given", others[:3], 0.0)
            ctx.count(f"exact-zero requests @{lvl}")
        # (c) merging blocks
        if len(blocks) >= 2:
            b1, b2 = rng.sample(blocks, 2)
            with common.quiet():
                b2c = b2.getComponentByName("clad")
                if b2c is not None and rng.random() < 0.7:
                    # make the compositions differ: a nuclide only the first block holds
                    pass
            for frac in (rng.choice([0.25, 0.5]), 1.0):
                with common.quiet():
                    mine = dict(b1.getNumberDensities())
                    other = dict(b2.getNumberDensities())
                want = {n: (1.0 - frac) * mine.get(n, 0.0) + frac * other.get(n, 0.0) for n in set(mine) | set(other)}
                EPOCH[0] += 1
                try:
                    with common.quiet():
                        b1.mergeWithBlock(b2, frac)
                    res = "ok"
                except (ValueError, ZeroDivisionError):
                    res = "reject"
                mcase = dict(case, op="mergeWithBlock", fraction=frac, block=b1.name, other=b2.name)
                mir.emit(model_line(mir, paths[id(b1)], "setnds", {"d": want}),
                         expect_result(ctx, f"{label}: mergeWithBlock == setNumberDensities(mixture)", mcase, res))
                ctx.case(("merge", frac, res), nontrivial=True)
                ctx.count(f"mergeWithBlock fraction {frac:g}: {res}")
                if res == "ok":
                    with common.quiet():
                        got = {n: float(b1.getNumberDensity(n)) for n in want}
                    for n, w in want.items():
                        if not fclose(got[n], w, scale=1e-14):
                            ctx.fail("merge-with-block-mixture", "mergeWithBlock(other, f): N == (1-f) N_this + f N_other for every "
                                     "nuclide of either block (f = 1: nuclides the other block lacks vanish)",
                                     dict(mcase, nuclide=n), observed=got[n], expected=w)
                            break
                    add_snap(ctx, mir, f"{label}: Model/Compo vs block after mergeWithBlock", mcase, b1, paths[id(b1)],
                             [n for n in list(want)[:5] if n not in ambiguous(b1)])
                else:
                    run_session(ctx, mir, label)
                    paths = mir.load([a], extra_nucs=("DUMP1", "DUMP2", "PU239"))
        # changeNDensByFactor(0.0) last: everything vanishes
        for o in [rng.choice(blocks), a]:
            res = edit(o, "scale", {"f": 0.0})
            with common.quiet():
                left = [(n, float(o.getNumberDensity(n))) for n in o.getNuclides() if float(o.getNumberDensity(n)) != 0.0]
            if res == "ok" and left:
                fail(f"scale-zero-{level_of(o)}", "changeNDensByFactor(0.0) zeroes every nuclide", left[:3], 0.0)
        run_session(ctx, mir, label)


# --------------------------------------------------------------------------- composites of arbitrary depth
def tree_encode(mir, o):
    """generic composites / blocks -> `[sym,kid,..]`; components -> `L;vol;psym;[nuc..];[nd..]` (Drivers/Compo `tree`)"""
    from armi.reactor.components import Component

    if isinstance(o, Component):
        nd = o.p.numberDensities
        psym = o.parent.getSymmetryFactor() if o.parent else 1.0
        return (f"L;{rat(o.getVolume())};{rat(psym)};{intlist([mir.nid(n) for n in nd])};"
                f"{ratlist(list(nd.values()))}")
    return "[" + ",".join([rat(o.getSymmetryFactor())] + [tree_encode(mir, c) for c in o]) + "]"


def run_trees(ctx):
    """generic `composites.Composite` objects nested to a random depth (1-4 levels above the blocks) over generated
    blocks, some of them cut by symmetry (factor 3): additivity of atoms and mass and mass = density x volume at EVERY
    node, before and after composition edits at random nodes; the whole tree compared with Model/Compo `Tree`."""
    from armi.reactor import composites, grids
    from armi.reactor.components import Component

    # own generator (seeded from property + VERIF_SEED + stream name): the streams that existed before keep their draws
    rng = random.Random(f"{ctx.prop}-{ctx.seed}-trees")
    third = grids.HexGrid.fromPitch(16.0, numRings=3, symmetry="third periodic")
    for idx in range(ctx.pick(2, 10)):
        nb = rng.randint(2, 5)
        try:
            with common.quiet():
                blocks = [gen_block(rng, "tb%02d_%d" % (idx, j), common.dyadic(rng, 5, 40, 1)) for j in range(nb)]
        except (ValueError, ArithmeticError) as e:
            ctx.count(f"generated block refused by armi ({type(e).__name__})")
            continue
        counter = [0]

        def group(items, depth):
            """random nesting: composites holding composites ... holding blocks"""
            counter[0] += 1
            node = composites.Composite("n%d_%d" % (idx, counter[0]))
            if depth <= 1 or len(items) == 1:
                if rng.random() < 0.5:
                    node.spatialLocator = third[0, 0, 0]      # its blocks are the centre of a third-core grid: factor 3
                for b in items:
                    node.add(b)
                return node
            k = rng.randint(1, len(items))
            parts = [items[:k], items[k:]] if k < len(items) else [items]
            for part in parts:
                node.add(group(part, depth - 1))
            return node

        depth = rng.randint(1, 4)
        with common.quiet():
            root = group(blocks, depth)
            for b in blocks:
                b.clearCache()
                for c in b:
                    c.clearCache()
                b.getVolumeFractions()
        nodes = []

        def walk(o, lvl):
            if isinstance(o, Component):
                return
            nodes.append((o, lvl))
            for c in o:
                walk(c, lvl + 1)

        walk(root, 0)
        real_depth = max(l for _, l in nodes) + 1
        ctx.count(f"tree depth above the components {real_depth}")
        ctx.count("tree blocks cut by symmetry (factor 3)", sum(1 for b in blocks if b.getSymmetryFactor() == 3.0))
        case = {"stream": "trees", "tree": idx, "depth": real_depth, "blocks": nb,
                "cut": [b.name for b in blocks if b.getSymmetryFactor() != 1.0]}
        mir = Mirror()
        mir.emit("new")
        for n in ("U235", "U238", "ZR", "NA23", "FE", "PU239"):
            mir.nid(n)
        mir.emit(mir.phys_line())
        mir.phys_sent = len(mir.names)

        def check_all(tag):
            for o, lvl in nodes:
                nucs = pick_nucs(rng, o, 3)
                ocase = dict(case, node=o.name, level=lvl, after=tag)
                leaves = [(c, b) for b in blocks for c in b if b is o or b in o.getChildren(deep=True)]
                # hypotheses of tree_atoms_additive / tree_mass_eq_density_volume on the real objects
                if type(o) is composites.Composite and any(type(k) is composites.Composite for k in o) \
                        and float(o.getSymmetryFactor()) != 1.0:
                    ctx.disagree("Tree.SymOK: a composite that holds composites has symmetry factor 1", ocase, 1.0,
                                 float(o.getSymmetryFactor()))
                vol = float(o.getVolume())
                if not vol > 0:
                    ctx.count("tree node without volume (outside Tree.WF)")
                    continue
                vals = [vol]
                for n in nucs:
                    nd = float(o.getNumberDensity(n))
                    want = sum(float(c.getNumberDensity(n)) * float(c.getVolume()) / float(b.getSymmetryFactor())
                               for c, b in leaves)
                    if not fclose(nd * vol, want, scale=abs(want) * 1e-9):
                        ctx.fail("atoms-additive-tree", "N·V of a composite at any depth == sum over its components of "
                                 "N_c·V_c / symmetry factor of the component's block", dict(ocase, nuclide=n),
                                 observed=nd * vol, expected=want)
                    vals.append(nd)
                for n in nucs:
                    m = float(o.getMass(n))
                    want = sum(float(c.getMass(n)) for c, _ in leaves)
                    if not fclose(m, want, scale=abs(want) * 1e-9):
                        ctx.fail("mass-additive-tree", "getMass of a composite at any depth == sum of its components' getMass",
                                 dict(ocase, nuclide=n), observed=m, expected=want)
                    rho_v = float(o.getNumberDensity(n)) * vol * mir.aw(n) / mir.K
                    if not fclose(m, rho_v, scale=abs(rho_v) * 1e-9):
                        ctx.fail("mass-density-volume-tree", "mass == number density x volume x A / K at any depth",
                                 dict(ocase, nuclide=n), observed=m, expected=rho_v)
                    vals.append(m)
                for n in nucs:
                    vals.append(sum(float(c.getNumberDensity(n)) * float(c.getVolume()) / float(b.getSymmetryFactor())
                                    for c, b in leaves))

                def check(line, vals=vals, ocase=ocase):
                    try:
                        qs = [common.unrat(x) for x in common.parse_list(line)]
                    except Exception:
                        ctx.disagree("Model/Compo Tree vs nested composites", ocase, line, vals[:4])
                        return
                    if len(qs) != len(vals) or any(not rel_close(v, q, float(abs(q)) * 1e-9) for v, q in zip(vals, qs)):
                        ctx.disagree("Model/Compo Tree vs nested composites", ocase, [float(q) for q in qs][:7], vals[:7])

                mir.emit(f"tree {tree_encode(mir, o)} {intlist([mir.nid(n) for n in nucs])}", check)
                ctx.case(("tree", idx, o.name, tag), nontrivial=True)

        with common.quiet():
            check_all("built")
            # composition edits at random nodes (the generic setters of composites.py work at any depth)
            for step in range(ctx.pick(2, 6)):
                o, lvl = rng.choice(nodes)
                nucs = [n for n in pick_nucs(rng, o, 2) if float(o.getNumberDensity(n)) > 0]
                if not nucs:
                    continue
                n = nucs[0]
                kind = rng.choice(["setNumberDensity", "addMass", "leaf changeNDensByFactor"])
                EPOCH[0] += 1
                if kind == "setNumberDensity":
                    v = float(o.getNumberDensity(n)) * rng.choice([0.5, 2.0, 1.25])
                    o.setNumberDensity(n, v)
                    if not fclose(float(o.getNumberDensity(n)), v):
                        ctx.fail("setnd-readback-tree", "setNumberDensity at any depth reads back", dict(case, node=o.name, level=lvl, nuclide=n),
                                 observed=float(o.getNumberDensity(n)), expected=v)
                elif kind == "addMass":
                    m0 = float(o.getMass(n))
                    o.addMass(n, 0.25 * m0)
                    if not fclose(float(o.getMass(n)), 1.25 * m0, scale=m0 * 1e-9):
                        ctx.fail("addmass-readback-tree", "addMass at any depth changes the mass by the requested amount",
                                 dict(case, node=o.name, level=lvl, nuclide=n), observed=float(o.getMass(n)), expected=1.25 * m0)
                else:
                    b = rng.choice(blocks)
                    rng.choice(list(b)).changeNDensByFactor(rng.choice([0.5, 1.5]))
                ctx.count(f"tree edit {kind} at level {lvl}")
                check_all(f"{kind} #{step}")
        run_session(ctx, mir, "trees")


# --------------------------------------------------------------------------- adjustMassFrac
def adjust_names(nuc=None, elem=None):
    from armi.nucDirectory import nucDir

    return list(nucDir.getNuclideNames(nucName=nuc, elementSymbol=elem))


def run_adjust(ctx):
    """`adjustMassFrac` on components, blocks and assemblies of generated assemblies: the dict it hands to
    `setMassFracs` (captured) and the resulting state against Model/Compo `adjustDict` / `adjustMassFrac`; oracle:
    the adjusted nuclides' total fraction reads back, they keep their proportions, the held nuclides keep their
    fractions, the others keep their proportions, total density unchanged, fractions sum to one."""
    from armi.nucDirectory import elements
    from armi.reactor import grids

    rng = random.Random(f"{ctx.prop}-{ctx.seed}-adjust")
    third = grids.HexGrid.fromPitch(16.0, numRings=3, symmetry="third periodic")
    for idx in range(ctx.pick(2, 10)):
        try:
            with common.quiet():
                a = gen_assembly(rng, 900 + idx, third if rng.random() < 0.4 else None)
        except (ValueError, ArithmeticError):
            continue
        blocks = list(a)
        fuel_like = [c for b in blocks for c in b if c.name in ("fuel", "clad", "duct")]
        targets = [rng.choice(fuel_like), rng.choice(blocks), a, rng.choice(fuel_like), rng.choice(blocks)]
        mir = Mirror()
        paths = mir.load([a], extra_nucs=("PU239", "AM241", "HE4"))
        label = "adjustMassFrac"
        for step, obj in enumerate(targets):
            lvl = level_of(obj)
            with common.quiet():
                mf0 = dict(obj.getMassFracs())
                rho0 = dens(obj)
            present = [n for n, v in mf0.items() if v > 1e-9]
            if not present or not rho0:
                continue
            # element symbols whose isotopes (or the elemental nuclide) are present
            def sym_of_nuc(n):
                try:
                    return mir.nb.byName[n].element.symbol
                except Exception:
                    return None
            syms = sorted({s_ for s_ in (sym_of_nuc(n) for n in present) if s_})
            how = rng.choice(["nuclide", "element", "element", "nuclide-absent-mass"])
            kw = {}
            if how == "element":
                e1 = rng.choice(syms)
                kw["elementToAdjust"] = e1
                adj = adjust_names(elem=e1)
            elif how == "nuclide":
                n1 = rng.choice(present)
                kw["nuclideToAdjust"] = n1
                adj = adjust_names(nuc=n1)
            else:
                zero = [n for n, v in mf0.items() if v == 0.0]
                n1 = rng.choice(zero) if zero else rng.choice(present)
                kw["nuclideToAdjust"] = n1
                adj = adjust_names(nuc=n1)
            adj_here = [n for n in adj if n in mf0]
            hold = []
            if rng.random() < 0.6:
                # held nuclides carry at least 1e-3 of the mass: setMassFracs re-normalises them by (1 - sum of the given
                # fractions), a subtraction whose rounding error is amplified by 1/(their share) - rounding is outside the model
                rest = [n for n in present if n not in adj_here and mf0[n] >= 1e-3]
                share = {}
                for n in present:
                    if n not in adj_here:
                        share[sym_of_nuc(n)] = share.get(sym_of_nuc(n), 0.0) + mf0[n]
                rest_syms = sorted({s_ for s_, v in share.items() if s_ and v >= 1e-3} - {sym_of_nuc(n) for n in adj_here})
                if rest_syms and rng.random() < 0.5:
                    e2 = rng.choice(rest_syms)
                    kw["elementToHoldConstant"] = e2
                    hold = adjust_names(elem=e2)
                elif rest:
                    n2 = rng.choice(rest)
                    kw["nuclideToHoldConstant"] = n2
                    hold = adjust_names(nuc=n2)
            hold_here = [n for n in hold if n in mf0]
            A0 = sum(mf0[n] for n in adj_here)
            C0 = sum(mf0[n] for n in hold_here)
            room = max(0.0, 1.0 - C0)
            if 1.0 - A0 - C0 > 1e-3:
                val = rng.choice([min(A0 * 0.5, room), min(A0 * 1.25 + 0.015625, room * 0.75), 0.125 * room, 0.0, A0])
            else:
                # nothing is left to absorb a change (every nuclide is adjusted or held): only the unchanged value is a
                # feasible request
                val = A0
                ctx.count("adjustMassFrac: no remaining nuclides, value left unchanged")
            r = rng.random()
            if r < 0.08:
                val = rng.choice([1.5, -0.125])              # refused: ValueError
                how += "/invalid value"
            elif r < 0.16:
                # a nuclide that is not in the object at all: nothing can be adjusted (RuntimeError unless val == 0)
                kw.pop("elementToAdjust", None)
                kw["nuclideToAdjust"] = "XE135" if "XE135" not in mf0 else "KR85"
                adj = adjust_names(nuc=kw["nuclideToAdjust"])
                adj_here, A0 = [], 0.0
                val = rng.choice([0.0625, 0.0])
                how += "/absent nuclide"
            kw["val"] = float(val)
            case = {"stream": label, "assembly": idx, "object": str(obj.name), "level": lvl, "step": step, "args": dict(kw)}

            def fail(key, clause, observed, expected, case=case):
                ctx.fail(key, clause, case, observed=observed, expected=expected)

            # the dict handed to setMassFracs, captured on this call
            captured = {}
            orig = obj.setMassFracs

            def spy(d, captured=captured, orig=orig):
                captured["d"] = dict(d)
                return orig(d)

            obj.setMassFracs = spy
            EPOCH[0] += 1          # (densities are memoised per edit epoch)
            try:
                with common.quiet():
                    obj.adjustMassFrac(**kw)
                res = "ok"
            except (ValueError, RuntimeError, ZeroDivisionError):
                res = "reject"
            finally:
                del obj.setMassFracs
            ctx.count(f"adjustMassFrac {how} @{lvl}: {res}" + (" hold" if hold else ""))
            ctx.case(("adjust", lvl, how, bool(hold), res, "zero" if val == 0.0 else ("same" if val == A0 else "value")),
                     nontrivial=True)
            ids = lambda names: intlist([mir.nid(n) for n in names])  # noqa: E731
            pa = pth(paths[id(obj)])
            if "d" in captured:
                want = {mir.nid(k): float(v) for k, v in captured["d"].items()}

                def check_dict(line, want=want, case=case):
                    try:
                        got = {int(k): common.unrat(v) for k, v in common.parse_list(line)}
                    except Exception:
                        ctx.disagree("adjustDict vs the dict adjustMassFrac hands to setMassFracs", case, line[:200], "dict")
                        return
                    if set(got) != set(want) or any(not rel_close(want[k], got[k], 1e-12) for k in want):
                        ctx.disagree("adjustDict vs the dict adjustMassFrac hands to setMassFracs", case,
                                     {k: float(v) for k, v in list(got.items())[:6]}, dict(list(want.items())[:6]))

                mir.emit(f"adjustdict {pa} {ids(adj)} {ids(hold)} {rat(val)}", check_dict)
            mir.emit(f"adjustmf {pa} {ids(adj)} {ids(hold)} {rat(val)}",
                     expect_result(ctx, f"{label}: accepted/refused", case, res))
            if res == "ok":
                with common.quiet():
                    mf1 = dict(obj.getMassFracs())
                    rho1 = dens(obj)
                A1 = sum(mf1.get(n, 0.0) for n in adj_here)
                if not fclose(A1, val, tol=1e-8):
                    fail(f"adjustmf-readback-{lvl}", "adjustMassFrac: the adjusted nuclides' total mass fraction reads back",
                         A1, val)
                if A0 > 0 and val > 0:
                    for n in adj_here:
                        if not fclose(mf1.get(n, 0.0) * A0, mf0[n] * val, scale=1e-12, tol=1e-8):
                            fail(f"adjustmf-adjusted-proportions-{lvl}", "adjusted nuclides keep their proportions",
                                 mf1.get(n, 0.0), mf0[n] * val / A0)
                            break
                for n in hold_here:
                    if not fclose(mf1.get(n, 0.0), mf0[n], scale=1e-12, tol=1e-8):
                        fail(f"adjustmf-held-constant-{lvl}", "the nuclides to hold constant keep their mass fractions",
                             mf1.get(n, 0.0), mf0[n])
                        break
                others = [n for n in mf0 if n not in adj_here and n not in hold_here and mf0[n] > 0]
                if len(others) > 1:
                    ref_n = max(others, key=lambda n: mf0[n])
                    for n in others:
                        if not fclose(mf1.get(n, 0.0) * mf0[ref_n], mf0[n] * mf1.get(ref_n, 0.0), scale=1e-14, tol=1e-8):
                            fail(f"adjustmf-others-proportional-{lvl}", "the remaining nuclides keep their proportions",
                                 mf1.get(n, 0.0) / max(mf1.get(ref_n, 0.0), 1e-300), mf0[n] / mf0[ref_n])
                            break
                if not fclose(rho1, rho0, tol=1e-8):
                    fail(f"adjustmf-density-{lvl}", "adjustMassFrac keeps the total density", rho1, rho0)
                if not fclose(sum(mf1.values()), 1.0, tol=1e-9):
                    fail(f"adjustmf-sum-one-{lvl}", "mass fractions sum to one", sum(mf1.values()), 1.0)
                nucs = [n for n in (adj_here + hold_here + others)[:6] if n not in ambiguous(obj)]
                add_snap(ctx, mir, f"{label}: Model/Compo vs {lvl} after adjustMassFrac", case, obj, paths[id(obj)], nucs)
                if obj.parent is not None and id(obj.parent) in paths:
                    add_snap(ctx, mir, f"{label}: Model/Compo vs parent after adjustMassFrac", case, obj.parent,
                             paths[id(obj.parent)], [n for n in nucs if n not in ambiguous(obj.parent)])
                if lvl != "component":
                    kid = rng.choice(list(obj))
                    add_snap(ctx, mir, f"{label}: Model/Compo vs a child after adjustMassFrac", dict(case, child=str(kid.name)),
                             kid, paths[id(kid)], [n for n in nucs if n not in ambiguous(kid)])
                    if lvl == "assembly":
                        kid2 = rng.choice(list(kid))
                        add_snap(ctx, mir, f"{label}: Model/Compo vs a grandchild after adjustMassFrac",
                                 dict(case, child=str(kid2.name)), kid2, paths[id(kid2)],
                                 [n for n in nucs if n not in ambiguous(kid2)])
            else:
                run_session(ctx, mir, label)
                paths = mir.load([a], extra_nucs=("PU239", "AM241", "HE4"))
        run_session(ctx, mir, label)


# --------------------------------------------------------------------------- the symmetry factor itself
def run_symmetry(ctx, r):
    """HexBlock.getSymmetryFactor / Assembly.getSymmetryFactor on every block of the reference core (third-core
    periodic, edge assemblies present: factors 1, 2, 3), with the upper edge assemblies hidden from the lookup (factor 2
    -> 1), and on detached blocks - against Model/Compo hexBlockSymmetryFactor (function-level: same indices, same flags)."""
    from armi.reactor import geometry, grids

    core = r.core
    grid = core.spatialGrid
    req, chk = [], []

    def flags(b):
        try:
            symmetry = b.parent.spatialLocator.grid.symmetry
        except Exception:
            return False, False
        return True, (symmetry.domain == geometry.DomainType.THIRD_CORE
                      and symmetry.boundary == geometry.BoundaryType.PERIODIC)

    def visit(tag):
        upper = bool(core.childrenByLocator.get(grid[-1, 2, 0]))
        for a in core:
            factors = []
            for b in a:
                g, t = flags(b)
                i, j = (int(x) for x in b.spatialLocator.getCompleteIndices()[:2])
                got = float(b.getSymmetryFactor())
                factors.append(got)
                req.append(f"hexsym {'T' if g else 'F'} {'T' if t else 'F'} {i} {j} {'T' if upper else 'F'}")
                chk.append(({"stream": "symmetry factor", "state": tag, "assembly": a.name, "block": b.name, "ij": [i, j],
                             "upperEdgePresent": upper}, got))
                if got not in (1.0, 2.0, 3.0):
                    ctx.fail("symmetry-factor-range", "a block's symmetry factor is 1, 2 or 3", chk[-1][0], observed=got)
                ctx.case(("hexsym", tag, i, j), nontrivial=(i, j) == (0, 0) or got != 1.0)
                ctx.count(f"symmetry factor {got:g} ({tag})")
            if factors and float(a.getSymmetryFactor()) != factors[0]:
                ctx.fail("assembly-symmetry-factor", "Assembly.getSymmetryFactor() is its first block's", {"assembly": a.name},
                         observed=float(a.getSymmetryFactor()), expected=factors[0])

    with common.quiet():
        visit("edge assemblies present")
        # hide the upper edge assembly the code looks for: the overhanging assemblies count as full
        loc = grid[-1, 2, 0]
        hidden = core.childrenByLocator.pop(loc, None)
        try:
            visit("upper edge assembly hidden")
        finally:
            if hidden is not None:
                core.childrenByLocator[loc] = hidden
    # detached block: no parent grid at all
    from armi.reactor import blocks

    with common.quiet():
        lone = blocks.HexBlock("lone", height=1.0)
        got = float(lone.getSymmetryFactor())
    req.append("hexsym F F 0 0 F")
    chk.append(({"stream": "symmetry factor", "state": "detached block"}, got))
    model = lean_run("Compo", req)
    for line, (case, got) in zip(model, chk):
        if line in ("bad-op", "reject") or float(common.unrat(line)) != got:
            ctx.disagree("Model/Compo hexBlockSymmetryFactor vs HexBlock.getSymmetryFactor", case, line, got)
    ctx.evaluations += len(req)
    ctx.count("model requests (symmetry factor)", len(req))


def run_conversions(ctx):
    """densityTools conversions: model vs implementation and the mutual-inverse clauses."""
    from armi.nucDirectory import nuclideBases
    from armi.utils import densityTools

    rng = ctx.rng
    mir = Mirror()
    pool = ["U235", "U238", "PU239", "ZR90", "FE56", "NA23", "O16", "C", "CR52", "NI58", "B10", "HE4"]
    pool = [n for n in pool if n in nuclideBases.byName]
    for n in pool:
        mir.nid(n)
    mir.emit("new")
    mir.emit(mir.phys_line())
    mir.phys_sent = len(mir.names)
    for rep in range(ctx.pick(40, 600)):
        ns = rng.sample(pool, rng.randint(1, 6))
        nd = {n: rng.choice([common.dyadic(rng, 0, 1, 10) * 0.0625, 0.0, 1e-50, common.dyadic(rng, 0, 2, 6)]) for n in ns}
        case = {"stream": "densityTools", "nd": nd}
        ids = intlist([mir.nid(n) for n in ns])
        ctx.case(("conv", rep), nontrivial=True)
        rho = float(densityTools.calculateMassDensity(nd))
        mf = densityTools.getMassFractions(dict(nd))

        def chk_list(vals, what, case=case):
            def check(line):
                if line in ("reject", "bad-op"):
                    ctx.disagree(what, case, line, vals)
                    return
                qs = [common.unrat(x) for x in (common.parse_list(line) if line.startswith("[") else [line])]
                if len(qs) != len(vals) or any(not rel_close(v, q) for v, q in zip(vals, qs)):
                    ctx.disagree(what, case, [float(q) for q in qs], vals)
            return check

        mir.emit(f"massdensity {ids} {ratlist(list(nd.values()))}", chk_list([rho], "calculateMassDensity"))
        mir.emit(f"massfractions {ids} {ratlist(list(nd.values()))}", chk_list([mf[n] for n in ns], "getMassFractions"))
        nd2 = densityTools.getNDensFromMasses(rho, mf)
        mir.emit(f"ndfrommasses {rat(rho)} {ids} {ratlist([mf[n] for n in ns])}",
                 chk_list([nd2[n] for n in ns], "getNDensFromMasses"))
        # oracle: inverses
        if rho > 0:
            if not fclose(sum(mf.values()), 1.0):
                ctx.fail("mass-fractions-sum-conversion", "mass fractions sum to one", case, observed=sum(mf.values()))
            for n in ns:
                if not fclose(nd2[n], nd[n], scale=max(nd.values()) * 1e-12):
                    ctx.fail("ndens-massfrac-inverse", "getNDensFromMasses(rho, getMassFractions(N)) == N", case,
                             observed=nd2[n], expected=nd[n])
        n0 = ns[0]
        vol = common.dyadic(rng, 1, 500, 3)
        mass = rng.choice([0.0, common.dyadic(rng, 0, 300, 3)])
        d = float(densityTools.calculateNumberDensity(n0, mass, vol))
        back = float(densityTools.getMassInGrams(n0, vol, d))
        if not fclose(back, mass):
            ctx.fail("masses-ndens-inverse", "getMassInGrams(calculateNumberDensity(m)) == m", dict(case, n=n0, vol=vol),
                     observed=back, expected=mass)
        mir.emit(f"numberdensity {mir.nid(n0)} {rat(mass)} {rat(vol)}", chk_list([d], "calculateNumberDensity"))
        mir.emit(f"massingrams {mir.nid(n0)} {rat(vol)} {rat(d)}", chk_list([back], "getMassInGrams"))
    run_session(ctx, mir, "densityTools")


def run_derived(ctx, r):
    """DerivedShape (left-over coolant): volume/area = block max area x height - siblings, on the reference
    reactor's blocks and again after thermal expansion of a neighbour (the derived area must follow)."""
    from armi.reactor.components import DerivedShape
    from armi.materials import material

    core = r.core
    rng = ctx.rng
    SQ3 = math.sqrt(3.0)
    assems = list(core)
    cut = [a for a in assems if a.getSymmetryFactor() != 1.0]
    chosen = assems if ctx.thorough else cut[:3] + rng.sample([a for a in assems if a.getSymmetryFactor() == 1.0], 5)
    mir = Mirror()
    mir.emit("new")

    def check_block(b, case, tag):
        derived = [c for c in b if isinstance(c, DerivedShape)]
        ctx.count(f"blocks with {len(derived)} derived shape(s)")
        if len(derived) != 1:
            return
        d = derived[0]
        sibs = [c for c in b if c is not d]
        sym = float(b.getSymmetryFactor())
        amax, h = float(b.getMaxArea()), float(b.getHeight())
        dv, da = float(d.getVolume()), float(d.getArea())
        svol = [float(c.getVolume()) for c in sibs]
        sarea = [float(c.getArea()) for c in sibs]
        fail = lambda k, cl, o, e: ctx.fail(k, cl, dict(case, state=tag), observed=o, expected=e)  # noqa: E731
        tot_area = da + sum(sarea)
        if not fclose(tot_area, amax):
            fail("derived-shape-closes-area", "component areas of a block with a derived shape sum to the block's max area",
                 tot_area, amax)
        if not fclose(float(b.getVolume()) * sym, amax * h):
            fail("derived-shape-closes-volume", "block volume == max area x height / symmetry factor", float(b.getVolume()) * sym,
                 amax * h)
        if not fclose(float(b.getArea()) * sym, amax):
            fail("derived-shape-closes-area", "block area == max area / symmetry factor", float(b.getArea()) * sym, amax)
        if not fclose(float(b.getVolume()) * sym, dv + sum(svol)):
            fail("volume-additive-block", "block volume == sum of component volumes / symmetry factor", float(b.getVolume()) * sym,
                 dv + sum(svol))
        if dv < 0:
            fail("derived-shape-negative", "the derived volume is not negative", dv, ">= 0")

        def chk(vals, what):
            def check(line):
                if line in ("reject", "bad-op"):
                    ctx.disagree(what, dict(case, state=tag), line, vals)
                    return
                qs = [common.unrat(x) for x in (common.parse_list(line) if line.startswith("[") else [line])]
                if len(qs) != len(vals) or any(not rel_close(v, q, scale=amax * 1e-6) for v, q in zip(vals, qs)):
                    ctx.disagree(what, dict(case, state=tag), [float(q) for q in qs], vals)
            return check

        mir.emit(f"derived {rat(amax)} {rat(h)} {ratlist(svol)} {ratlist(sarea)}",
                 chk([dv, da], "Compo.deriveVolumeAndArea vs DerivedShape"))
        mir.emit(f"hexmaxarea {rat(SQ3)} {rat(b.getPitch())}", chk([amax], "Compo.hexMaxArea vs HexBlock.getMaxArea"))
        cold = [float(c.getArea(cold=True)) for c in sibs]
        mir.emit(f"derivedat {rat(amax)} {ratlist(cold)}",
                 chk([float(d.getArea(cold=True))], "Compo.derivedAreaAt vs DerivedShape.getComponentArea(cold=True)"))
        return da, sum(sarea), amax

    for a in chosen:
        for b in a:
            case = {"stream": "derived shape", "block": b.name, "sym": float(b.getSymmetryFactor())}
            ctx.case(("derived", b.name), nontrivial=True)
            first = check_block(b, case, "as loaded")
            if first is None:
                continue
            # thermal expansion of neighbours on a private copy: the derived area must follow
            with common.quiet():
                bc = copy.deepcopy(b)
            solids = [c for c in bc if not isinstance(c, DerivedShape) and not isinstance(c.material, material.Fluid)]
            if not solids:
                continue
            for c in rng.sample(solids, min(2, len(solids))):
                try:
                    with common.quiet():
                        c.setTemperature(float(c.temperatureInC) + rng.choice([-40.0, 75.0, 150.0]))
                except Exception:
                    continue
            try:
                second = check_block(bc, dict(case, moved=[c.name for c in solids][:2]), "after neighbour expansion")
            except RuntimeError:
                ctx.count("derived: neighbour without expansion correlation (skipped)")
                continue
            if second is not None:
                (da0, s0, m0), (da1, s1, m1) = first, second
                ctx.count("derived area followed a neighbour" if da1 != da0 else "derived area unchanged")
                if not fclose(da1 - da0, (m1 - m0) - (s1 - s0), scale=m0 * 1e-9):
                    ctx.fail("derived-shape-follows", "derived area changes by -(change of sibling areas) + (change of max area)",
                             dict(case, state="after neighbour expansion"), observed=da1 - da0, expected=(m1 - m0) - (s1 - s0))
    # excluded point: a second derived shape in the block
    try:
        with common.quiet():
            bc = copy.deepcopy(chosen[0][1])
            from armi.reactor import components

            bc.add(components.DerivedShape("coolant2", "Sodium", 450.0, 450.0))
            for c in bc:
                c.clearCache()
            v = [float(c.getVolume()) for c in bc]
        ctx.count("second derived shape: accepted (volumes computed)")
    except ValueError:
        ctx.count("second derived shape: ValueError")
    except Exception as e:
        ctx.count(f"second derived shape: {type(e).__name__}")
    run_session(ctx, mir, "derived shape")


def run_query_order(ctx, r):
    """Query-order dependence of the derived (left-over) coolant: evaluate volumes, resize a sibling, then make the
    FIRST geometry query an area / a volume / after clearCache - every order x (setTemperature | setDimension);
    afterwards the coolant volume must be fresh, the components must fill the block, the assembly/block volume
    relation must be what it was, and N x V must agree between component, block and assembly level."""
    from armi.materials import material
    from armi.reactor.components import DerivedShape
    from armi.reactor.flags import Flags

    core = r.core
    rng = ctx.rng
    cands = [a for a in core if any(isinstance(c, DerivedShape) for b in a for c in b)]
    fuels = [a for a in cands if a.hasFlags(Flags.FUEL)]
    pool = ([a for a in fuels if a.getSymmetryFactor() == 3.0][:1] + [a for a in fuels if a.getSymmetryFactor() == 1.0][:1]
            + [a for a in cands if a.getSymmetryFactor() == 2.0][:1] + rng.sample(cands, ctx.pick(1, 10)))
    orders = ["area-block-first", "area-coolant-first", "volume-first", "clearcache-first", "massfirst"]
    edits = ["setTemperature", "setDimension"]
    mir = Mirror()
    mir.emit("new")
    combos = [(o, e) for o in orders for e in edits]
    for ai, a0 in enumerate(pool):
        for (order, edit) in (combos if ctx.thorough or ai < 3 else rng.sample(combos, 4)):
            with common.quiet():
                a = copy.deepcopy(a0)
            blocks = [b for b in a if any(isinstance(c, DerivedShape) for c in b)
                      and any(type(c).__name__ == "Circle" and not isinstance(c.material, material.Fluid) for c in b)]
            if not blocks:
                ctx.count("query order: block without a resizable solid circle (skipped)")
                continue
            b = rng.choice(blocks)
            cool = [c for c in b if isinstance(c, DerivedShape)][0]
            solids = [c for c in b if c is not cool and not isinstance(c.material, material.Fluid)
                      and type(c).__name__ == "Circle"]
            if not solids:
                ctx.count("query order: block without a resizable solid circle (skipped)")
                continue
            sib = rng.choice(solids)
            case = {"stream": "query order", "assembly": a0.name, "block": b.name, "order": order, "edit": edit,
                    "sibling": sib.name}
            fail = lambda k, cl, o, e, case=case: ctx.fail(k, cl, case, observed=o, expected=e)  # noqa: E731
            ctx.case(("query-order", order, edit, type(sib).__name__), nontrivial=True)
            ctx.count(f"query order {order} x {edit}")
            # (a) evaluate volumes once
            EPOCH[0] += 1
            h = float(b.getHeight())
            v_b0, v_c0, v_a0 = float(b.getVolume()), float(cool.getVolume()), float(a.getVolume())
            rel0 = v_a0 - sum(float(x.getVolume()) for x in a)
            sibvol0 = sum(float(c.getVolume()) for c in b if c is not cool)
            own0 = float(sib.getVolume())
            # (b) resize the sibling
            try:
                with common.quiet():
                    if edit == "setTemperature":
                        sib.setTemperature(float(sib.temperatureInC) + rng.choice([60.0, 120.0, -35.0]))
                    else:
                        sib.setDimension("od", float(sib.getDimension("od", cold=True)) * rng.choice([1.015625, 0.984375]))
            except RuntimeError:
                ctx.count("query order: sibling material without expansion correlation (skipped)")
                continue
            EPOCH[0] += 1
            # (c) the first geometry query afterwards
            with common.quiet():
                if order == "area-block-first":
                    b.getArea()
                elif order == "area-coolant-first":
                    cool.getArea()
                elif order == "volume-first":
                    cool.getVolume()
                elif order == "clearcache-first":
                    b.clearCache()
                    b.getArea()
                else:
                    b.getMass()
            # (d) checks
            try:
                sib_after = [float(c.getArea()) * h for c in b if c is not cool]   # fresh areas of all siblings
            except RuntimeError:
                ctx.count("query order: sibling material without expansion correlation (skipped)")
                continue
            d_sibs = sum(sib_after) - sibvol0          # the resized sibling may push linked neighbours (gap, bond) too
            sym = float(b.getSymmetryFactor())
            amax = float(b.getMaxArea())
            v_c, a_c = float(cool.getVolume()), float(cool.getArea())
            if float(sib.getArea()) * h == own0:
                ctx.count("query order: resize had no effect on the sibling")
            if abs(d_sibs) > 1e-9 * amax * h and v_c == v_c0:
                fail("derived-volume-stale", "the derived volume is recomputed after its siblings changed", v_c, v_c0 - d_sibs)
            if not fclose(v_c, a_c * h):
                fail("derived-volume-stale", "coolant volume == coolant area x height after a sibling was resized", v_c, a_c * h)
            if not fclose(v_c, v_c0 - d_sibs, scale=amax * h * 1e-9):
                fail("derived-shape-follows", "the derived volume changes by -(change of the siblings' areas) x height", v_c - v_c0,
                     -d_sibs)
            svol = sum(float(c.getVolume()) for c in b)
            if not fclose(svol, float(b.getVolume()) * sym) or not fclose(svol, amax * h):
                fail("derived-shape-closes-volume", "the components fill the block: sum of component volumes == block volume x "
                     "symmetry factor == max area x height", svol, [float(b.getVolume()) * sym, amax * h])
            sarea = sum(float(c.getArea()) for c in b)
            if not fclose(sarea, amax) or not fclose(float(b.getArea()) * sym, amax):
                fail("derived-shape-closes-area", "component areas sum to the block's max area", [sarea, float(b.getArea()) * sym], amax)
            for c in b:
                if type(c).__name__ in ("Circle", "Hexagon", "Helix", "DerivedShape") and not fclose(float(c.getVolume()), float(c.getArea()) * h):
                    fail("component-volume-stale", "component volume == current area x height", float(c.getVolume()), float(c.getArea()) * h)
            rel1 = float(a.getVolume()) - sum(float(x.getVolume()) for x in a)
            if not fclose(rel1, rel0, scale=v_a0 * 1e-9):
                fail("assembly-volume-relation-changed", "Assembly.getVolume - sum of block volumes is what it was before the resize",
                     rel1, rel0)
            nucs = pick_nucs(rng, b, 2)
            for n in nucs:
                nv_b = float(b.getNumberDensity(n)) * float(b.getVolume()) * sym
                nv_c = sum(float(c.getNumberDensity(n)) * float(c.getVolume()) for c in b)
                if not fclose(nv_b, nv_c, tol=1e-8):
                    fail("atoms-additive-block", f"N x V of {n}: block == sum of components", nv_b, nv_c)
                nv_a = float(a.getNumberDensity(n)) * sum(float(x.getVolume()) for x in a)
                nv_bs = sum(float(x.getNumberDensity(n)) * float(x.getVolume()) for x in a)
                if not fclose(nv_a, nv_bs, tol=1e-8):
                    fail("atoms-additive-assembly", f"N x V of {n}: assembly == sum of blocks", nv_a, nv_bs)
            additivity(b, fail, nucs)
            # correspondence: the derived remainder from the FRESH sibling values, and the mirrored accounting
            sibs = [c for c in b if c is not cool]
            vals = [v_c, a_c]

            def check(line, vals=vals, case=case, amax=amax):
                if line in ("reject", "bad-op"):
                    ctx.disagree("Compo.deriveVolumeAndArea vs DerivedShape after resize", case, line, vals)
                    return
                qs = [common.unrat(x) for x in common.parse_list(line)]
                if any(not rel_close(v, q, scale=amax * 1e-6) for v, q in zip(vals, qs)):
                    ctx.disagree("Compo.deriveVolumeAndArea vs DerivedShape after resize", case, [float(q) for q in qs], vals)

            mir.emit(f"derived {rat(amax)} {rat(h)} {ratlist([float(c.getVolume()) for c in sibs])} "
                     f"{ratlist([float(c.getArea()) for c in sibs])}", check)
            paths = mir.load([a], extra_nucs=())
            add_snap(ctx, mir, "query order: Model/Compo vs block after resize", case, b, paths[id(b)], nucs)
            add_snap(ctx, mir, "query order: Model/Compo vs assembly after resize", case, a, paths[id(a)], nucs)
    run_session(ctx, mir, "query order")


def run_structure(ctx, r):
    """structural edits of an assembly's block list (insert a block, remove a middle block, change a block height),
    each WITHOUT and WITH re-meshing (calculateZCoords): the assembly's volume must stay first-block area x the sum of
    the CURRENT block heights, and the accounting (N x V, mass = density x volume, setMass read-back) must follow"""
    from armi.reactor.flags import Flags

    core = r.core
    rng = ctx.rng
    fuels = [a for a in core if a.hasFlags(Flags.FUEL) and len(a) >= 4]
    pool = [a for a in fuels if a.getSymmetryFactor() == 3.0][:1] + rng.sample([a for a in fuels if a.getSymmetryFactor() == 1.0],
                                                                               ctx.pick(1, 6))
    kinds = ["insert", "remove-middle", "setHeight", "raw-height-param"]
    mir = Mirror()
    for ai, a0 in enumerate(pool):
        for kind in kinds:
            for remesh in (False, True):
                if not ctx.thorough and (ai > 0 and (remesh or kind != "insert")
                                         or ai == 0 and remesh and kind in ("remove-middle", "setHeight")):
                    continue
                with common.quiet():
                    a = copy.deepcopy(a0)
                    for b_ in a:
                        b_.clearCache()   # a detached copy has symmetry factor 1: cached areas of a cut assembly are void
                EPOCH[0] += 1
                case = {"stream": "structure", "assembly": a0.name, "edit": kind, "remesh": remesh}
                fail = lambda k, cl, o, e, case=case: ctx.fail(k, cl, case, observed=o, expected=e)  # noqa: E731
                v0 = float(a.getVolume())   # evaluate once before the edit (caches, z-parameters)
                try:
                    with common.quiet():
                        if kind == "insert":
                            nb = copy.deepcopy(a[1])
                            nb.setName(nb.name + "x")
                            a.insert(2, nb)
                            nb.clearCache()    # the block-area cache must be cleared by whoever re-parents a block (documented)
                        elif kind == "remove-middle":
                            a.remove(a[2])
                        elif kind == "setHeight":
                            a[1].setHeight(float(a[1].getHeight()) * 1.5)
                        else:
                            a[1].p.height = float(a[1].getHeight()) * 1.5
                            a[1].clearCache()
                            for c in a[1]:
                                c.clearCache()
                        if remesh:
                            a.calculateZCoords()
                except Exception as e:
                    ctx.count(f"structure: {kind} refused ({type(e).__name__})")
                    continue
                EPOCH[0] += 1
                ctx.case(("structure", kind, remesh), nontrivial=True)
                ctx.count(f"structure {kind} remesh={remesh}")
                blocks = list(a)
                hsum = sum(float(b.getHeight()) for b in blocks)
                vol = float(a.getVolume())
                want = float(blocks[0].getArea()) * hsum
                if not fclose(vol, want):
                    fail("assembly-volume-stale-z", "Assembly.getVolume() == first block's area x sum of the current block heights",
                         vol, want)
                if not fclose(float(a.getTotalHeight()), hsum):
                    fail("assembly-height-stale-z", "getTotalHeight() == sum of the current block heights", float(a.getTotalHeight()), hsum)
                bsum = sum(float(b.getVolume()) for b in blocks)
                equal = len({round(float(b.getArea()), 8) for b in blocks}) == 1
                for b in blocks:
                    if not fclose(float(b.getVolume()), float(b.getArea()) * float(b.getHeight())):
                        fail("block-volume-stale-height", "block volume == block area x current height", float(b.getVolume()),
                             float(b.getArea()) * float(b.getHeight()))
                        break
                if equal and not fclose(vol, bsum):
                    fail("volume-additive-assembly", "assembly volume == sum of block volumes (equal block areas)", vol, bsum)
                nucs = [n for n in ("U235", "NA23", "FE56") if n in a.getNuclides()]
                for n in nucs:
                    nv = float(a.getNumberDensity(n)) * bsum
                    kv = sum(float(b.getNumberDensity(n)) * float(b.getVolume()) for b in blocks)
                    if not fclose(nv, kv, tol=1e-8):
                        fail("atoms-additive-assembly", f"N x V of {n}: assembly == sum of blocks after the structural edit", nv, kv)
                if equal and not fclose(float(a.getMass()), dens(a) * vol, tol=1e-8):
                    fail("mass-density-volume-assembly", "assembly mass == density x volume after the structural edit",
                         float(a.getMass()), dens(a) * vol)
                # correspondence on the edited assembly, then a mass edit through the standard machinery
                paths = mir.load([a], extra_nucs=())
                add_snap(ctx, mir, "structure: Model/Compo vs assembly", case, a, paths[id(a)], nucs)
                for b in blocks[:3]:
                    add_snap(ctx, mir, "structure: Model/Compo vs block", dict(case, block=b.name), b, paths[id(b)], nucs[:2])
                if equal and nucs:
                    do_edit(ctx, mir, paths, a, "setmass", {"n": nucs[0], "m": 1000.0}, "structure", 0)
    run_session(ctx, mir, "structure")


def run_findings(ctx, r):
    """excluded points listed in findings.d/C02.txt: shown to still reproduce on the real code."""
    from armi.reactor.flags import Flags

    core = r.core
    # F5: assembly volume uses the first block's area
    a = copy.deepcopy([x for x in core if x.getSymmetryFactor() == 1.0 and x.hasFlags(Flags.FUEL)][0])
    b = a[1]
    cool = [c for c in b if type(c).__name__ == "DerivedShape"]
    if cool:
        with common.quiet():
            b.remove(cool[0])
            b.clearCache()
        vol = float(a.getVolume())
        sb = sum(float(x.getVolume()) for x in a)
        ctx.case(("F5",), nontrivial=True)
        if not fclose(vol, sb):
            ctx.fail("assembly-volume-first-block-area", "assembly volume == sum of block volumes",
                     {"assembly": a.name, "edit": "derived coolant removed from block 1",
                      "block_areas": [float(x.getArea()) for x in a]}, observed=vol, expected=sb)
    # component-level setMass in a symmetry-cut block (repaired in /repo b5b7bad: an ordinary oracle clause now)
    ca = [x for x in core if x.getSymmetryFactor() == 3.0]
    if ca:
        blk = ca[0][1]
        c = blk[0]
        n = c.getNuclides()[0]
        with common.quiet():
            c.setMass(n, 100.0)
        got = float(c.getMass(n))
        ctx.case(("setmass-cut",), nontrivial=True)
        if not fclose(got, 100.0):
            ctx.fail("setmass-readback-component", "setMass(n, m) reads back m at the same level",
                     {"assembly": ca[0].name, "block": blk.name, "component": c.name, "nuclide": n,
                      "symmetry_factor": float(blk.getSymmetryFactor())}, observed=got, expected=100.0)


def guarded(ctx, name, fn):
    """an exception escaping from the real accounting API on a valid object is a failure of the property's
    implementation (with the traceback tail as the observation), not an infrastructure error"""
    import traceback

    try:
        fn()
    except common.Infra:
        raise
    except Exception as e:
        tb = traceback.extract_tb(e.__traceback__)
        inside = [f"{fr.filename.split('/armi/')[-1]}:{fr.lineno} {fr.name}" for fr in tb if "/armi/" in fr.filename]
        if not inside:
            raise
        ctx.fail("accounting-call-raises", "mass / density / number-density queries and edits do not raise on valid objects",
                 {"stream": name, "where": inside[-3:]}, observed=repr(e)[:300])


def run(ctx):
    with common.scratch_dir():
        try:
            r = make_reference(ctx)
        except common.Infra:
            raise
        except Exception as e:
            # armi refuses its own shipped reference input (e.g. its block-area consistency check)
            ctx.fail("reference-reactor-load-raises", "the shipped reference reactor loads and its blocks are consistent",
                     {"stream": "reference core"}, observed=repr(e)[:400])
            guarded(ctx, "densityTools", lambda: run_conversions(ctx))
            guarded(ctx, "generated", lambda: run_generated(ctx))
            guarded(ctx, "trees", lambda: run_trees(ctx))
            guarded(ctx, "negative gap", lambda: run_negative_gap(ctx))
            guarded(ctx, "dump and zero", lambda: run_dump_and_zero(ctx))
            guarded(ctx, "adjustMassFrac", lambda: run_adjust(ctx))
            return
        guarded(ctx, "densityTools", lambda: run_conversions(ctx))
        guarded(ctx, "reference core", lambda: run_core(ctx, r))
        guarded(ctx, "assemblies", lambda: run_assemblies(ctx, r))
        guarded(ctx, "void-and-refill", lambda: run_zero_refill(ctx, r))
        guarded(ctx, "generated", lambda: run_generated(ctx))
        guarded(ctx, "trees", lambda: run_trees(ctx))
        guarded(ctx, "negative gap", lambda: run_negative_gap(ctx))
        guarded(ctx, "dump and zero", lambda: run_dump_and_zero(ctx))
        guarded(ctx, "adjustMassFrac", lambda: run_adjust(ctx))
        guarded(ctx, "symmetry factor", lambda: run_symmetry(ctx, r))
        guarded(ctx, "derived shape", lambda: run_derived(ctx, r))
        guarded(ctx, "query order", lambda: run_query_order(ctx, r))
        guarded(ctx, "structure", lambda: run_structure(ctx, r))
        guarded(ctx, "findings", lambda: run_findings(ctx, r))
        guarded(ctx, "core negative bond", lambda: run_core_negative(ctx, r))
    ctx.rule = ("reference third-core reactor with edge assemblies (symmetry factors 1, 2, 3): every assembly and the core "
                "compared and checked for additivity; seeded edit sequences (9 edit kinds x 4 levels, values incl. 0.0, 1e-50, "
                "identity factors, absent nuclides, refused calls) on centre / edge / ordinary assemblies, a void-and-refill "
                "script, and generated assemblies of 1-6 blocks built from real shape classes (Circle, Helix, Hexagon, "
                "Rectangle, Triangle, HoledHexagon, Square, DerivedShape) x library materials, detached or at the centre of a "
                "third-core grid; derived (left-over) shapes of the reference blocks, as loaded and after thermal expansion "
                "of a neighbour; query-order scripts (volumes evaluated, a sibling of the derived coolant resized by setTemperature "
                "or setDimension, first query afterwards = block area / coolant area / volume / after clearCache / mass); "
                "structural edits of an assembly's block list (insert, remove, height change; with and without re-meshing); "
                "assemblies whose blocks hold a slightly negative / exactly zero / positive Void gap (fuel set or heated past the "
                "clad's inner diameter): signed volume fractions, additivity and seeded edits at block and assembly level; "
                "dummy nuclides DUMP1 / DUMP2 with non-zero density, exact-zero requests at block and assembly level, "
                "Block.mergeWithBlock incl. fraction 1.0; the reference core with negative / zero sodium bonds in centre, edge "
                "and ordinary assemblies (core-level read-back and atoms chain); generic composites nested 1-4 levels deep over generated blocks (some cut by symmetry) compared node by node "
                "with the arbitrary-depth Tree model, before and after edits at random nodes; adjustMassFrac (nuclide / element "
                "to adjust, optional nuclide / element held constant, values incl. 0 and unchanged) at component, block and "
                "assembly level, its setMassFracs argument captured and compared with the model's; "
                "densityTools conversions on random compositions. distinct = object (read-only comparisons) / edit combination; "
                "each is a real API call compared with the model after the edit and judged by the oracle. For edits, "
                "distinct counts the (level, edit kind, value class [zero / trace / value / absent nuclide / empty / identity / "
                "shrink / grow], symmetry factor, object type, accepted-or-refused) combinations actually exercised; the "
                "'combo ...' histogram entries give the number of edits per combination.")


def search(ctx, disagreements, broken):
    """Directed search on the real code: the oracle clauses (additivity, read-back, frame, mass fractions)
    are re-evaluated under fresh edit sequences on the streams named by the disagreements (all cheap streams when
    none is named; the whole-core stream only when a core-level comparison disagreed)."""
    sub = type(ctx)(ctx.prop, "quick", ctx.seed + 1000)
    streams = {str((d.case or {}).get("stream", "")) if isinstance(d.case, dict) else "" for d in disagreements}
    known = {f["key"] for f in common.load_findings()["finding"] if f["property"] == ctx.prop}

    def unknown():
        return [f for f in sub.failures if f.key not in known]

    with common.scratch_dir():
        r = make_reference(sub)
        guarded(sub, "void-and-refill", lambda: run_zero_refill(sub, r))
        guarded(sub, "assemblies", lambda: run_assemblies(sub, r))
        if not unknown() or any(s.startswith("generated") for s in streams):
            guarded(sub, "generated", lambda: run_generated(sub))
        if any(s.startswith("trees") for s in streams) or not unknown():
            guarded(sub, "trees", lambda: run_trees(sub))
        if any(s.startswith("negative gap") for s in streams) or not unknown():
            guarded(sub, "negative gap", lambda: run_negative_gap(sub))
        if any(s.startswith("dump and zero") for s in streams) or not unknown():
            guarded(sub, "dump and zero", lambda: run_dump_and_zero(sub))
        if any(s.startswith("adjustMassFrac") for s in streams) or not unknown():
            guarded(sub, "adjustMassFrac", lambda: run_adjust(sub))
        if any(s.startswith("reference core") for s in streams) and not unknown():
            guarded(sub, "reference core", lambda: run_core(sub, r))
        guarded(sub, "densityTools", lambda: run_conversions(sub))
    return [f for f in sub.failures]


def replay(ctx, payload):
    key = payload["key"]
    sub = type(ctx)(ctx.prop, payload.get("tier", "quick"), int(payload.get("seed", 0)))
    run(sub)
    hit = [f for f in sub.failures if f.key == key]
    return hit[0].to_json() if hit else None
