"""C03 - thermal expansion conserves mass per unit height and scales dimensions.

Theorems: lean/ArmiVerif/Props/C03.lean (any expansion curve, any shape class, any temperature history; the component
and the block of linked components as state machines WITH their caches: any history of queries, temperature changes,
material swaps and dimension edits) and
lean/ArmiVerif/Props/C03Gen.lean (the regenerated THERMAL_EXPANSION_DIMS table equals the sets the
homogeneity lemmas were proved for).
Tie: every 2-D shape class x every material class of armi.materials (solids with a correlation: expansion;
solids without: the documented RuntimeError; fluids/Custom: fixed dimensions) x seeded temperature histories
inside each material's validity range.  The material's measured linearExpansionPercent(T) is fed to the
model as its parameter; factors, hot dimensions, areas, number densities and link resolution are compared
(1e-9).  Oracle: mass per unit height, area ratio = factor^2, dimension = cold x factor, path independence,
hot read-back, links follow, fluids fixed - evaluated on the real components.
"""
import importlib
import inspect
import math
import os
import pkgutil

from harness import common
from harness.common import Failure, lean_run, rat, ratlist

PROP_MODULES = ["ArmiVerif.Props.C03", "ArmiVerif.Props.C03Gen"]
GEN_FILE = os.path.join(common.LEAN, "ArmiVerif", "Gen", "Shapes.lean")
GEN_DEPENDENTS = ["ArmiVerif.Props.C03Gen"]
PARTIAL = ("'fluids keep their dimensions' is read as: a fluid's own stored dimensions and its own temperature never "
           "change its geometry; a derived (left-over) or link-bounded fluid's AREA follows its neighbours, so its mass per "
           "unit height is not conserved (derived_mass_per_height_changes); the expansion correlations themselves are parameters (any curve with 1 + dL/L > 0); floating-point "
           "rounding is outside the theorems (comparison tolerance 1e-9); the square root in the Helix area is a "
           "parameter specified by helixRoot_scales; 3-D shapes have no expanding dimensions (checked on the "
           "regenerated table); composition-dependent expansion is not modelled: the theorems are stated for an expansion "
           "curve that is a function of temperature only, and the run measures that no library material violates this")
ASSUMPTIONS = [
    "material.linearExpansionPercent(Tc) is a parameter of the model: measured on the real material object at every "
    "temperature used and checked to satisfy 100 + pct > 0",
    "expansion independent of composition: measured on every run (evidence key composition_dependent_expansion) - none of "
    "the 57 constructible classes of armi.materials changes linearExpansionPercent or getThermalExpansionDensityReduction "
    "when the component's number densities are perturbed, so the renormalisation branch of "
    "Component.updateNumberDensities / a composition-dependent setTemperature is never taken with library materials",
    "Fluid.pseudoDensity(Tc) likewise (fluid number-density factor rho1/rho0)",
    "math.pi / math.sqrt(3.0) enter the area functions as exact rational values of the doubles; math.sqrt in "
    "Helix.getComponentArea is modelled by a 1e-40 rational square root",
    "Gen/Shapes.lean is produced by harness/c03.py from the component classes' THERMAL_EXPANSION_DIMS (data only)",
    "state machines with caches (Thermal.run / Thermal.brun): the parent block's height and (block machine) its max area are "
    "constants of a history - the harness never touches the pitch-defining duct and checks getMaxArea() after every call; "
    "applyMaterialMassFracsToNumberDensities after a material swap enters the model as 'number densities replaced by these "
    "values' (its result is C02/C19 territory); linked dimensions are not part of the single-component machine (they are "
    "in the block machine)",
]
TOL = 1e-9
PI = math.pi
SQ3 = math.sqrt(3.0)

# model-side dimension order per shape (Model/Thermal.lean Shape.dims)
SHAPE_DIMS = {
    "Circle": ["od", "id", "mult"],
    "Hexagon": ["op", "ip", "mult"],
    "Rectangle": ["lengthOuter", "widthOuter", "lengthInner", "widthInner", "mult"],
    "SolidRectangle": ["lengthOuter", "widthOuter", "mult"],
    "Square": ["widthOuter", "widthInner", "mult"],
    "Triangle": ["base", "height", "mult"],
    "HoledHexagon": ["op", "holeOD", "nHoles", "mult"],
    "HexHoledCircle": ["od", "holeOP", "mult"],
    "HoledRectangle": ["lengthOuter", "widthOuter", "holeOD", "mult"],
    "HoledSquare": ["widthOuter", "holeOD", "mult"],
    "Helix": ["od", "id", "axialPitch", "helixDiameter", "mult"],
}
# the expanding dimensions the homogeneity lemmas were proved for (Model/Thermal.lean Shape.expDims)
MODEL_EXP = {
    "Circle": ["id", "od"], "Hexagon": ["ip", "op"],
    "Rectangle": ["lengthInner", "lengthOuter", "widthInner", "widthOuter"],
    "SolidRectangle": ["lengthOuter", "widthOuter"],
    "Square": ["lengthInner", "lengthOuter", "widthInner", "widthOuter"],
    "Triangle": ["base", "height"], "HoledHexagon": ["holeOD", "op"], "HexHoledCircle": ["holeOP", "od"],
    "HoledRectangle": ["holeOD", "lengthOuter", "widthOuter"], "HoledSquare": ["holeOD", "widthOuter"],
    "Helix": ["axialPitch", "helixDiameter", "id", "od"],
}


# --------------------------------------------------------------------------- regenerated table
def component_classes():
    from armi.reactor.components import component

    out = {}
    for cls in component.ComponentType.TYPES.values():
        if cls.__module__.startswith("armi.reactor.components"):
            out[cls.__name__] = cls
    return dict(sorted(out.items()))


def regenerate(ctx):
    """Write Gen/Shapes.lean (class name, is3D, sorted THERMAL_EXPANSION_DIMS) if it changed."""
    rows = []
    for name, cls in component_classes().items():
        dims = sorted(str(d) for d in cls.THERMAL_EXPANSION_DIMS)
        rows.append('  ("%s", %s, [%s])' % (name, "true" if cls.is3D else "false",
                                            ", ".join('"%s"' % d for d in dims)))
    body = ("/- REGENERATED by harness/c03.py from armi.reactor.components (THERMAL_EXPANSION_DIMS of every\n"
            "component class); data only. -/\n"
            "namespace ArmiVerif.Gen.Shapes\n\n"
            "/-- (class name, is3D, sorted THERMAL_EXPANSION_DIMS) -/\n"
            "def expansionDims : List (String × Bool × List String) := [\n" + ",\n".join(rows) + "\n]\n\n"
            "end ArmiVerif.Gen.Shapes\n")
    os.makedirs(os.path.dirname(GEN_FILE), exist_ok=True)
    old = open(GEN_FILE).read() if os.path.exists(GEN_FILE) else None
    if old != body:
        tmp = GEN_FILE + ".tmp%d" % os.getpid()
        with open(tmp, "w") as f:
            f.write(body)
        os.replace(tmp, GEN_FILE)
    return list(GEN_DEPENDENTS)


# --------------------------------------------------------------------------- materials
def material_classes():
    import armi.materials as M
    from armi.materials import material

    classes = {}
    for mi in pkgutil.iter_modules(M.__path__):
        if mi.name.startswith("test"):
            continue
        mod = importlib.import_module("armi.materials." + mi.name)
        for n, o in vars(mod).items():
            if inspect.isclass(o) and issubclass(o, material.Material) and o.__module__ == mod.__name__:
                classes[o.__name__] = o
    return dict(sorted(classes.items()))


def temp_range_c(cls):
    """validity range of the expansion correlation in C (default 25..600 C when the class states none)."""
    pv = getattr(cls, "propertyValidTemperature", {}) or {}
    rng = pv.get("linear expansion percent") or pv.get("linear expansion")
    lo, hi = 25.0, 600.0
    if rng:
        (a, b), unit = rng
        if unit == "K":
            a, b = a - 273.15, b - 273.15
        lo, hi = float(a), float(b)
        # stay strictly inside, and at temperatures where every correlation is evaluated routinely
        lo, hi = lo + 1.0, hi - 1.0
        lo = max(lo, -150.0)
        hi = min(hi, 2500.0)
    return lo, hi


def special_temps(cls):
    """exact validity bounds in C and exactly 0.0 C when it lies inside the range."""
    pv = getattr(cls, "propertyValidTemperature", {}) or {}
    rng = pv.get("linear expansion percent") or pv.get("linear expansion")
    if not rng:
        return [25.0, 600.0, 0.0]
    (a, b), unit = rng
    if unit == "K":
        a, b = a - 273.15, b - 273.15
    a, b = float(a), float(b)
    out = [max(a, -150.0), min(b, 2500.0)]
    if a <= 0.0 <= b:
        out.append(0.0)
    return out


def classify_materials(ctx):
    """-> {name: dict(cls, kind in solid|zero|fluid|skip, lo, hi)}"""
    from armi.materials import material
    from armi.materials.custom import Custom
    from armi.reactor import components

    out = {}
    for name, cls in material_classes().items():
        lo, hi = temp_range_c(cls)
        info = {"cls": cls, "lo": lo, "hi": hi, "special": special_temps(cls)}
        try:
            with common.quiet():
                m = cls()
                comp = components.Circle("probe", m, lo, lo, od=1.0, id=0.0, mult=1)
                nd = comp.getNumberDensities()
        except Exception as e:  # abstract bases and the like
            info["kind"] = "skip"
            info["why"] = repr(e)[:80]
            out[name] = info
            continue
        # does the expansion (or the density reduction of setTemperature) depend on the component's composition?
        info["composition_dependent"] = False
        try:
            with common.quiet():
                ts = [lo + (hi - lo) * k / 4.0 for k in range(5)]
                before = [float(m.linearExpansionPercent(Tc=t)) for t in ts] + \
                         [float(m.getThermalExpansionDensityReduction(ts[0], ts[k])) for k in (1, 3)]
                if nd:
                    pert = {n: v * (3.0 if i == 0 else 0.25) for i, (n, v) in enumerate(nd.items())}
                    comp.p.numberDensities = dict(pert)
                    after = [float(m.linearExpansionPercent(Tc=t)) for t in ts] + \
                            [float(m.getThermalExpansionDensityReduction(ts[0], ts[k])) for k in (1, 3)]
                    comp.p.numberDensities = dict(nd)
                    info["composition_dependent"] = before != after
        except Exception:
            pass
        if issubclass(cls, (material.Fluid, Custom)):
            info["kind"] = "fluid"
        else:
            ts = [lo + (hi - lo) * k / 24.0 for k in range(25)]
            with common.quiet():
                pcts = [float(m.linearExpansionPercent(Tc=t)) for t in ts]
            for t, p in zip(ts, pcts):
                if not (100.0 + p > 0.0):
                    ctx.fail("material-curve-nonpositive", "1 + dL/L > 0 on the validity range",
                             {"material": name, "T": t}, observed=p)
            info["kind"] = "solid" if len(set(pcts)) > 1 else "zero"
            info["has_nd"] = bool(nd)
        out[name] = info
    return out


# --------------------------------------------------------------------------- shapes
def gen_dims(rng, shape):
    d = common.dyadic
    mult = float(rng.choice([1, 1, 2, 7, 19, 61, 169, 271]))
    if shape == "Circle":
        od = d(rng, 0.5, 3)
        return dict(od=od, id=rng.choice([0.0, od * 0.5, od * 0.75]), mult=mult)
    if shape == "Hexagon":
        op = d(rng, 1, 20)
        return dict(op=op, ip=rng.choice([0.0, op * 0.5, op * 0.875]), mult=mult)
    if shape == "Rectangle":
        lo_, wo = d(rng, 1, 8), d(rng, 1, 8)
        k = rng.choice([0.0, 0.5, 0.75])
        return dict(lengthOuter=lo_, lengthInner=lo_ * k, widthOuter=wo, widthInner=wo * k, mult=mult)
    if shape == "SolidRectangle":
        return dict(lengthOuter=d(rng, 1, 8), widthOuter=d(rng, 1, 8), mult=mult)
    if shape == "Square":
        wo = d(rng, 1, 8)
        return dict(widthOuter=wo, widthInner=wo * rng.choice([0.0, 0.5, 0.75]), mult=mult)
    if shape == "Triangle":
        return dict(base=d(rng, 1, 8), height=d(rng, 1, 8), mult=mult)
    if shape == "HoledHexagon":
        op = d(rng, 4, 20)
        return dict(op=op, holeOD=op * rng.choice([0.125, 0.25]), nHoles=float(rng.choice([1, 3, 7])), mult=mult)
    if shape == "HexHoledCircle":
        od = d(rng, 2, 8)
        return dict(od=od, holeOP=od * rng.choice([0.25, 0.5, 0.75]), mult=mult)
    if shape == "HoledRectangle":
        lo_, wo = d(rng, 2, 8), d(rng, 2, 8)
        return dict(lengthOuter=lo_, widthOuter=wo, holeOD=min(lo_, wo) * rng.choice([0.25, 0.5]), mult=mult)
    if shape == "HoledSquare":
        wo = d(rng, 2, 8)
        return dict(widthOuter=wo, holeOD=wo * rng.choice([0.25, 0.5, 0.75]), mult=mult)
    if shape == "Helix":
        od = d(rng, 0.125, 1)
        return dict(od=od, id=rng.choice([0.0, od * 0.5]), axialPitch=d(rng, 10, 40), helixDiameter=d(rng, 0.5, 3),
                    mult=mult)
    raise KeyError(shape)


def build(shape, mat, tin, thot, dims):
    from armi.reactor import components

    cls = component_classes()[shape]
    if shape == "UnshapedComponent":
        return components.UnshapedComponent("c", mat, tin, thot, area=dims["area"])
    return cls("c", mat, tin, thot, **dims)


def mass_density(nd):
    from armi.utils import densityTools

    return densityTools.calculateMassDensity(nd)


def relerr(a, b):
    return abs(a - b) / max(1.0, abs(a), abs(b))


def gen_temps(rng, lo, hi, n):
    """n temperatures in [lo,hi]; a few are multiples of 0.25; all pairwise equal or >= 0.5 apart."""
    out = []
    while len(out) < n:
        t = rng.uniform(lo, hi)
        if rng.random() < 0.3:
            t = round(t * 4) / 4.0
            t = min(max(t, lo), hi)
        if all(t == u or abs(t - u) >= 0.5 for u in out):
            out.append(float(t))
    return out


# --------------------------------------------------------------------------- one solid case
def oracle_solid(case, fail, collect=None):
    """Evaluate every clause of the property on the real component for one (shape, material, dims, history).

    case: dict(shape, material, dims, tin, t0, path).  fail(key, clause, observed, expected) is called for
    each broken clause.  collect (optional) receives what the correspondence needs."""
    mats = material_classes()
    mcls = mats[case["material"]]
    shape, dims, tin, t0, path = case["shape"], case["dims"], case["tin"], case["t0"], case["path"]
    with common.quiet():
        m = mcls()
        comp = build(shape, m, tin, t0, dims)
        twin_m = mcls()
    exp_real = sorted(comp.THERMAL_EXPANSION_DIMS)
    names = SHAPE_DIMS.get(shape, [])

    def pct(t):
        return float(m.linearExpansionPercent(Tc=t))

    def snapshot():
        hot = {k: float(comp.getDimension(k)) for k in names}
        cold = {k: float(comp.getDimension(k, cold=True)) for k in names}
        return hot, cold, float(comp.getArea()), float(comp.getArea(cold=True)), dict(comp.getNumberDensities())

    p_in = pct(tin)
    hot, cold, area, area_cold, nd0 = snapshot()
    m0 = mass_density(nd0) * area
    # a library solid without a density correlation (e.g. Cu) has no mass: only the geometric clauses apply
    massless = not nd0 or not (m0 > 0)
    steps = []
    temps = [t0] + list(path)
    nd_prev = nd0
    for idx, t in enumerate(temps):
        if idx > 0:
            with common.quiet():
                comp.setTemperature(t)
        hot, cold, area, area_cold, nd = snapshot()
        f_expected = (100.0 + pct(t)) / (100.0 + p_in)
        f_real = float(comp.getThermalExpansionFactor())
        if relerr(f_real, f_expected) > TOL:
            fail("expansion-factor", "getThermalExpansionFactor == p(T)/p(Tinput)", f_real, f_expected)
        # mass per unit height
        mh = mass_density(nd) * area
        if not massless and relerr(mh / m0, 1.0) > TOL:
            fail("mass-per-height", "mass per unit height is conserved by setTemperature", mh, m0)
        # area grows by factor^2 relative to the cold area
        if relerr(area, f_expected ** 2 * area_cold) > TOL * max(1.0, abs(area)):
            fail("area-factor-squared", "hot area == factor^2 * cold area", area, f_expected ** 2 * area_cold)
        # dimensions
        for k in names:
            if cold[k] != dims[k]:
                fail("cold-dimension-changed", "the cold (input) dimension is what was input", cold[k], dims[k])
            want = dims[k] * f_expected if k in exp_real else dims[k]
            if relerr(hot[k], want) > TOL:
                fail("dimension-cold-times-factor", f"dimension {k} == cold value x factor (expanding) or cold value",
                     hot[k], want)
        # number densities: depend on the end temperature only
        scale = ((100.0 + pct(t0)) / (100.0 + pct(t))) ** 2
        for n_, v in nd.items():
            if nd0[n_] and relerr(v / nd0[n_], scale) > TOL:
                fail("number-density-path", "N(T) == N0 * (p(T0)/p(T))^2 whatever the history", v, nd0[n_] * scale)
                break
        steps.append({"T": t, "pct": pct(t), "factor": f_real, "hot": hot, "area": area, "nd": nd})
        nd_prev = nd
    # path independence against a twin taken directly to the end temperature
    with common.quiet():
        twin = build(shape, twin_m, tin, t0, dims)
        twin.setTemperature(temps[-1])
    tnd = twin.getNumberDensities()
    for n_, v in nd_prev.items():
        if tnd[n_] and relerr(v / tnd[n_], 1.0) > TOL:
            fail("path-independence", "end state depends only on the final temperature", v, tnd[n_])
            break
    for k in names:
        if relerr(float(twin.getDimension(k)), float(comp.getDimension(k))) > TOL:
            fail("path-independence", "end dimensions depend only on the final temperature",
                 float(comp.getDimension(k)), float(twin.getDimension(k)))
    # hot set read-back on every dimension
    readback = []
    for k in names:
        v = dims[k] * 1.0625 if dims[k] else 0.375
        with common.quiet():
            twin.setDimension(k, v, cold=False)
        got = float(twin.getDimension(k))
        if relerr(got, v) > TOL:
            fail("hot-dimension-readback", f"setDimension({k}, v, cold=False) reads back v", got, v)
        readback.append((k, v, got, float(twin.getDimension(k, cold=True))))
    if collect is not None:
        collect.update(dict(p_in=p_in, steps=steps, exp_real=exp_real, nd0=nd0, readback=readback,
                            f_end=float(comp.getThermalExpansionFactor())))


def oracle_unshaped(case, fail):
    mats = material_classes()
    mcls = mats[case["material"]]
    tin, t0, path, a0 = case["tin"], case["t0"], case["path"], case["dims"]["area"]
    with common.quiet():
        m = mcls()
        comp = build("UnshapedComponent", m, tin, t0, {"area": a0})
    nd0 = dict(comp.getNumberDensities())
    m0 = mass_density(nd0) * comp.getArea()
    out = []
    for t in [t0] + list(path):
        with common.quiet():
            comp.setTemperature(t)
        f = (100.0 + float(m.linearExpansionPercent(Tc=t))) / (100.0 + float(m.linearExpansionPercent(Tc=tin)))
        area = float(comp.getArea())
        if relerr(area, f * f * a0) > TOL * max(1.0, area):
            fail("area-factor-squared", "unshaped hot area == factor^2 * cold area", area, f * f * a0)
        mh = mass_density(comp.getNumberDensities()) * area
        if m0 > 0 and relerr(mh / m0, 1.0) > TOL:
            fail("mass-per-height", "mass per unit height is conserved by setTemperature (unshaped)", mh, m0)
        out.append((f, area))
    return out


# --------------------------------------------------------------------------- streams
def sys_token(comps):
    """encode [(kind, factor|None, expdims, [(name, value | ('@', j, key))])] for the driver."""
    toks = []
    for kind, factor, exp, dims in comps:
        ds = ",".join(f"{k}=@{v[1]}.{v[2]}" if isinstance(v, tuple) else f"{k}={rat(v)}" for k, v in dims)
        toks.append(";".join([kind, "_" if factor is None else rat(factor), "[" + ",".join(exp) + "]", ds]))
    return "|".join(toks)


def close_line(ctx, what, case, model_line, impl_value):
    """model rational (or reject) vs implementation float (or 'reject')."""
    if model_line in ("reject", "bad-op") or impl_value == "reject":
        if model_line != impl_value:
            ctx.disagree(what, case, model_line, impl_value)
        return
    if not common.close(impl_value, common.unrat(model_line), TOL):
        ctx.disagree(what, case, float(common.unrat(model_line)), impl_value)


def run_solids(ctx, mats):
    shapes = list(SHAPE_DIMS)
    solids = [n for n, i in mats.items() if i["kind"] == "solid" and i.get("has_nd")]
    npaths = ctx.pick(6, 40)
    req, chk = [], []   # request lines and (kind, case, impl value / list)
    for shape in shapes:
        for mname in solids:
            info = mats[mname]
            for rep in range(npaths):
                rng = ctx.rng
                lo, hi = info["lo"], info["hi"]
                plen = rng.randint(1, 8)
                temps = gen_temps(rng, lo, hi, plen + 2)
                if rng.random() < 0.15:
                    temps[1] = temps[0]          # starts at the input temperature (factor exactly 1)
                if plen >= 3 and rng.random() < 0.3:
                    temps[-1] = temps[2]          # history revisits a temperature
                # exact validity bounds and exactly 0.0 C, visited and then left again
                sp = info["special"][(rep + len(req)) % len(info["special"])] if rep % 3 != 2 else None
                if sp is not None:
                    pos = rng.randrange(0, len(temps))
                    if all(sp == u or abs(sp - u) >= 0.5 for u in temps):
                        temps[pos] = sp
                        ctx.count("history visits exactly 0.0 C" if sp == 0.0 else "history visits an exact validity bound")
                case = dict(shape=shape, material=mname, dims=gen_dims(rng, shape), tin=temps[0], t0=temps[1],
                            path=temps[2:])
                got = {}

                def fail(key, clause, observed, expected, case=case):
                    ctx.fail(key, clause, case, observed=observed, expected=expected)

                try:
                    oracle_solid(case, fail, got)
                except Exception as e:  # the real code refuses an in-range case
                    ctx.fail("solid-expansion-raises", "expansion inside the validity range does not raise", case,
                             observed=repr(e)[:300])
                    continue
                ctx.case((shape, mname, rep), nontrivial=True,
                         sample={"case": case, "end_factor": got.get("f_end")} if (shape, rep) == ("Helix", 0) and mname == solids[0] else None)
                ctx.count(f"shape {shape}")
                if not got:
                    continue
                names = SHAPE_DIMS[shape]
                p_in = got["p_in"]
                # correspondence 1: factor at every visited temperature
                for st in got["steps"]:
                    same = abs(st["T"] - case["tin"]) <= 1e-10
                    req.append(f"factor S {rat(st['pct'])} {rat(p_in)} {'T' if same else 'F'}")
                    chk.append(("factor", case, st["factor"]))
                # correspondence 2: number densities along the history
                nucs = sorted(got["nd0"])
                req.append(f"path {ratlist([s['pct'] for s in got['steps']])} {ratlist([got['nd0'][n] for n in nucs])}")
                chk.append(("path", case, [got["steps"][-1]["nd"][n] for n in nucs]))
                # correspondence 3: hot dimensions through the model's getDimension with ITS expansion table
                last = got["steps"][-1]
                comp = ("S", last["factor"], MODEL_EXP[shape], [(k, case["dims"][k]) for k in names])
                tok = sys_token([comp])
                for k in names:
                    req.append(f"getdim {tok} 0 {k} F")
                    chk.append(("getdim", dict(case, dim=k), last["hot"][k]))
                # correspondence 4: area function on the real hot dimensions
                req.append(f"area {shape} {rat(PI)} {rat(SQ3)} {ratlist([last['hot'][k] for k in names])}")
                chk.append(("area", case, last["area"]))
                # correspondence 5: hot set + read back (hot and cold)
                k, v, got_hot, got_cold = got["readback"][rng.randrange(len(names))]
                req.append(f"setdim {tok} 0 {k} {rat(v)} F F")
                chk.append(("setdim", dict(case, dim=k, v=v), got_hot))
                req.append(f"setdim {tok} 0 {k} {rat(v)} F T")
                chk.append(("setdim-cold", dict(case, dim=k, v=v), got_cold))
    # unshaped components: area = factor^2 * cold area
    for mname in solids:
        info = mats[mname]
        temps = gen_temps(ctx.rng, info["lo"], info["hi"], 4)
        case = dict(shape="UnshapedComponent", material=mname, dims={"area": common.dyadic(ctx.rng, 1, 9)},
                    tin=temps[0], t0=temps[1], path=temps[2:])

        def fail(key, clause, observed, expected, case=case):
            ctx.fail(key, clause, case, observed=observed, expected=expected)

        try:
            res = oracle_unshaped(case, fail)
        except Exception as e:
            ctx.fail("solid-expansion-raises", "expansion inside the validity range does not raise", case,
                     observed=repr(e)[:300])
            continue
        ctx.case(("UnshapedComponent", mname), nontrivial=True)
        ctx.count("shape UnshapedComponent")
        f, area = res[-1]
        req.append(f"unshaped {rat(f)} {rat(case['dims']['area'])}")
        chk.append(("unshaped", case, area))
    model = lean_run("Thermal", req)
    for line, (kind, case, val) in zip(model, chk):
        if kind == "path":
            try:
                qs = [common.unrat(x) for x in common.parse_list(line)]
            except Exception:
                ctx.disagree("Thermal.runPath vs setTemperature history", case, line, val)
                continue
            if len(qs) != len(val) or any(not common.close(v, q, TOL) and relerr(v / float(q), 1.0) > TOL
                                          for v, q in zip(val, qs)):
                ctx.disagree("Thermal.runPath vs setTemperature history", case, [float(q) for q in qs], val)
        else:
            close_line(ctx, f"Thermal.{kind} vs component", case, line, val)
    ctx.evaluations += len(req)
    ctx.count("model requests (solids)", len(req))
    if req:
        ctx.samples.append({"request": req[0][:300], "model": model[0], "impl": chk[0][2]})
    return solids


def run_zero_and_fluids(ctx, mats):
    """solids without a correlation raise RuntimeError once the temperature differs from the input temperature;
    fluids and Custom keep their dimensions (and their area)."""
    from armi.reactor import components

    req, chk = [], []
    shapes = list(SHAPE_DIMS)
    for mname, info in mats.items():
        if info["kind"] not in ("zero", "fluid"):
            continue
        for shape in (shapes if ctx.thorough else ctx.rng.sample(shapes, 5)):
            rng = ctx.rng
            temps = gen_temps(rng, 50.0, 500.0, 3)
            dims = gen_dims(rng, shape)
            case = dict(shape=shape, material=mname, dims=dims, tin=temps[0], t0=temps[1], path=temps[2:])
            names = SHAPE_DIMS[shape]
            try:
                with common.quiet():
                    m = info["cls"]()
                    comp = build(shape, m, temps[0], temps[0], dims)
                    a_same = float(comp.getArea())
                    d_same = {k: float(comp.getDimension(k)) for k in names}
            except Exception as e:
                ctx.count(f"unconstructible {mname}")
                continue
            ctx.case((shape, mname, info["kind"]), nontrivial=True)
            ctx.count(f"material kind {info['kind']}")
            for k in names:
                if d_same[k] != dims[k]:
                    ctx.fail("dimension-at-input-temperature", "at the input temperature a dimension is its input value",
                             dict(case, dim=k), observed=d_same[k], expected=dims[k])
            with common.quiet():
                pin = float(m.linearExpansionPercent(Tc=temps[0]))
            req.append(f"factor {'F' if info['kind'] == 'fluid' else 'S'} {rat(pin)} {rat(pin)} T")
            chk.append(("factor", case, float(comp.getThermalExpansionFactor())))
            for t in temps[1:]:
                with common.quiet():
                    try:
                        comp.setTemperature(t)
                    except Exception as e:
                        ctx.fail("set-temperature-raises", "setTemperature itself does not raise", dict(case, T=t),
                                 observed=repr(e)[:200])
                        break
                    pt = float(m.linearExpansionPercent(Tc=t))
                    try:
                        f = float(comp.getThermalExpansionFactor())
                        hot = {k: float(comp.getDimension(k)) for k in names}
                        area = float(comp.getArea())
                        res = "ok"
                    except RuntimeError:
                        res, f = "reject", "reject"
                req.append(f"factor {'F' if info['kind'] == 'fluid' else 'S'} {rat(pt)} {rat(pin)} F")
                chk.append(("factor", dict(case, T=t), f))
                if info["kind"] == "fluid":
                    if res != "ok":
                        ctx.fail("fluid-dimension-raises", "a fluid/custom component can be read at any temperature",
                                 dict(case, T=t), observed=res)
                        continue
                    for k in names:
                        if hot[k] != dims[k]:
                            ctx.fail("fluid-dimension-changed", "fluids and custom materials keep their dimensions",
                                     dict(case, T=t, dim=k), observed=hot[k], expected=dims[k])
                    if relerr(area, a_same) > 1e-12:
                        ctx.fail("fluid-dimension-changed", "fluids and custom materials keep their area",
                                 dict(case, T=t), observed=area, expected=a_same)
                else:
                    # documented rejection: a solid that defines no correlation cannot be expanded
                    if res == "ok" and any(hot[k] != dims[k] for k in names):
                        ctx.fail("zero-expansion-solid-changed", "a solid without a correlation never changes dimensions",
                                 dict(case, T=t), observed=hot)
                    ctx.count(f"zero-correlation solid read: {res}")
    model = lean_run("Thermal", req)
    for line, (kind, case, val) in zip(model, chk):
        close_line(ctx, "Thermal.thermalExpansionFactor vs component (fluid / no-correlation solid)", case, line, val)
    ctx.evaluations += len(req)


LINK_CONFIGS = ["pin", "duct", "chain", "liner"]


def build_linked(cfg, rng, mats, solids):
    """A few linked-dimension configurations; returns (components in order, names)."""
    from armi.reactor import components

    def mat(n):
        return mats[n]["cls"]()

    a, b = rng.choice(solids), rng.choice(solids)
    ra, rb = mats[a], mats[b]
    ta = gen_temps(rng, ra["lo"], ra["hi"], 2)
    tb = gen_temps(rng, rb["lo"], rb["hi"], 2)
    d = common.dyadic
    if cfg == "pin":
        fuel = components.Circle("fuel", mat(a), ta[0], ta[1], od=d(rng, 0.5, 1), id=0.0, mult=float(rng.choice([1, 7, 169])))
        clad = components.Circle("clad", mat(b), tb[0], tb[1], od=1.5, id=1.25, mult="fuel.mult",
                                 components={"fuel": fuel})
        bond = components.Circle("bond", "Sodium", 450.0, 450.0, od="clad.id", id="fuel.od", mult="fuel.mult",
                                 components={"fuel": fuel, "clad": clad})
        return [fuel, clad, bond], (a, b)
    if cfg == "duct":
        duct = components.Hexagon("duct", mat(a), ta[0], ta[1], op=d(rng, 10, 16), ip=d(rng, 8, 9.5), mult=1.0)
        inter = components.Hexagon("intercoolant", "Sodium", 450.0, 450.0, op=17.0, ip="duct.op", mult=1.0,
                                   components={"duct": duct})
        liner = components.Hexagon("liner", mat(b), tb[0], tb[1], op="duct.ip", ip=d(rng, 6, 7.5), mult="duct.mult",
                                   components={"duct": duct})
        return [duct, inter, liner], (a, b)
    if cfg == "liner":
        # linker and link target with different solid materials (liner.od -> clad.id), void gap id -> fuel.od
        c3 = rng.choice(solids)
        tc = gen_temps(rng, mats[c3]["lo"], mats[c3]["hi"], 2)
        fuel = components.Circle("fuel", mat(a), ta[0], ta[1], od=d(rng, 0.5, 0.875), id=0.0, mult=7.0)
        clad = components.Circle("clad", mat(b), tb[0], tb[1], od=1.5, id=1.25, mult=7.0)
        liner = components.Circle("liner", mat(c3), tc[0], tc[1], od="clad.id", id=1.125, mult="clad.mult",
                                  components={"clad": clad})
        gap = components.Circle("gap", "Void", 20.0, 20.0, od="liner.id", id="fuel.od", mult="fuel.mult",
                                components={"fuel": fuel, "liner": liner})
        return [fuel, clad, liner, gap], (a, b)
    # chain: a link to a link
    fuel = components.Circle("fuel", mat(a), ta[0], ta[1], od=d(rng, 0.5, 1), id=0.0, mult=3.0)
    gap1 = components.Circle("gap1", "Void", 20.0, 20.0, od=1.125, id="fuel.od", mult="fuel.mult",
                             components={"fuel": fuel})
    liner = components.Circle("liner", mat(b), tb[0], tb[1], od=1.25, id="gap1.od", mult="gap1.mult",
                              components={"fuel": fuel, "gap1": gap1})
    gap2 = components.Circle("gap2", "Void", 20.0, 20.0, od=1.5, id="liner.id", mult="liner.mult",
                             components={"liner": liner})
    return [fuel, gap1, liner, gap2], (a, b)


def linked_snapshot(comps):
    """(model token, list of (i, key, hot value, cold value), link facts) for the current state."""
    from armi.materials import material
    from armi.materials.custom import Custom
    from armi.reactor.components.component import _DimensionLink

    idx = {id(c): i for i, c in enumerate(comps)}
    enc, reads, links = [], [], []
    for i, c in enumerate(comps):
        fluid = isinstance(c.material, (material.Fluid, Custom))
        try:
            factor = float(c.getThermalExpansionFactor())
        except RuntimeError:
            factor = None
        dims = []
        for k in c.DIMENSION_NAMES:
            v = c.p[k]
            if v is None:
                continue
            if isinstance(v, _DimensionLink):
                dims.append((k, ("@", idx[id(v[0])], v[1])))
                links.append((i, k, idx[id(v[0])], v[1]))
            else:
                dims.append((k, float(v)))
            reads.append((i, k))
        enc.append(("F" if fluid else "S", factor, sorted(c.THERMAL_EXPANSION_DIMS), dims))
    return sys_token(enc), reads, links


def run_links(ctx, mats, solids):
    n = ctx.pick(80, 400)
    req, chk = [], []
    for rep in range(n):
        rng = ctx.rng
        cfg = LINK_CONFIGS[rep % len(LINK_CONFIGS)]
        seed = rng.getrandbits(40)
        case = {"config": cfg, "seed": seed}
        fails = []
        try:
            data = links_case(cfg, seed, mats, solids, lambda *a: fails.append(a))
        except ArithmeticError:
            ctx.count("linked config with negative area (skipped)")
            continue
        for key, clause, obs, exp, extra in fails:
            ctx.fail(key, clause, dict(case, **extra), observed=obs, expected=exp)
        ctx.case(("links", cfg, seed), nontrivial=True, sample={"links": case, "reads": data[:2]} if rep == 0 else None)
        ctx.count(f"link config {cfg}")
        for line, extra, val in data:
            req.append(line)
            chk.append(("getdim-linked", dict(case, **extra), val))
    model = lean_run("Thermal", req)
    for line, (kind, case, val) in zip(model, chk):
        close_line(ctx, "Thermal.getDimension (links) vs component", case, line, val)
    ctx.evaluations += len(req)
    ctx.count("model requests (links)", len(req))


def links_case(cfg, seed, mats, solids, fail):
    """Build one linked configuration, move temperatures around, check 'a linked dimension equals the linked
    component's current dimension' on the real objects; returns rows for the correspondence."""
    import random

    rng = random.Random(seed)
    with common.quiet():
        comps, (a, b) = build_linked(cfg, rng, mats, solids)
    rows = []
    for step in range(4):
        if step:
            with common.quiet():
                for c, mn in ((comps[0], a), (comps[2] if cfg != "pin" else comps[1], b)):
                    info = mats[mn]
                    c.setTemperature(gen_temps(rng, info["lo"], info["hi"], 1)[0])
                if step == 2:
                    # a hot set on the link target must show through the link
                    tgt = comps[0]
                    key = "od" if cfg != "duct" else "op"
                    tgt.setDimension(key, float(tgt.getDimension(key)) * 1.03125, cold=False)
        tok, reads, links = linked_snapshot(comps)
        for (i, k, j, kk) in links:
            for cold in (False, True):
                mine = float(comps[i].getDimension(k, cold=cold))
                theirs = float(comps[j].getDimension(kk, cold=cold))
                if mine != theirs:
                    fail("linked-dimension-follows", "a linked dimension equals the linked component's current dimension",
                         mine, theirs, {"step": step, "comp": comps[i].name, "dim": k, "cold": cold})
        for (i, k) in reads:
            for cold in (False, True):
                rows.append((f"getdim {tok} {i} {k} {'T' if cold else 'F'}", {"step": step, "comp": i, "dim": k, "cold": cold},
                             float(comps[i].getDimension(k, cold=cold))))
    # getDimension(key, Tc=T): the temperature is handed down the link chain; every component is evaluated with its
    # own material at T (T inside both solids' validity ranges)
    from armi.materials import material as _material
    from armi.materials.custom import Custom as _Custom

    lo = max(mats[a]["lo"], mats[b]["lo"])
    hi = min(mats[a]["hi"], mats[b]["hi"])
    if cfg == "liner":
        others = [c.material.__class__.__name__ for c in comps if c.material.__class__.__name__ in mats
                  and mats[c.material.__class__.__name__]["kind"] == "solid"]
        lo = max([lo] + [mats[n]["lo"] for n in others])
        hi = min([hi] + [mats[n]["hi"] for n in others])
    if hi - lo > 5.0:
        Tc = gen_temps(rng, lo, hi, 1)[0]
        tok, reads, links = linked_snapshot(comps)
        facs = []
        for c in comps:
            try:
                facs.append(float(c.getThermalExpansionFactor(Tc=Tc)))
            except RuntimeError:
                facs.append(None)
        ftok = "[" + ",".join("_" if f is None else rat(f) for f in facs) + "]"
        for (i, k, j, kk) in links:
            mine = float(comps[i].getDimension(k, Tc=Tc))
            theirs = float(comps[j].getDimension(kk, Tc=Tc))
            if mine != theirs:
                fail("linked-dimension-follows", "a linked dimension read at Tc equals the link target's dimension at Tc",
                     mine, theirs, {"Tc": Tc, "comp": comps[i].name, "dim": k})
        for i, c in enumerate(comps):
            fluid = isinstance(c.material, (_material.Fluid, _Custom))
            for k in c.DIMENSION_NAMES:
                v = c.p[k]
                if v is None:
                    continue
                got = float(c.getDimension(k, Tc=Tc))
                rows.append((f"getdimtc {tok} {ftok} {i} {k}", {"Tc": Tc, "comp": i, "dim": k}, got))
                if isinstance(v, (int, float)) and not fluid and k in c.THERMAL_EXPANSION_DIMS and v:
                    m_ = c.material
                    want = float(v) * (100.0 + float(m_.linearExpansionPercent(Tc=Tc))) / (
                        100.0 + float(m_.linearExpansionPercent(Tc=c.inputTemperatureInC)))
                    if relerr(got, want) > TOL:
                        fail("dimension-at-Tc", "getDimension(key, Tc=T) == cold value x p(T)/p(Tinput)", got, want,
                             {"Tc": Tc, "comp": c.name, "dim": k})
    # setDimension through / over links: (component, key, cold, retainLink)
    ops = {"pin": [(2, "od", False, True), (2, "id", True, True), (2, "od", False, False)],
           "duct": [(2, "op", False, True), (1, "ip", True, True), (1, "ip", False, False)],
           "chain": [(2, "id", False, True), (3, "id", False, True), (1, "id", False, False)],
           "liner": [(2, "od", False, True), (3, "id", False, True), (3, "id", True, True), (3, "od", False, False),
                     (2, "id", False, False)]}[cfg]
    from armi.reactor.components.component import _DimensionLink

    for (i, key, cold, retain) in ops:
        c = comps[i]
        tok, reads, links = linked_snapshot(comps)
        was_link = isinstance(c.p[key], _DimensionLink)
        target = (c.p[key][0], c.p[key][1]) if was_link else None
        cur = float(c.getDimension(key, cold=cold))
        v = cur * rng.choice([1.015625, 0.984375, 1.0])
        with common.quiet():
            c.setDimension(key, v, retainLink=retain, cold=cold)
        extra = {"op": "setDimension", "comp": c.name, "dim": key, "v": v, "cold": cold, "retainLink": retain}
        got = float(c.getDimension(key, cold=cold))
        if abs(got - v) > TOL * max(1.0, abs(v)):
            fail("set-dimension-readback",
                 "setDimension(key, v, retainLink, cold) reads back v at the same (hot/cold) level", got, v, extra)
        if was_link and retain:
            if not isinstance(c.p[key], _DimensionLink):
                fail("retain-link-dropped", "retainLink=True keeps the link", None, None, extra)
            tv = float(target[0].getDimension(target[1], cold=cold))
            if abs(tv - v) > TOL * max(1.0, abs(v)):
                fail("linked-dimension-follows", "a set through a retained link lands on the link target", tv, v, extra)
        if was_link and not retain and isinstance(c.p[key], _DimensionLink):
            fail("link-not-dropped", "setDimension without retainLink replaces the link by the value", None, None, extra)
        idx = {id(x): n for n, x in enumerate(comps)}
        queries = [(i, key)] + ([(idx[id(target[0])], target[1])] if was_link else [])
        for (qi, qk) in queries:
            for rc in (False, True):
                rows.append((f"setdimat {tok} {i} {key} {rat(v)} {'T' if cold else 'F'} {'T' if retain else 'F'} "
                             f"{qi} {qk} {'T' if rc else 'F'}", dict(extra, query=[qi, qk], readCold=rc),
                             float(comps[qi].getDimension(qk, cold=rc))))
    return rows


def chain_case(seed, mats, solids, fail):
    """Chained links A -> B -> C (and a 3-hop chain); the MIDDLE of the chain is then edited (link replaced by a
    value, hot set, re-linked to another target) with temperature changes in between.  Links are judged against the
    DECLARED targets kept by this function, not against what the components store."""
    import random

    from armi.materials import material as _material
    from armi.materials.custom import Custom as _Custom
    from armi.reactor import components
    from armi.reactor.components.component import _DimensionLink

    rng = random.Random(seed)
    a, b, c3 = (rng.choice(solids) for _ in range(3))

    def mat(n):
        return mats[n]["cls"]()

    def temps(n, k):
        return gen_temps(rng, mats[n]["lo"], mats[n]["hi"], k)

    ta, tb, tc = temps(a, 2), temps(b, 8), temps(c3, 8)
    with common.quiet():
        fuel = components.Circle("fuel", mat(a), ta[0], ta[1], od=common.dyadic(rng, 0.5, 0.75, 4), id=0.0, mult=7.0)
        clad = components.Circle("clad", mat(b), tb[0], tb[1], od=1.5, id=1.25, mult=7.0)
        liner = components.Circle("liner", mat(c3), tc[0], tc[1], od="clad.id", id=1.0, mult="clad.mult",
                                  components={"clad": clad})                      # B, built before A
        interface = components.Circle("interface", "Void", 20.0, 20.0, od="clad.id", id="liner.od", mult="liner.mult",
                                      components={"clad": clad, "liner": liner})  # A -> B -> C
        gap2 = components.Circle("gap2", "Void", 20.0, 20.0, od=1.375, id="interface.id", mult="interface.mult",
                                 components={"interface": interface})             # 3 hops
    comps = [fuel, clad, liner, interface, gap2]
    declared = {(2, "od"): (1, "id"), (2, "mult"): (1, "mult"), (3, "od"): (1, "id"), (3, "id"): (2, "od"),
                (3, "mult"): (2, "mult"), (4, "id"): (3, "id"), (4, "mult"): (3, "mult")}
    lo = max(mats[n]["lo"] for n in (a, b, c3))
    hi = min(mats[n]["hi"] for n in (a, b, c3))
    rows = []

    def token(Tc=None):
        enc = []
        for i, c in enumerate(comps):
            fluid = isinstance(c.material, (_material.Fluid, _Custom))
            try:
                f = float(c.getThermalExpansionFactor(Tc=Tc)) if Tc is not None else float(c.getThermalExpansionFactor())
            except RuntimeError:
                f = None
            dims = []
            for k in c.DIMENSION_NAMES:
                v = c.p[k]
                if v is None:
                    continue
                if (i, k) in declared:
                    j, kk = declared[(i, k)]
                    dims.append((k, ("@", j, kk)))
                elif isinstance(v, _DimensionLink):
                    fail("link-not-dropped", "setDimension without retainLink replaces the link by the value", None, None,
                         {"comp": c.name, "dim": k})
                    dims.append((k, float(c.getDimension(k, cold=True))))
                else:
                    dims.append((k, float(v)))
            enc.append(("F" if fluid else "S", f, sorted(c.THERMAL_EXPANSION_DIMS), dims))
        return enc

    def check(tag):
        Tc = gen_temps(rng, lo, hi, 1)[0] if hi - lo > 5.0 else None
        tok = sys_token(token())
        for (i, k), (j, kk) in declared.items():
            modes = [("hot", {}), ("cold", {"cold": True})] + ([("Tc", {"Tc": Tc})] if Tc is not None else [])
            for name, kw in modes:
                mine = float(comps[i].getDimension(k, **kw))
                theirs = float(comps[j].getDimension(kk, **kw))
                if mine != theirs:
                    fail("linked-dimension-follows", "a linked dimension equals the CURRENT dimension of the component it was "
                         "declared linked to", mine, theirs, {"after": tag, "comp": comps[i].name, "dim": k, "read": name})
        for i, c in enumerate(comps):
            for k in c.DIMENSION_NAMES:
                if c.p[k] is None:
                    continue
                for cold in (False, True):
                    rows.append((f"getdim {tok} {i} {k} {'T' if cold else 'F'}", {"after": tag, "comp": i, "dim": k, "cold": cold},
                                 float(c.getDimension(k, cold=cold))))
        if Tc is not None:
            enc = token(Tc)
            ftok = "[" + ",".join("_" if e[1] is None else rat(e[1]) for e in enc) + "]"
            for i, c in enumerate(comps):
                for k in c.DIMENSION_NAMES:
                    if c.p[k] is not None:
                        rows.append((f"getdimtc {tok} {ftok} {i} {k}", {"after": tag, "comp": i, "dim": k, "Tc": Tc},
                                     float(c.getDimension(k, Tc=Tc))))

    step = [2]

    def heat():
        with common.quiet():
            clad.setTemperature(tb[step[0]])
            liner.setTemperature(tc[step[0]])
        step[0] += 1

    check("built")
    heat()
    check("chain intact, temperatures changed")
    # replace B's link by its own value (cold or hot), no retainLink
    cold = rng.random() < 0.5
    v = float(liner.getDimension("od", cold=cold)) * rng.choice([0.984375, 1.0, 1.015625])
    with common.quiet():
        liner.setDimension("od", v, cold=cold)
    del declared[(2, "od")]
    got = float(liner.getDimension("od", cold=cold))
    if relerr(got, v) > TOL:
        fail("set-dimension-readback", "setDimension reads back at the same (hot/cold) level", got, v, {"comp": "liner", "cold": cold})
    check("middle link replaced by a value")
    heat()
    check("middle link replaced, temperatures changed")
    heat()
    check("middle link replaced, temperatures changed twice")
    # a hot set on B reads back through A (and through the 3-hop chain)
    v2 = float(liner.getDimension("od")) * 1.0078125
    with common.quiet():
        liner.setDimension("od", v2, cold=False)
    for c, k in ((interface, "id"), (gap2, "id")):
        got = float(c.getDimension(k))
        if relerr(got, v2) > TOL:
            fail("linked-dimension-follows", "a hot set on the link target reads back through the link", got, v2,
                 {"after": "hot set on the middle", "comp": c.name, "dim": k})
    check("hot set on the middle")
    # re-link B to a different target
    with common.quiet():
        liner.setLink("od", clad, "od")
        liner.clearLinkedCache()
    declared[(2, "od")] = (1, "od")
    check("middle re-linked to another target")
    heat()
    check("middle re-linked, temperatures changed")
    # retained-link set at the end of the 3-hop chain lands on the current declared end (clad.od)
    v3 = float(gap2.getDimension("id")) * 1.00390625
    with common.quiet():
        interface.setDimension("id", v3, retainLink=True, cold=False)
    got = float(gap2.getDimension("id"))
    if relerr(got, v3) > TOL:
        fail("set-dimension-readback", "a hot set through a retained link reads back along the chain", got, v3,
             {"after": "retained set on A", "comp": "gap2", "dim": "id"})
    # (retainLink resolves ONE level: the value is stored on liner.od, replacing its link)
    if not isinstance(liner.p["od"], _DimensionLink):
        del declared[(2, "od")]
    check("retained-link set on A")
    return rows


def run_chains(ctx, mats, solids):
    n = ctx.pick(20, 200)
    req, chk = [], []
    for rep in range(n):
        seed = ctx.rng.getrandbits(40)
        case = {"chain": True, "seed": seed}
        fails = []
        rows = chain_case(seed, mats, solids, lambda *a: fails.append(a))
        for key, clause, obs, exp, extra in fails:
            ctx.fail(key, clause, dict(case, **extra), observed=obs, expected=exp)
        ctx.case(("chain", seed), nontrivial=True)
        for line, extra, val in rows:
            req.append(line)
            chk.append((dict(case, **extra), val))
    model = lean_run("Thermal", req)
    for line, (c, val) in zip(model, chk):
        close_line(ctx, "Thermal.getDimension (chained links, declared targets) vs component", c, line, val)
    ctx.evaluations += len(req)
    ctx.count("chained-link cases", n)
    ctx.count("model requests (chained links)", len(req))


def alias_case(seed, mats, solids, fail):
    """ALIASED inputs: the same number-density dict object given to several components (through
    setNumberDensities and through p.numberDensities) and the same material object given to two components; then
    setTemperature / changeNDensByFactor on ONE of them: every other component and the caller's dict stay as they
    were.  Returns correspondence rows (each component follows only its own temperature history)."""
    import random

    from armi.reactor import components

    rng = random.Random(seed)
    a = rng.choice(solids)
    info = mats[a]
    t = gen_temps(rng, info["lo"], info["hi"], 6)
    rows = []
    with common.quiet():
        shared_mat = info["cls"]()
        c1 = components.Circle("c1", info["cls"](), t[0], t[1], od=1.0, id=0.5, mult=3.0)
        c2 = components.Circle("c2", info["cls"](), t[0], t[1], od=1.25, id=0.25, mult=1.0)
        c3 = components.Hexagon("c3", info["cls"](), t[0], t[1], op=4.0, ip=3.0, mult=1.0)
        m1 = components.Circle("m1", shared_mat, t[0], t[1], od=1.0, id=0.0, mult=1.0)
        m2 = components.Circle("m2", shared_mat, t[0], t[2], od=2.0, id=1.0, mult=1.0)     # same material OBJECT
    base = dict(c1.getNumberDensities())
    if not base or not any(base.values()):
        return rows
    mode = rng.choice(["setNumberDensities", "p.numberDensities", "updateNumberDensities"])
    shared = {n: v * 1.5 for n, v in base.items()}
    caller_copy = dict(shared)
    with common.quiet():
        for c in (c1, c2, c3):
            if mode == "setNumberDensities":
                c.setNumberDensities(shared)
            elif mode == "updateNumberDensities":
                c.updateNumberDensities(shared)
            else:
                c.p.numberDensities = shared
    comps = {"c1": c1, "c2": c2, "c3": c3, "m1": m1, "m2": m2}
    temps_now = {k: float(c.temperatureInC) for k, c in comps.items()}

    def state():
        return {k: (dict(c.getNumberDensities()), float(c.getDimension("od" if k != "c3" else "op")), float(c.getArea()))
                for k, c in comps.items()}

    script = [("c1", "setTemperature", t[3]), ("c2", "changeNDensByFactor", 0.5), ("m1", "setTemperature", t[4]),
              ("c3", "setTemperature", t[5]), ("c1", "setTemperature", t[2]), ("m2", "setTemperature", t[3])]
    for (who, op, arg) in script:
        before = state()
        pct_prev = float(comps[who].material.linearExpansionPercent(Tc=temps_now[who]))
        with common.quiet():
            if op == "setTemperature":
                comps[who].setTemperature(arg)
            else:
                comps[who].changeNDensByFactor(arg)
        after = state()
        extra = {"aliasing": mode, "acted_on": who, "op": op, "arg": arg}
        if shared != caller_copy and mode != "p.numberDensities":
            fail("caller-dict-mutated", "the dict passed to setNumberDensities/updateNumberDensities is not mutated later",
                 {n: shared[n] for n in list(shared)[:2]}, {n: caller_copy[n] for n in list(shared)[:2]}, extra)
        for k in comps:
            if k == who:
                continue
            if after[k] != before[k]:
                fail("aliased-component-changed", "changing the temperature / densities of one component leaves every other "
                     "component (sharing its input dict or material object) unchanged",
                     [list(after[k][0].values())[:2], after[k][1]], [list(before[k][0].values())[:2], before[k][1]],
                     dict(extra, other=k))
        # the component acted on follows its own history (model: one step of runPath on its own densities)
        names = sorted(before[who][0])
        if op == "setTemperature":
            pct_new = float(comps[who].material.linearExpansionPercent(Tc=arg))
            temps_now[who] = float(arg)
            rows.append((f"path {ratlist([pct_prev, pct_new])} {ratlist([before[who][0][n] for n in names])}",
                         dict(extra, check="acted-on densities"), [after[who][0][n] for n in names]))
            f_exp = ((100.0 + pct_prev) / (100.0 + pct_new)) ** 2
            for n in names:
                if before[who][0][n] and relerr(after[who][0][n] / before[who][0][n], f_exp) > TOL:
                    fail("number-density-path", "setTemperature scales the component's own densities by (p(T0)/p(T))^2",
                         after[who][0][n], before[who][0][n] * f_exp, extra)
                    break
        else:
            for n in names:
                if relerr(after[who][0][n], before[who][0][n] * arg) > TOL and before[who][0][n]:
                    fail("scale-own-densities", "changeNDensByFactor scales the component's own densities", after[who][0][n],
                         before[who][0][n] * arg, extra)
                    break
    return rows


def run_aliasing(ctx, mats, solids):
    n = ctx.pick(30, 300)
    req, chk = [], []
    for rep in range(n):
        seed = ctx.rng.getrandbits(40)
        case = {"alias": True, "seed": seed}
        fails = []
        rows = alias_case(seed, mats, solids, lambda *a: fails.append(a))
        for key, clause, obs, exp, extra in fails:
            ctx.fail(key, clause, dict(case, **extra), observed=obs, expected=exp)
        ctx.case(("alias", seed), nontrivial=True)
        for line, extra, val in rows:
            req.append(line)
            chk.append((dict(case, **extra), val))
    model = lean_run("Thermal", req)
    for line, (c, val) in zip(model, chk):
        try:
            qs = [common.unrat(x) for x in common.parse_list(line)]
        except Exception:
            ctx.disagree("Thermal.runPath vs setTemperature (aliased inputs)", c, line, val)
            continue
        if len(qs) != len(val) or any(not common.close(v, q, TOL) and relerr(v / float(q), 1.0) > TOL for v, q in zip(val, qs) if q):
            ctx.disagree("Thermal.runPath vs setTemperature (aliased inputs)", c, [float(q) for q in qs], val)
    ctx.evaluations += len(req)
    ctx.count("aliasing cases", n)
    ctx.count("model requests (aliasing)", len(req))


def derived_case(seed, mats, solids, fail, count):
    """A hex block with a derived (left-over) coolant between expanding solids; returns correspondence rows."""
    import random

    from armi.reactor import blocks, components

    rng = random.Random(seed)
    a, b, c3 = (rng.choice(solids) for _ in range(3))

    def mat(n):
        return mats[n]["cls"]()

    def temps(n, k):
        return gen_temps(rng, mats[n]["lo"], mats[n]["hi"], k)

    ta, tb, tc = temps(a, 5), temps(b, 5), temps(c3, 5)
    mult = float(rng.choice([7, 19, 61]))
    with common.quiet():
        blk = blocks.HexBlock("b", height=common.dyadic(rng, 10, 30, 1))
        fuel = components.Circle("fuel", mat(a), ta[0], ta[1], od=common.dyadic(rng, 0.5, 0.75, 4), id=0.0, mult=mult)
        clad = components.Circle("clad", mat(b), tb[0], tb[1], od=1.0, id=0.875, mult=mult)
        duct = components.Hexagon("duct", mat(c3), tc[0], tc[1], op=14.0, ip=13.5, mult=1.0)
        inter = components.Hexagon("intercoolant", "Sodium", 450.0, 450.0, op=14.5, ip="duct.op", mult=1.0,
                                   components={"duct": duct})
        cool = components.DerivedShape("coolant", "Sodium", 450.0, 450.0)
        for c in (fuel, clad, duct, inter, cool):
            blk.add(c)
    sibs = [fuel, clad, duct, inter]
    rows = []
    lo = max(mats[n]["lo"] for n in (a, b, c3))
    hi = min(mats[n]["hi"] for n in (a, b, c3))
    prev = None
    for step in range(4):
        with common.quiet():
            if step:
                fuel.setTemperature(ta[step + 1])
                clad.setTemperature(tb[step + 1])
                duct.setTemperature(tc[step + 1])
            if step == 3:
                # the derived component's own temperature must not matter
                before = float(cool.getArea())
                cool.setTemperature(600.0)
                if float(cool.getArea()) != before:
                    fail("derived-area-own-temperature", "a derived fluid's own temperature does not change its area",
                         float(cool.getArea()), before, {"step": step})
            amax = float(blk.getMaxArea())
            areas = [float(c.getArea()) for c in sibs]
            got = float(cool.getArea())
            cold = [float(c.getArea(cold=True)) for c in sibs]
            gotc = float(cool.getArea(cold=True))
            nd = sum(cool.getNumberDensities().values())
        if abs(got + sum(areas) - amax) > 1e-9 * amax:
            fail("derived-shape-closes-area", "component areas of a block with a derived shape sum to the block's area",
                 got + sum(areas), amax, {"step": step})
        if abs(gotc + sum(cold) - amax) > 1e-9 * amax:
            fail("derived-shape-closes-area", "cold: derived area == max area - cold sibling areas", gotc + sum(cold), amax,
                 {"step": step, "cold": True})
        rows.append((f"derivedarea {rat(amax)} {ratlist(areas)}", {"step": step}, got))
        rows.append((f"derivedarea {rat(amax)} {ratlist(cold)}", {"step": step, "cold": True}, gotc))
        if hi - lo > 5.0:
            Tc = gen_temps(rng, lo, hi, 1)[0]
            with common.quiet():
                at = [float(c.getArea(Tc=Tc)) for c in sibs]
                gott = float(cool.getComponentArea(Tc=Tc))
            if abs(gott + sum(at) - amax) > 1e-9 * amax:
                fail("derived-shape-closes-area", "Tc: derived area == max area - sibling areas at Tc", gott + sum(at), amax,
                     {"step": step, "Tc": Tc})
            rows.append((f"derivedarea {rat(amax)} {ratlist(at)}", {"step": step, "Tc": Tc}, gott))
        if prev is not None and step < 3:
            d_area, d_nd = got - prev[0], nd - prev[2]
            if d_nd != 0.0:
                fail("derived-density-touched", "a neighbour's setTemperature leaves the derived component's densities alone",
                     nd, prev[2], {"step": step})
            want = (amax - prev[3]) - (sum(areas) - prev[1])
            if abs(d_area - want) > 1e-9 * amax:
                fail("derived-shape-follows", "derived area changes by -(change of sibling areas) + (change of max area)",
                     d_area, want, {"step": step})
            count("derived coolant: mass per height changed with a neighbour" if d_area != 0.0
                  else "derived coolant: area unchanged")
        prev = (got, sum(areas), nd, amax)
    return rows


def run_derived(ctx, mats, solids):
    n = ctx.pick(25, 250)
    req, chk = [], []
    for rep in range(n):
        seed = ctx.rng.getrandbits(40)
        case = {"derived": True, "seed": seed}
        fails = []
        try:
            rows = derived_case(seed, mats, solids, lambda *a: fails.append(a), ctx.count)
        except (ArithmeticError, ValueError) as e:
            ctx.count(f"derived block refused ({type(e).__name__})")
            continue
        for key, clause, obs, exp, extra in fails:
            ctx.fail(key, clause, dict(case, **extra), observed=obs, expected=exp)
        ctx.case(("derived", seed), nontrivial=True)
        for line, extra, val in rows:
            req.append(line)
            chk.append(dict(case, **extra))
            chk[-1]["_val"] = val
    model = lean_run("Thermal", req)
    for line, c in zip(model, chk):
        val = c.pop("_val")
        close_line(ctx, "Thermal.derivedArea vs DerivedShape.getComponentArea", c, line, val)
    ctx.evaluations += len(req)
    ctx.count("model requests (derived shape)", len(req))


# --------------------------------------------------------------------------- histories with caches and material swaps
# One component (any 2-D shape class, or the area-defined UnshapedComponent), bare or inside a HexBlock with a height,
# driven through a seeded history of PUBLIC calls: queries (which warm p.volume / block caches / anything the code
# chooses to memoise), setTemperature, setProperties (material replaced, within and across the expansion classes
# solid / Fluid / Custom) and hot/cold setDimension.  The same history goes to the model's state machine with caches
# (Model/Thermal.lean `run`), every returned value is compared, and after every call the property's clauses are
# evaluated for the CURRENT material through every read path (area, getVolume()/height, getMass()/height).
HIST_FLUIDS = ["Sodium", "LeadBismuth", "Air", "Custom", "Void", "Cs", "Potassium"]
HIST_MODES = ["bare", "block", "block-warm", "block-derived"]


def _mass_weights(names):
    from armi.utils import densityTools

    return [float(densityTools.calculateMassDensity({n: 1.0})) for n in names]


def hist_spec(seed, mats, solids, shape=None, mode=None, swaps=None):
    """-> replayable description of one history (materials, geometry, ops)."""
    import random

    rng = random.Random(seed)
    shape = shape or rng.choice(list(SHAPE_DIMS) + ["UnshapedComponent"] * 3)
    mode = mode or rng.choice(HIST_MODES)
    swaps = rng.random() < 0.6 if swaps is None else swaps
    for _ in range(50):
        nm = rng.randint(2, 3) if swaps else 1
        names = [rng.choice(solids)]
        while len(names) < nm:
            r = rng.random()
            names.append(rng.choice(solids) if r < 0.45 else rng.choice(HIST_FLUIDS))
        if swaps and rng.random() < 0.5:
            rng.shuffle(names)          # also start as a fluid/custom and become a solid
        sol = [n for n in names if n in solids]
        lo = max([mats[n]["lo"] for n in sol] + ([130.0] if len(sol) < len(names) else []))
        hi = min([mats[n]["hi"] for n in sol] + [900.0])
        if hi - lo > 60.0:
            break
    else:
        names, lo, hi = ["HT9"], 25.0, 600.0
    dims = {"area": common.dyadic(rng, 1, 9)} if shape == "UnshapedComponent" else gen_dims(rng, shape)
    nops = rng.randint(5, 12)
    temps = gen_temps(rng, lo, hi, nops + 3)
    tin, t0 = temps[0], temps[1]
    if rng.random() < 0.2:
        t0 = tin
    pool = temps[2:]
    ops, cur, ti = [], 0, 0
    keys = [k for k in SHAPE_DIMS.get(shape, [])]
    queries = ["factor", "area", "areacold", "volume", "mass", "dim", "block", "dimTc", "areaTc"]
    for i in range(nops):
        r = rng.random()
        if swaps and len(names) > 1 and r < 0.22:
            cur = rng.choice([j for j in range(len(names)) if j != cur] or [cur])
            ops.append(["swap", cur, rng.choice(["name", "object"]), rng.random() < 0.5])
        elif r < 0.55:
            ops.append(["temp", pool[ti % len(pool)]])
            ti += 1
        elif r < 0.63 and keys:
            k = rng.choice([x for x in keys if x not in ("mult", "nHoles")] or keys)
            ops.append(["sethot", k, rng.choice([1.015625, 0.984375, 1.0])])
        else:
            q = rng.choice(queries)
            ops.append(["query", q, rng.choice(keys) if (q in ("dim", "dimTc") and keys) else None,
                        rng.choice(pool) if q in ("dimTc", "areaTc") else None])
    if not any(o[0] == "temp" for o in ops):
        ops.append(["temp", pool[0]])
    if swaps and not any(o[0] == "swap" for o in ops) and len(names) > 1:
        ops.insert(rng.randrange(1, len(ops)), ["swap", 1, "name", False])
        ops.append(["temp", pool[-1]])
    return dict(shape=shape, mode=mode, materials=names, dims=dims, tin=tin, t0=t0, ops=ops,
                height=common.dyadic(rng, 1, 30, 1), check_every=rng.random() < 0.6,
                warm=(mode == "block-warm") or rng.random() < 0.5)


def hist_case(spec, mats, fail, count=lambda *_: None):
    """Run one history on the real objects; evaluate the clauses; return (request line, outputs) for the model."""
    from armi.materials import material as _material
    from armi.materials.custom import Custom as _Custom
    from armi.reactor import blocks, components

    shape, dims, tin, t0 = spec["shape"], spec["dims"], spec["tin"], spec["t0"]
    names = spec["materials"]
    in_block = spec["mode"] != "bare"
    height = float(spec["height"]) if in_block else None
    keys = list(SHAPE_DIMS.get(shape, []))

    def new_mat(n):
        return mats[n]["cls"]()

    with common.quiet():
        comp = build(shape, new_mat(names[0]), tin, t0, dims)
        blk = cool = None
        if in_block:
            blk = blocks.HexBlock("b", height=height)
            # never touched; large enough for the component whatever its expansion (derived coolant stays positive)
            op = float(max(16, math.ceil(math.sqrt(4.0 * abs(float(comp.getArea(cold=True))) / 0.8660254) + 2.0)))
            duct = components.Hexagon("duct", "HT9", 25.0, 25.0, op=op, ip=op - 1.0, mult=1.0)
            blk.add(comp)
            blk.add(duct)
            if spec["mode"] == "block-derived":
                cool = components.DerivedShape("coolant", "Sodium", 450.0, 450.0)
                blk.add(cool)
    nucs = set(comp.getNumberDensities())
    with common.quiet():
        for n in names[1:]:
            nucs |= set(components.Circle("probe", new_mat(n), tin, tin, od=1.0, id=0.0, mult=1.0).getNumberDensities())
    nucs = sorted(nucs)
    state = {"mat": 0, "T": t0}
    log = []          # (op token, output list | "reject" | None=not compared)
    all_temps = {tin, t0}

    def cur_mat():
        return comp.material

    def is_fluid():
        return isinstance(comp.material, (_material.Fluid, _Custom))

    def pct(t, m=None):
        with common.quiet():
            return float((m or comp.material).linearExpansionPercent(Tc=t))

    def f_expected():
        if is_fluid():
            return 1.0
        return (100.0 + pct(state["T"])) / (100.0 + pct(tin))

    def ndvec():
        d = comp.getNumberDensities()
        return [float(d.get(n, 0.0)) for n in nucs]

    def q(tok, fn, extra=None):
        """one public read: logged for the model, returned to the caller; a raise is logged as reject"""
        try:
            with common.quiet():
                v = fn()
            out = [float(x) for x in v] if isinstance(v, (list, tuple)) else [float(v)]
        except (RuntimeError, ValueError, ZeroDivisionError, AttributeError) as e:
            # (ArithmeticError = negative area = a geometry this generator should not have produced: the history is dropped)
            out = "reject"
            if is_fluid() or mats.get(names[state["mat"]], {}).get("kind") == "solid":
                # a fluid can be read at any temperature; a library solid with a correlation never refuses inside its range
                if not (tok in ("qV", "qM") and not in_block):
                    fail("fluid-dimension-raises" if is_fluid() else "solid-expansion-raises",
                         "a fluid/custom component can be read at any temperature" if is_fluid()
                         else "expansion inside the validity range does not raise",
                         repr(e)[:200], None, dict(extra or {}, call=tok))
        log.append((tok, out))
        return None if out == "reject" else (out if len(out) != 1 else out[0])

    def guard(tok, fn, extra=None):
        """block-level reads: not compared with the model, but they must not raise either"""
        try:
            with common.quiet():
                return fn()
        except (RuntimeError, ZeroDivisionError, AttributeError) as e:
            fail("fluid-dimension-raises" if is_fluid() else "solid-expansion-raises",
                 "a fluid/custom component can be read at any temperature" if is_fluid()
                 else "expansion inside the validity range does not raise", repr(e)[:200], None, dict(extra or {}, call=tok))
            return None

    ref = {}          # reference point of the conservation clauses: set after construction / swap / dimension edit

    def take_ref():
        with common.quiet():
            try:
                a = float(comp.getArea())
            except Exception:
                a = None
        ref.clear()
        ref.update(T=state["T"], nd=ndvec(), area=a, mat=state["mat"])
        ref["mh"] = mass_density(dict(zip(nucs, ref["nd"]))) * a if a is not None else None
        ref["steps"] = 0

    def check(step_no, op):
        """the property's clauses for the CURRENT material, through every read path"""
        extra = {"step": step_no, "after": op, "material": names[state["mat"]]}
        f = q("qF", comp.getThermalExpansionFactor, extra)
        fe = f_expected()
        if f is not None and relerr(f, fe) > TOL:
            fail("expansion-factor", "getThermalExpansionFactor == p(T)/p(Tinput) of the CURRENT material (1 for a fluid)",
                 f, fe, extra)
        exp_real = set(comp.THERMAL_EXPANSION_DIMS)
        for k in keys:
            hot = q(f"qD~{k}", lambda k=k: comp.getDimension(k), extra)
            cold = q(f"qDc~{k}", lambda k=k: comp.getDimension(k, cold=True), extra)
            if hot is None or cold is None:
                continue
            if is_fluid():
                if hot != cold:
                    fail("fluid-dimension-changed", "fluids and custom materials keep their dimensions", hot, cold,
                         dict(extra, dim=k))
            else:
                want = cold * fe if k in exp_real else cold
                if relerr(hot, want) > TOL:
                    fail("dimension-cold-times-factor", f"dimension {k} == cold value x factor of the current material",
                         hot, want, dict(extra, dim=k))
        area = q("qA", comp.getArea, extra)
        acold = q("qAc", lambda: comp.getArea(cold=True), extra)
        if area is not None and acold is not None and relerr(area, fe * fe * acold) > TOL * max(1.0, abs(area)):
            fail("area-factor-squared", "hot area == factor^2 * cold area (current material)", area, fe * fe * acold, extra)
        nd = q("qN", ndvec, extra)
        nd = nd if isinstance(nd, list) else [nd]
        md = mass_density(dict(zip(nucs, nd)))
        # conservation since the reference point (construction, last swap, last dimension edit)
        if area is not None and ref.get("area") is not None and not is_fluid() and ref["mat"] == state["mat"]:
            if ref["mh"] and relerr(md * area / ref["mh"], 1.0) > TOL:
                fail("mass-per-height", "mass per unit height (area x density) is conserved by setTemperature", md * area,
                     ref["mh"], extra)
            if not isinstance(comp.material, _Custom):
                scale = ((100.0 + pct(ref["T"])) / (100.0 + pct(state["T"]))) ** 2
                for n_, v, v0 in zip(nucs, nd, ref["nd"]):
                    if v0 and relerr(v / v0, scale) > TOL:
                        fail("number-density-path", "N(T) == N_ref * (p(T_ref)/p(T))^2 whatever the history", v, v0 * scale,
                             dict(extra, nuclide=n_))
                        break
        if in_block:
            vol = q("qV", comp.getVolume, extra)
            mass = q("qM", comp.getMass, extra)
            if vol is not None and area is not None and relerr(vol / height, area) > TOL * max(1.0, abs(area)):
                fail("volume-follows-area", "getVolume()/height == getArea(): the volume read path sees the current "
                     "temperature and material", vol / height, area, extra)
            if mass is not None and area is not None and relerr(mass / height, md * area) > TOL * max(1.0, abs(md * area)):
                fail("mass-read-paths-agree", "getMass()/height == density x area: every read path gives the same mass per "
                     "unit height", mass / height, md * area, extra)
            if mass is not None and not is_fluid() and ref.get("mh") and ref["mat"] == state["mat"] \
                    and relerr(mass / height / ref["mh"], 1.0) > TOL:
                fail("mass-per-height", "mass per unit height read through getMass() is conserved by setTemperature",
                     mass / height, ref["mh"], extra)
            got = guard("block areas", lambda: (float(blk.getMaxArea()),
                                                float(cool.getArea()) + float(comp.getArea()) + float(duct.getArea()),
                                                sum(float(c.getVolume()) for c in blk)), extra) if cool is not None else None
            if got is not None:
                amax, tot, vtot = got
                if relerr(tot, amax) > TOL:
                    fail("derived-shape-closes-area", "component areas of a block with a derived shape sum to the block's area",
                         tot, amax, extra)
                if relerr(vtot, amax * height) > TOL:
                    fail("derived-shape-closes-area", "component volumes of a block with a derived shape sum to max area x height",
                         vtot, amax * height, extra)

    def warm():
        """ordinary bookkeeping reads that fill whatever the code caches"""
        q("qV", comp.getVolume) if in_block else None
        q("qM", comp.getMass) if in_block else None
        if in_block:
            guard("block reads", lambda: (blk.getVolumeFractions(), blk.getArea(), blk.getNumberDensities()))
        q("qA", comp.getArea)

    take_ref()
    nd0 = ndvec()
    if spec["warm"]:
        warm()
    if spec["check_every"]:
        check(-1, "construction")
    for i, op in enumerate(spec["ops"]):
        kind = op[0]
        if kind == "temp":
            t = float(op[1])
            all_temps.add(t)
            with common.quiet():
                try:
                    comp.setTemperature(t)
                except Exception as e:
                    fail("set-temperature-raises", "setTemperature itself does not raise", repr(e)[:200], None,
                         {"step": i, "T": t, "material": names[state["mat"]]})
                    break
            state["T"] = t
            ref["steps"] = ref.get("steps", 0) + 1
            log.append((f"T~{rat(t)}", None))
            count("history op: setTemperature")
        elif kind == "swap":
            j, how, refill = op[1], op[2], op[3]
            was_fluid = is_fluid()
            with common.quiet():
                comp.setProperties(names[j] if how == "name" else new_mat(names[j]))
            state["mat"] = j
            log.append((f"M~{j}", None))
            if refill:
                # the usual companion of a material replacement; the model is told the resulting densities
                with common.quiet():
                    comp.applyMaterialMassFracsToNumberDensities()
                log.append((f"N~{ratlist(ndvec())}", None))
            take_ref()
            count("history op: swap %s -> %s" % ("fluid" if was_fluid else "solid", "fluid" if is_fluid() else "solid"))
        elif kind == "sethot":
            k, factor = op[1], op[2]
            with common.quiet():
                try:
                    v = float(comp.getDimension(k)) * factor
                    if not v:
                        # drilling a solid: a quarter of the matching outer dimension
                        outer = {"id": "od", "ip": "op", "lengthInner": "lengthOuter", "widthInner": "widthOuter"}.get(k)
                        v = 0.25 * float(comp.getDimension(outer)) if outer else 0.375
                    comp.setDimension(k, v, cold=False)
                    ok = True
                except (RuntimeError, ArithmeticError):
                    ok = False
            if ok:
                log.append((f"H~{k}~{rat(v)}", None))
                got = q(f"qD~{k}", lambda k=k: comp.getDimension(k))
                if got is not None and relerr(got, v) > TOL:
                    fail("hot-dimension-readback", f"setDimension({k}, v, cold=False) reads back v (current material)",
                         got, v, {"step": i, "dim": k, "material": names[state["mat"]]})
                take_ref()
                count("history op: hot setDimension")
        else:
            what, k = op[1], op[2]
            tq = float(op[3]) if len(op) > 3 and op[3] is not None else None
            if tq is not None:
                all_temps.add(tq)
            if what in ("dimTc", "areaTc") and (what == "areaTc" or k):
                # reads at an explicit temperature: the CURRENT material's curve at Tc, nothing cached
                fe_tc = 1.0 if is_fluid() else (100.0 + pct(tq)) / (100.0 + pct(tin))
                if what == "dimTc":
                    got = q(f"qDT~{k}~{rat(tq)}", lambda: comp.getDimension(k, Tc=tq))
                    cold_k = float(comp.getDimension(k, cold=True))
                    want = cold_k * fe_tc if k in comp.THERMAL_EXPANSION_DIMS else cold_k
                    if got is not None and relerr(got, want) > TOL:
                        fail("dimension-at-Tc", "getDimension(key, Tc=T) == cold value x factor(T) of the current material", got,
                             want, {"step": i, "dim": k, "Tc": tq, "material": names[state["mat"]]})
                else:
                    got = q(f"qAT~{rat(tq)}", lambda: comp.getArea(Tc=tq))
                    acold_ = float(comp.getArea(cold=True))
                    if got is not None and relerr(got, fe_tc * fe_tc * acold_) > TOL * max(1.0, abs(got)):
                        fail("area-factor-squared", "getArea(Tc=T) == factor(T)^2 * cold area (current material)", got,
                             fe_tc * fe_tc * acold_, {"step": i, "Tc": tq, "material": names[state["mat"]]})
            elif what == "factor":
                q("qF", comp.getThermalExpansionFactor)
            elif what == "area":
                q("qA", comp.getArea)
            elif what == "areacold":
                q("qAc", lambda: comp.getArea(cold=True))
            elif what == "volume" and in_block:
                q("qV", comp.getVolume)
            elif what == "mass" and in_block:
                q("qM", comp.getMass)
            elif what == "dim" and k:
                q(f"qD~{k}", lambda k=k: comp.getDimension(k))
            elif what == "block" and in_block:
                guard("block reads", lambda: (blk.getVolumeFractions(), blk.getMass()))
                q("qV", comp.getVolume)
            count("history op: query")
        if spec["check_every"]:
            check(i, op)
    check(len(spec["ops"]), "end")
    # path independence: a twin built directly with the final material at the final temperature from the same
    # cold dimensions reads the same factor, dimensions and area
    try:
        with common.quiet():
            cold_now = {k: float(comp.getDimension(k, cold=True)) for k in keys} if keys else dict(dims)
            twin = build(shape, new_mat(names[state["mat"]]), tin, state["T"], cold_now)
            pairs = [("factor", float(twin.getThermalExpansionFactor()), float(comp.getThermalExpansionFactor())),
                     ("area", float(twin.getArea()), float(comp.getArea()))]
            pairs += [(k, float(twin.getDimension(k)), float(comp.getDimension(k))) for k in keys]
        for k, a, b in pairs:
            if relerr(a, b) > TOL:
                fail("path-independence", "end state depends only on the final temperature and the current material",
                     b, a, {"what": k, "material": names[state["mat"]]})
    except (RuntimeError, ArithmeticError):
        pass
    return dict(log=log, nucs=nucs, temps=sorted(all_temps), nd0=nd0)


def hist_request(spec, mats, res):
    """the `hist` request of Drivers/Thermal.lean for one logged history"""
    from armi.materials import material as _material
    from armi.materials.custom import Custom as _Custom

    shape, dims = spec["shape"], spec["dims"]
    mtoks = []
    for n in spec["materials"]:
        m = mats[n]["cls"]()
        liquid = isinstance(m, _material.Fluid)
        k = "L" if liquid else ("C" if isinstance(m, _Custom) else "S")
        rows = []
        for t in res["temps"]:
            with common.quiet():
                p = float(m.linearExpansionPercent(Tc=t))
                try:
                    rho = float(m.pseudoDensity(Tc=t)) if liquid else 0.0
                except Exception:
                    rho = 0.0
            rows.append(f"{rat(t)}~{rat(p)}~{rat(rho)}")
        mtoks.append(";".join([k] + rows))
    if shape == "UnshapedComponent":
        sh, cold = "U", f"area={rat(dims['area'])}"
    else:
        sh, cold = shape, ",".join(f"{k}={rat(dims[k])}" for k in SHAPE_DIMS[shape])
    h = rat(spec["height"]) if spec["mode"] != "bare" else "_"
    ops = "[" + ",".join(tok for tok, _ in res["log"]) + "]"
    return (f"hist {sh} {cold} {h} 1 {rat(spec['tin'])} {rat(spec['t0'])} {ratlist(res['nd0'])} "
            f"{ratlist(_mass_weights(res['nucs']))} [{','.join(mtoks)}] {ops}")


def run_histories(ctx, mats, solids):
    """generator: (a) a structured sweep - every shape class (11 + unshaped) x {bare, block, block with warmed caches,
    block with a derived coolant} without swaps; (b) seeded histories with material swaps within and across the
    expansion classes."""
    shapes = list(SHAPE_DIMS) + ["UnshapedComponent"]
    plan = []
    for shape in shapes:
        for mode in HIST_MODES:
            plan.append((shape, mode, False))
    for shape in shapes:
        plan.append((shape, None, True))
    for _ in range(ctx.pick(150, 1500)):
        plan.append((None, None, None))
    req, chk = [], []
    fixed = corpus_seeds("hist")
    ctx.count("corpus cases (hist)", len(fixed))
    plan = [(d.get("shape"), d.get("mode"), d.get("swaps"), d["seed"]) for d in fixed] + [p + (None,) for p in plan]
    for shape, mode, swaps, fixed_seed in plan:
        seed = fixed_seed if fixed_seed is not None else ctx.rng.getrandbits(40)
        case = {"hist": True, "seed": seed, "shape": shape, "mode": mode, "swaps": swaps}
        spec = hist_spec(seed, mats, solids, shape, mode, swaps)
        fails = []
        try:
            res = hist_case(spec, mats, lambda *a: fails.append(a), ctx.count)
        except (ArithmeticError, ValueError):
            ctx.count("history refused (negative area)")
            continue
        except RuntimeError as e:
            ctx.fail("solid-expansion-raises", "a history of public calls inside the validity ranges does not raise", case,
                     observed=repr(e)[:300])
            continue
        rows = [(hist_request(spec, mats, res), res["log"])]
        for key, clause, obs, exp, extra in fails:
            ctx.fail(key, clause, dict(case, **(extra or {})), observed=obs, expected=exp)
        ctx.case(("hist", seed), nontrivial=True,
                 sample={"history": case, "spec": spec} if len(req) == 0 else None)
        ctx.count(f"history shape {spec['shape']}")
        ctx.count(f"history mode {spec['mode']}")
        for line, outs in rows:
            req.append(line)
            chk.append((case, outs))
    model = lean_run("Thermal", req)
    for line, (case, outs) in zip(model, chk):
        hist_compare(ctx, case, line, outs)
    ctx.evaluations += sum(len(o) for _, o in chk)
    ctx.count("model requests (histories)", len(req))
    ctx.count("history calls compared with the model", sum(len(o) for _, o in chk))


def hist_compare(ctx, case, line, outs, what="Thermal.run (component state machine with caches) vs the real call history"):
    try:
        got = common.parse_list(line)
    except Exception:
        ctx.disagree(what, case, line, [o for _, o in outs][:6])
        return
    if not isinstance(got, list) or len(got) != len(outs):
        ctx.disagree(what, case, line[:200], [o for _, o in outs][:6])
        return
    for idx, (g, (tok, o)) in enumerate(zip(got, outs)):
        if o is None:
            continue
        if o == "reject" or g == "reject":
            if o != g:
                ctx.disagree(what, dict(case, call=tok, index=idx), g if g == "reject" else "value", o if o == "reject" else "value")
                return
            continue
        qs = [common.unrat(x) for x in g]
        if len(qs) != len(o) or any(not common.close(v, q_, TOL) and (not q_ or relerr(v / float(q_), 1.0) > TOL)
                                    for v, q_ in zip(o, qs)):
            ctx.disagree(what, dict(case, call=tok, index=idx), [float(x) for x in qs][:4], o[:4])
            return


# --------------------------------------------------------------------------- linked dimensions x warmed volume caches
STALE_KEY = "volume-stale-behind-link-to-link"


def link_cache_case(seed, mats, solids, fail, count=lambda *_: None):
    """A pin block whose fluid annuli are bounded through dimension links (bond: id -> fuel.od, od -> liner.id; gap:
    id -> liner.od, od -> clad.id), optionally with gas-bonded pins whose dimensions are links to the bond's LINKED
    dimensions (a link to a link), a duct and a derived coolant.  Volume caches are warmed, then the solids are heated
    / hot-set / replaced one at a time; after every call, for EVERY component: getVolume()/height == getArea() and
    getMass()/height == density x area, and the component areas / volumes close the block.  Every call that can touch
    a cache is logged in order; returns the `bhist` request for Model/Thermal.lean `brun` and the logged outputs."""
    import random

    from armi.materials import material as _material
    from armi.materials.custom import Custom as _Custom
    from armi.reactor import blocks, components
    from armi.reactor.components.component import _DimensionLink

    rng = random.Random(seed)
    a, b, c3 = (rng.choice(solids) for _ in range(3))

    def mat(n):
        return mats[n]["cls"]()

    def temps(n, k):
        return gen_temps(rng, mats[n]["lo"], mats[n]["hi"], k)

    ta, tb, tc = temps(a, 6), temps(b, 6), temps(c3, 6)
    two_hop = rng.random() < 0.5
    h = common.dyadic(rng, 5, 40, 1)
    with common.quiet():
        blk = blocks.HexBlock("b", height=h)
        fuel = components.Circle("fuel", mat(a), ta[0], ta[1], od=common.dyadic(rng, 0.5, 0.75, 4), id=0.0, mult=7.0)
        liner = components.Circle("liner", mat(b), tb[0], tb[1], od=1.125, id=1.0, mult=7.0)
        clad = components.Circle("clad", mat(c3), tc[0], tc[1], od=1.5, id=1.25, mult=7.0)
        bond = components.Circle("bond", "Sodium", 450.0, 450.0, od="liner.id", id="fuel.od", mult=5.0 if two_hop else 7.0,
                                 components={"fuel": fuel, "liner": liner})
        gap = components.Circle("gap", "Sodium", 450.0, 450.0, od="clad.id", id="liner.od", mult="clad.mult",
                                components={"liner": liner, "clad": clad})
        comps = [fuel, bond, liner, gap, clad]
        if two_hop:
            # two of the seven pins are gas bonded: same annulus as the sodium bond, i.e. links to the bond's links
            gas = components.Circle("gasbond", "Air", 450.0, 450.0, od="bond.od", id="bond.id", mult=2.0,
                                    components={"bond": bond})
            comps.append(gas)
        duct = components.Hexagon("duct", "HT9", 25.0, 25.0, op=16.0, ip=15.0, mult=1.0)
        cool = components.DerivedShape("coolant", "Sodium", 450.0, 450.0)
        comps.append(duct)
        for c in comps + [cool]:
            blk.add(c)
        amax0 = float(blk.getMaxArea())
    # which components hold a link to a dimension that is itself a link (outside FlatLinks: where the sweep of the direct
    # dependents - the code before fix b30c1b1 - left a stale volume; judged under its own key, which must never fire now)
    behind_chain = set()
    for c in comps:
        for k in c.DIMENSION_NAMES:
            v = c.p[k]
            if isinstance(v, _DimensionLink) and isinstance(v[0].p[v[1]], _DimensionLink):
                behind_chain.add(c.name)
    count("link-cache block: links one level deep (FlatLinks holds)" if not behind_chain
          else "link-cache block: a link to a linked dimension (outside FlatLinks)")
    index = {id(c): i for i, c in enumerate(comps)}
    mat_names = []

    def mat_index(c):
        n = type(c.material).__name__
        if n not in mat_names:
            mat_names.append(n)
        return mat_names.index(n)

    all_temps = set()
    # the block as the model receives it (before any cache is filled)
    ctoks = []
    for c in comps:
        nd = c.getNumberDensities()
        nucs = sorted(nd)
        ds = []
        for k in c.DIMENSION_NAMES:
            v = c.p[k]
            if v is None:
                continue
            ds.append(f"{k}=@{index[id(v[0])]}.{v[1]}" if isinstance(v, _DimensionLink) else f"{k}={rat(float(v))}")
        all_temps |= {float(c.inputTemperatureInC), float(c.temperatureInC)}
        ctoks.append(";".join([type(c).__name__, str(mat_index(c)), rat(float(c.inputTemperatureInC)),
                               rat(float(c.temperatureInC)), ratlist([nd[n] for n in nucs]), ratlist(_mass_weights(nucs)),
                               ",".join(ds)]))
    log = []

    def call(tok, fn, compare=True):
        try:
            v = float(fn())
            out = [v]
        except (RuntimeError, ValueError) as e:
            v, out = None, "reject"
        log.append((tok, out if compare else None))
        return v

    def A(c):
        return call("qDA" if c is cool else f"qA~{index[id(c)]}", c.getArea)

    def V(c):
        return call("qDV" if c is cool else f"qV~{index[id(c)]}", c.getVolume)

    def M(c):
        return call("qDV" if c is cool else f"qM~{index[id(c)]}", c.getMass, compare=c is not cool)

    def warm():
        with common.quiet():
            for c in blk:
                V(c)
            blk.getVolumeFractions()
            blk.getMass()
        for _ in range(2):           # getVolumeFractions / getMass: every child's getVolume(), in order
            for c in comps:
                log.append((f"qV~{index[id(c)]}", None))
            log.append(("qDV", None))

    def check(tag):
        with common.quiet():
            stale = False
            for c in blk:
                area, vol, mass = A(c), V(c), M(c)
                if None in (area, vol, mass):
                    fail("solid-expansion-raises", "expansion inside the validity range does not raise", None, None,
                         {"after": tag, "comp": c.name})
                    continue
                md = mass_density(dict(c.getNumberDensities()))
                extra = {"after": tag, "comp": c.name, "two_hop": two_hop}
                bad_v = relerr(vol / h, area) > TOL * max(1.0, abs(area))
                bad_m = relerr(mass / h, md * area) > TOL * max(1.0, abs(md * area))
                if c.name in behind_chain and (bad_v or bad_m):
                    stale = True
                    fail(STALE_KEY, "getVolume()/height == getArea() for a component whose dimension is a link to another "
                         "component's LINKED dimension, after the end of the chain expanded", vol / h, area, extra)
                    continue
                if c is cool and stale:
                    continue        # derived from the stale sibling volume: same finding, judged below
                if bad_v:
                    fail("volume-follows-area", "getVolume()/height == getArea(): the volume read path sees the current "
                         "temperatures of the components it is linked to", vol / h, area, extra)
                if bad_m:
                    fail("mass-read-paths-agree", "getMass()/height == density x area", mass / h, md * area, extra)
            amax = float(blk.getMaxArea())
            tot = sum(A(c) or 0.0 for c in blk)
            vtot = sum(V(c) or 0.0 for c in blk)
        if amax != amax0:
            fail("derived-shape-closes-area", "the block's max area does not change when its duct is untouched", amax, amax0,
                 {"after": tag})
        for what, got, want in (("areas", tot, amax), ("volumes", vtot, amax * h)):
            if relerr(got / want, 1.0) > TOL:
                fail(STALE_KEY if stale else "derived-shape-closes-area",
                     f"component {what} of a block with a derived shape sum to the block's", got, want,
                     {"after": tag, "two_hop": two_hop})
        count("link-cache check: a dependent behind a link-to-link was stale" if stale else "link-cache check: all volumes current")

    warm()
    check("built")
    script = [rng.choice(["fuel", "liner", "clad", "hotset", "swap", "hotset-through-link"]) for _ in range(rng.randint(3, 6))]
    idx = {"fuel": 2, "liner": 2, "clad": 2}
    for i, what in enumerate(script):
        if rng.random() < 0.7:
            warm()
        with common.quiet():
            if what in ("fuel", "liner", "clad"):
                c, tt = {"fuel": (fuel, ta), "liner": (liner, tb), "clad": (clad, tc)}[what]
                t = tt[idx[what]]
                idx[what] = min(idx[what] + 1, 5)
                c.setTemperature(t)
                all_temps.add(float(t))
                log.append((f"T~{index[id(c)]}~{rat(t)}", None))
            elif what == "hotset":
                v = float(fuel.getDimension("od")) * rng.choice([1.015625, 0.984375])
                fuel.setDimension("od", v, cold=False)
                log.append((f"H~0~od~{rat(v)}", None))
            elif what == "hotset-through-link":
                # retainLink=True on a linked dimension: the value lands on the link target (bond.id -> fuel.od,
                # gap.od -> clad.id), whose dependents (and theirs) must all be recomputed
                holder, key = rng.choice([(bond, "id"), (gap, "od"), (gap, "id")])
                v = float(holder.getDimension(key)) * rng.choice([1.0078125, 0.9921875])
                holder.setDimension(key, v, retainLink=True, cold=False)
                log.append((f"HR~{index[id(holder)]}~{key}~{rat(v)}", None))
                got = float(holder.getDimension(key))
                if relerr(got, v) > TOL:
                    fail("set-dimension-readback", "a hot set through a retained link reads back", got, v,
                         {"after": f"{i}:{what}", "comp": holder.name, "dim": key})
            else:
                # the fuel is replaced by another solid with the same cold dimensions
                n2 = rng.choice(solids)
                t_now = float(fuel.temperatureInC)
                if mats[n2]["lo"] <= min(t_now, ta[0]) and max(t_now, ta[0]) <= mats[n2]["hi"]:
                    fuel.setProperties(mat(n2))
                    log.append((f"M~0~{mat_index(fuel)}", None))
        check(f"{i}:{what}")
    # materials as the model sees them
    temps_sorted = sorted(all_temps)
    mtoks = []
    for n in mat_names:
        m = mats[n]["cls"]()
        liquid = isinstance(m, _material.Fluid)
        k = "L" if liquid else ("C" if isinstance(m, _Custom) else "S")
        rows = []
        for t in temps_sorted:
            with common.quiet():
                try:
                    p_ = float(m.linearExpansionPercent(Tc=t))
                except Exception:
                    p_ = 0.0
                try:
                    rho = float(m.pseudoDensity(Tc=t)) if liquid else 0.0
                except Exception:
                    rho = 0.0
            rows.append(f"{rat(t)}~{rat(p_)}~{rat(rho)}")
        mtoks.append(";".join([k] + rows))
    # which clearLinkedCache the model transcribes: the transitive sweep of the code since fix b30c1b1 (the defect is
    # recorded as `fixed:` in findings.d/C03.txt); the direct-dependents sweep only if the key is listed as a finding again
    coded = any(f.get("property") == "C03" and f.get("key") == STALE_KEY for f in common.load_findings()["finding"])
    req = (f"bhist {'F' if coded else 'T'}F {rat(h)} {rat(amax0)} [{','.join(mtoks)}] {'|'.join(ctoks)} "
           f"[{','.join(tok for tok, _ in log)}]")
    return req, log


SETLINK_KEY = "volume-stale-after-setlink"


def setlink_case(seed, mats, solids, fail, count=lambda *_: None):
    """`Component.setLink(key, otherComp, otherCompKey)` AFTER construction.  A pin block whose fluid annuli are given
    as consistent NUMBERS (every component at Tinput == Thot, so each number equals the neighbouring solid's current
    dimension) is turned into a linked block link by link - at moments of value coincidence and, after the targets
    have moved, of non-coincidence; existing links are moved between components with equal current values (gas bond:
    bond.od <-> liner.id, bond.id <-> fuel.od), also onto dimensions that are links themselves; targets are resized to
    the holder's value and then linked.  In between the solids are heated and hot-set.  The DECLARED links are kept
    here; after every call every declared link must equal its target's current dimension (hot and cold), and every
    component's getVolume()/height must equal getArea()."""
    import random

    from armi.materials import material as _material
    from armi.materials.custom import Custom as _Custom
    from armi.reactor import blocks, components
    from armi.reactor.components.component import _DimensionLink

    rng = random.Random(seed)
    a, b, c3 = (rng.choice(solids) for _ in range(3))

    def mat(n):
        return mats[n]["cls"]()

    def temps(n, k):
        return gen_temps(rng, mats[n]["lo"], mats[n]["hi"], k)

    ta, tb, tc = temps(a, 6), temps(b, 6), temps(c3, 6)
    h = common.dyadic(rng, 5, 40, 1)
    fod = common.dyadic(rng, 0.5, 0.75, 4)
    with common.quiet():
        blk = blocks.HexBlock("b", height=h)
        fuel = components.Circle("fuel", mat(a), ta[0], ta[0], od=fod, id=0.0, mult=7.0)
        liner = components.Circle("liner", mat(b), tb[0], tb[0], od=1.125, id=1.0, mult=7.0)
        clad = components.Circle("clad", mat(c3), tc[0], tc[0], od=1.5, id=1.25, mult=7.0)
        bond = components.Circle("bond", "Sodium", 450.0, 450.0, od=1.0, id=fod, mult=5.0)
        gap = components.Circle("gap", "Sodium", 450.0, 450.0, od=1.25, id=1.125, mult=7.0)
        gas = components.Circle("gasbond", "Air", 450.0, 450.0, od=1.0, id=fod, mult=2.0)
        duct = components.Hexagon("duct", "HT9", 25.0, 25.0, op=16.0, ip=15.0, mult=1.0)
        cool = components.DerivedShape("coolant", "Sodium", 450.0, 450.0)
        comps = [fuel, bond, liner, gap, clad, gas, duct]
        for c in comps + [cool]:
            blk.add(c)
        amax0 = float(blk.getMaxArea())
    index = {id(c): i for i, c in enumerate(comps)}
    mat_names = []

    def mat_index(c):
        n = type(c.material).__name__
        if n not in mat_names:
            mat_names.append(n)
        return mat_names.index(n)

    all_temps = set()
    ctoks = []
    for c in comps:
        nd = c.getNumberDensities()
        nucs = sorted(nd)
        ds = [f"{k}={rat(float(c.p[k]))}" for k in c.DIMENSION_NAMES if c.p[k] is not None]
        all_temps |= {float(c.inputTemperatureInC), float(c.temperatureInC)}
        ctoks.append(";".join([type(c).__name__, str(mat_index(c)), rat(float(c.inputTemperatureInC)),
                               rat(float(c.temperatureInC)), ratlist([nd[n] for n in nucs]), ratlist(_mass_weights(nucs)),
                               ",".join(ds)]))
    log = []
    declared = {}           # (holder name, key) -> (target component, target key)
    tainted = set()         # components whose cached volume a non-coinciding setLink may have left behind
    byname = {c.name: c for c in comps}

    def call(tok, fn, compare=True):
        try:
            v = float(fn())
            out = [v]
        except (RuntimeError, ValueError):
            v, out = None, "reject"
        log.append((tok, out if compare else None))
        return v

    def A(c):
        return call("qDA" if c is cool else f"qA~{index[id(c)]}", c.getArea)

    def V(c):
        return call("qDV" if c is cool else f"qV~{index[id(c)]}", c.getVolume)

    def warm():
        with common.quiet():
            for c in blk:
                V(c)
            blk.getVolumeFractions()
        for c in comps:
            log.append((f"qV~{index[id(c)]}", None))
        log.append(("qDV", None))

    def dependents(c0):
        out, frontier = [], [c0]
        while frontier:
            t = frontier.pop()
            for c in comps:
                if c not in out and c is not c0 and any(
                        isinstance(c.p[k], _DimensionLink) and c.p[k][0] is t for k in c.DIMENSION_NAMES if c.p[k] is not None):
                    out.append(c)
                    frontier.append(c)
        return out

    def check(tag):
        with common.quiet():
            # the property's link clause, against the DECLARED targets
            for (hn, key), (tgt, tkey) in declared.items():
                holder = byname[hn]
                for cold in (False, True):
                    mine = call(f"qD{'c' if cold else ''}~{index[id(holder)]}~{key}", lambda: holder.getDimension(key, cold=cold))
                    theirs = call(f"qD{'c' if cold else ''}~{index[id(tgt)]}~{tkey}", lambda: tgt.getDimension(tkey, cold=cold))
                    if mine != theirs:
                        fail("linked-dimension-follows", "a dimension linked through setLink equals the CURRENT dimension of the "
                             "component it was linked to", mine, theirs,
                             {"after": tag, "comp": hn, "dim": key, "target": f"{tgt.name}.{tkey}", "cold": cold})
            stale_known = False
            for c in blk:
                area, vol = A(c), V(c)
                if area is None or vol is None:
                    continue
                bad = relerr(vol / h, area) > TOL * max(1.0, abs(area))
                if bad and (c.name in tainted or (c is cool and tainted)):
                    stale_known = True
                    fail(SETLINK_KEY, "getVolume()/height == getArea() after setLink changed what a dimension resolves to "
                         "(setLink does not invalidate the cached volumes)", vol / h, area, {"after": tag, "comp": c.name})
                elif bad:
                    fail("volume-follows-area", "getVolume()/height == getArea(): the volume read path sees the current "
                         "dimensions of the components it is linked to", vol / h, area, {"after": tag, "comp": c.name})
                elif c.name in tainted:
                    tainted.discard(c.name)
            amax = float(blk.getMaxArea())
            tot = sum(A(c) or 0.0 for c in blk)
        if relerr(tot / amax, 1.0) > TOL:
            fail(SETLINK_KEY if (stale_known or tainted) else "derived-shape-closes-area",
                 "component areas of a block with a derived shape sum to the block's", tot, amax, {"after": tag})

    def do_link(holder, key, tgt, tkey, how):
        with common.quiet():
            old = float(holder.getDimension(key))
            new = float(tgt.getDimension(tkey))
            holder.setLink(key, tgt, tkey)
        log.append((f"L~{index[id(holder)]}~{key}~{index[id(tgt)]}~{tkey}", None))
        declared[(holder.name, key)] = (tgt, tkey)
        if old != new:
            tainted.update([holder.name] + [d.name for d in dependents(holder)])
        count(f"setLink {how}: " + ("values coincide" if old == new else "values differ"))

    natural = [(bond, "id", fuel, "od"), (bond, "od", liner, "id"), (gap, "id", liner, "od"), (gap, "od", clad, "id"),
               (gas, "id", bond, "id"), (gas, "od", bond, "od")]
    moves = {("gasbond", "id"): [(bond, "id"), (fuel, "od")], ("gasbond", "od"): [(bond, "od"), (liner, "id")]}
    warm()
    check("built")
    heat_idx = {"fuel": 1, "liner": 1, "clad": 1}
    script = ["link"] + [rng.choice(["link", "link", "heat", "hotset", "move", "resize-link"]) for _ in range(rng.randint(5, 9))]
    for i, what in enumerate(script):
        if rng.random() < 0.6:
            warm()
        if what == "link":
            free = [n for n in natural if (n[0].name, n[1]) not in declared]
            if not free:
                what = "move"
            else:
                holder, key, tgt, tkey = rng.choice(free)
                do_link(holder, key, tgt, tkey, "number -> link")
        if what == "move":
            cands = [k for k in moves if k in declared]
            if cands:
                hn, key = rng.choice(cands)
                cur = declared[(hn, key)]
                options = [o for o in moves[(hn, key)] if not (o[0] is cur[0] and o[1] == cur[1])]
                tgt, tkey = rng.choice(options)
                do_link(byname[hn], key, tgt, tkey, "link moved to another component")
        elif what == "resize-link":
            free = [n for n in natural[:4] if (n[0].name, n[1]) not in declared]
            if free:
                holder, key, tgt, tkey = rng.choice(free)
                with common.quiet():
                    v = float(holder.getDimension(key))
                    tgt.setDimension(tkey, v, cold=False)
                log.append((f"H~{index[id(tgt)]}~{tkey}~{rat(v)}", None))
                do_link(holder, key, tgt, tkey, "target resized to the holder's value, then linked")
        elif what == "heat":
            name = rng.choice(["fuel", "liner", "clad"])
            c, tt = {"fuel": (fuel, ta), "liner": (liner, tb), "clad": (clad, tc)}[name]
            t = tt[heat_idx[name]]
            heat_idx[name] = min(heat_idx[name] + 1, 5)
            with common.quiet():
                c.setTemperature(t)
            all_temps.add(float(t))
            log.append((f"T~{index[id(c)]}~{rat(t)}", None))
        elif what == "hotset":
            c, key = rng.choice([(fuel, "od"), (liner, "id"), (liner, "od"), (clad, "id")])
            with common.quiet():
                v = float(c.getDimension(key)) * rng.choice([1.0078125, 0.9921875])
                c.setDimension(key, v, cold=False)
            log.append((f"H~{index[id(c)]}~{key}~{rat(v)}", None))
        check(f"{i}:{what}")
    # every history ends with all three solids moved once more: a link that was silently not established shows here
    for name, (c, tt) in {"fuel": (fuel, ta), "liner": (liner, tb), "clad": (clad, tc)}.items():
        t = tt[heat_idx[name]]
        with common.quiet():
            c.setTemperature(t)
        all_temps.add(float(t))
        log.append((f"T~{index[id(c)]}~{rat(t)}", None))
    check("end: all solids heated")
    temps_sorted = sorted(all_temps)
    mtoks = []
    for n in mat_names:
        m = mats[n]["cls"]()
        liquid = isinstance(m, _material.Fluid)
        k = "L" if liquid else ("C" if isinstance(m, _Custom) else "S")
        rows = []
        for t in temps_sorted:
            with common.quiet():
                try:
                    p_ = float(m.linearExpansionPercent(Tc=t))
                except Exception:
                    p_ = 0.0
                try:
                    rho = float(m.pseudoDensity(Tc=t)) if liquid else 0.0
                except Exception:
                    rho = 0.0
            rows.append(f"{rat(t)}~{rat(p_)}~{rat(rho)}")
        mtoks.append(";".join([k] + rows))
    known = common.load_findings()["finding"]
    coded = any(f.get("property") == "C03" and f.get("key") == STALE_KEY for f in known)
    bare = any(f.get("property") == "C03" and f.get("key") == SETLINK_KEY for f in known)
    req = (f"bhist {'F' if coded else 'T'}{'F' if bare else 'T'} {rat(h)} {rat(amax0)} [{','.join(mtoks)}] {'|'.join(ctoks)} "
           f"[{','.join(tok for tok, _ in log)}]")
    return req, log


def run_setlinks(ctx, mats, solids):
    n = ctx.pick(40, 300)
    req, chk = [], []
    fixed_seeds = [d["seed"] for d in corpus_seeds("setlink")]
    ctx.count("corpus cases (setlink)", len(fixed_seeds))
    for rep in range(n + len(fixed_seeds)):
        seed = fixed_seeds[rep] if rep < len(fixed_seeds) else ctx.rng.getrandbits(40)
        case = {"setlink": True, "seed": seed}
        fails = []
        try:
            line, log = setlink_case(seed, mats, solids, lambda *a: fails.append(a), ctx.count)
        except (ArithmeticError, ValueError) as e:
            ctx.count(f"setLink block refused ({type(e).__name__})")
            continue
        req.append(line)
        chk.append((case, log))
        seen = set()
        for key, clause, obs, exp, extra in fails:
            if key == SETLINK_KEY and key in seen:
                continue
            seen.add(key)
            ctx.fail(key, clause, dict(case, **extra), observed=obs, expected=exp)
        ctx.case(("setlink", seed), nontrivial=True)
    model = lean_run("Thermal", req)
    for line, (case, log) in zip(model, chk):
        hist_compare(ctx, case, line, log, what="Thermal.brun (setLink histories) vs the real call history")
    ctx.evaluations += sum(len(l) for _, l in chk)
    ctx.count("setLink cases", n)
    ctx.count("setLink calls compared with the model", sum(1 for _, l in chk for _, o in l if o is not None))


def corpus_seeds(stream):
    """seeds of past defects / repaired false alarms kept in corpus/C03/*.json: they run first on every run"""
    import glob
    import json

    out = []
    for fn in sorted(glob.glob(os.path.join(common.VERIF, "corpus", "C03", "*.json"))):
        try:
            d = json.load(open(fn))
        except Exception:
            continue
        if d.get("stream") == stream:
            out.append(d)
    return out


def run_link_caches(ctx, mats, solids):
    n = ctx.pick(40, 400)
    req, chk = [], []
    fixed_seeds = [d["seed"] for d in corpus_seeds("linkcache")]
    ctx.count("corpus cases (linkcache)", len(fixed_seeds))
    for rep in range(n + len(fixed_seeds)):
        seed = fixed_seeds[rep] if rep < len(fixed_seeds) else ctx.rng.getrandbits(40)
        case = {"linkcache": True, "seed": seed}
        fails = []
        try:
            line, log = link_cache_case(seed, mats, solids, lambda *a: fails.append(a), ctx.count)
        except (ArithmeticError, ValueError) as e:
            ctx.count(f"link-cache block refused ({type(e).__name__})")
            continue
        req.append(line)
        chk.append((case, log))
        seen = set()
        for key, clause, obs, exp, extra in fails:
            if key == STALE_KEY and key in seen:
                continue
            seen.add(key)
            ctx.fail(key, clause, dict(case, **extra), observed=obs, expected=exp)
        ctx.case(("linkcache", seed), nontrivial=True)
    model = lean_run("Thermal", req)
    for line, (case, log) in zip(model, chk):
        hist_compare(ctx, case, line, log, what="Thermal.brun (block of linked components with caches, clearLinkedCache as "
                                                "coded) vs the real call history")
    ctx.evaluations += sum(len(l) for _, l in chk)
    ctx.count("link-cache cases", n)
    ctx.count("link-cache calls compared with the model", sum(1 for _, l in chk for _, o in l if o is not None))


# --------------------------------------------------------------------------- inherited expanding dimensions
_PASS_THROUGH = {}


def pass_through_classes():
    """user/plugin style subclasses of library shapes with a pass-through (*args, **kwargs) __init__ (their own
    DIMENSION_NAMES are empty; THERMAL_EXPANSION_DIMS is inherited)"""
    if not _PASS_THROUGH:
        from armi.reactor import components

        for base in ("Circle", "Hexagon", "Rectangle", "Helix"):
            cls = getattr(components, base)

            def __init__(self, *args, _cls=cls, **kwargs):
                _cls.__init__(self, *args, **kwargs)

            _PASS_THROUGH[base] = type("VerifPassThrough" + base, (cls,), {"__init__": __init__, "__module__": __name__})
    return _PASS_THROUGH


def run_inherited_dims(ctx, mats, solids):
    """every expanding dimension a class INHERITS must still expand: Square's lengthOuter / lengthInner (Rectangle's
    names, stored by Square next to its widths), and every dimension of pass-through subclasses of library shapes -
    read hot, read through a link, hot setDimension read-back, mass per unit height."""
    from armi.reactor import components

    rng = ctx.rng
    n = ctx.pick(12, 120)
    for rep in range(n):
        mname = rng.choice(solids)
        info = mats[mname]
        tin, t0, t1 = gen_temps(rng, info["lo"], info["hi"], 3)
        which = rng.choice(["Square"] * 3 + list(pass_through_classes()))
        with common.quiet():
            m = info["cls"]()
            if which == "Square":
                dims = gen_dims(rng, "Square")
                if not dims["widthInner"]:
                    dims["widthInner"] = dims["widthOuter"] * 0.5
                comp = components.Square("c", m, tin, t0, **dims)
                keys = ["lengthOuter", "lengthInner", "widthOuter", "widthInner"]
            else:
                dims = gen_dims(rng, which)
                comp = pass_through_classes()[which]("c", m, tin, t0, **dims)
                keys = [k for k in SHAPE_DIMS[which] if k not in ("mult", "nHoles")]
            holder = components.Circle("holder", "Void", 20.0, 20.0, od=f"c.{keys[0]}", id=0.0, mult=1.0, components={"c": comp})
            # an EXPANDING SOLID holding a link on one of its own expanding dimensions, hot at T != Tinput: the linked
            # dimension is the target's current dimension, not multiplied again by the holder's factor
            hname = rng.choice(solids)
            th = gen_temps(rng, mats[hname]["lo"], mats[hname]["hi"], 2)
            solid_holder = components.Circle("sleeve", mats[hname]["cls"](), th[0], th[1], od=64.0, id=f"c.{keys[0]}", mult=1.0,
                                             components={"c": comp})
        case = {"inherited": which, "material": mname, "dims": dims, "tin": tin, "t0": t0, "t1": t1}
        ctx.case(("inherited", which, mname, rep), nontrivial=True)
        ctx.count(f"inherited expanding dimensions: {which}")
        nd0 = dict(comp.getNumberDensities())
        m0 = mass_density(nd0) * float(comp.getArea())
        for t in (t0, t1):
            with common.quiet():
                comp.setTemperature(t)
                f = (100.0 + float(m.linearExpansionPercent(Tc=t))) / (100.0 + float(m.linearExpansionPercent(Tc=tin)))
                for k in keys:
                    cold = float(comp.getDimension(k, cold=True))
                    hot = float(comp.getDimension(k))
                    if cold and relerr(hot, cold * f) > TOL:
                        ctx.fail("dimension-cold-times-factor", f"inherited expanding dimension {k} == cold value x factor",
                                 dict(case, dim=k, T=t), observed=hot, expected=cold * f)
                for cold in (False, True):
                    sv = float(solid_holder.getDimension("id", cold=cold))
                    if sv != float(comp.getDimension(keys[0], cold=cold)):
                        ctx.fail("linked-dimension-follows", "a link held by an expanding solid on one of its expanding dimensions "
                                 "equals the target's current dimension (no second expansion by the holder)",
                                 dict(case, holder=hname, holderT=th, T=t, cold=cold), observed=sv,
                                 expected=float(comp.getDimension(keys[0], cold=cold)))
                via = float(holder.getDimension("od"))
                if via != float(comp.getDimension(keys[0])):
                    ctx.fail("linked-dimension-follows", "a link onto an inherited expanding dimension equals the target's current "
                             "dimension", dict(case, dim=keys[0], T=t), observed=via, expected=float(comp.getDimension(keys[0])))
                mh = mass_density(dict(comp.getNumberDensities())) * float(comp.getArea())
            if m0 > 0 and relerr(mh / m0, 1.0) > TOL:
                ctx.fail("mass-per-height", "mass per unit height is conserved by setTemperature (inherited expanding dimensions)",
                         dict(case, T=t), observed=mh, expected=m0)
        with common.quiet():
            for k in keys:
                v = float(comp.getDimension(k)) * 1.03125 or 0.375
                comp.setDimension(k, v, cold=False)
                got = float(comp.getDimension(k))
                if relerr(got, v) > TOL:
                    ctx.fail("hot-dimension-readback", f"setDimension({k}, v, cold=False) reads back v (inherited expanding dimension)",
                             dict(case, dim=k), observed=got, expected=v)
    ctx.evaluations += n


# --------------------------------------------------------------------------- entry points
def _hush():
    # the documented RuntimeError of solids without a correlation is logged at error level on every call
    try:
        from armi import runLog

        runLog.setVerbosity(50)
    except Exception:
        pass


def run(ctx):
    _hush()
    mats = classify_materials(ctx)
    kinds = {}
    for n, i in mats.items():
        kinds.setdefault(i["kind"], []).append(n)
    for k, v in kinds.items():
        ctx.count(f"material classes: {k}", len(v))
    ctx.extra["materials"] = {k: v for k, v in kinds.items()}
    dep = sorted(n for n, i in mats.items() if i.get("composition_dependent"))
    ctx.extra["composition_dependent_expansion"] = {
        "measured_on": len([1 for i in mats.values() if i["kind"] != "skip"]),
        "materials_whose_expansion_or_density_reduction_changes_with_component_composition": dep,
        "method": "linearExpansionPercent at 5 temperatures and getThermalExpansionDensityReduction at 2 pairs, before/after "
                  "perturbing the component's number densities (first nuclide x3, the others x0.25)"}
    ctx.count("materials with composition-dependent expansion", len(dep))
    for n in dep:
        # the model's assumption 'expansion independent of composition' does not cover these: excluded from the
        # solid cross product below (their setTemperature is judged by nothing) - reported, never silently passed
        ctx.count(f"composition-dependent expansion: {n}")
    # the regenerated table against the real classes and against the model's table (independent of Lean)
    for shape, cls in component_classes().items():
        real = sorted(cls.THERMAL_EXPANSION_DIMS)
        if cls.is3D and real:
            ctx.disagree("3-D shapes have no expanding dimensions", {"shape": shape}, [], real)
        if shape in MODEL_EXP and real != MODEL_EXP[shape]:
            ctx.disagree("THERMAL_EXPANSION_DIMS vs the sets the homogeneity lemmas were proved for",
                         {"shape": shape}, MODEL_EXP[shape], real)
        if not cls.is3D and real and shape not in MODEL_EXP:
            ctx.disagree("2-D shape class with expanding dimensions that has no area model", {"shape": shape}, None, real)
    solids = run_solids(ctx, mats)
    run_zero_and_fluids(ctx, mats)
    run_links(ctx, mats, solids)
    run_derived(ctx, mats, solids)
    run_chains(ctx, mats, solids)
    run_aliasing(ctx, mats, solids)
    run_histories(ctx, mats, solids)
    run_link_caches(ctx, mats, solids)
    run_setlinks(ctx, mats, solids)
    run_inherited_dims(ctx, mats, solids)
    ctx.rule = ("full cross product: every 2-D shape class (11 + unshaped) x every solid material class with an expansion "
                "correlation x seeded histories (1-8 temperatures inside the validity range, incl. start at the input "
                "temperature and revisits); every solid class without a correlation and every fluid/Custom class x shapes; "
                "seeded linked-dimension configurations (pin, duct, link-to-link, liner; also read at a given Tc); chained links A->B->C and 3-hop chains whose middle is replaced by a value, "
                "hot-set and re-linked between temperature changes, judged against the declared targets; components given the "
                "SAME number-density dict object / the same material object, then heated or scaled one at a time; hex blocks with a "
                "derived (left-over) coolant between expanding solids; histories of public calls on one component (every shape "
                "class incl. the area-defined UnshapedComponent x {bare, in a block, block with warmed caches, block with a "
                "derived coolant}; seeded mixes of queries, setTemperature, setProperties material swaps within and across "
                "solid/Fluid/Custom, hot setDimension) replayed on the model's state machine with caches and judged through "
                "the area, getVolume()/height and getMass()/height read paths; pin blocks with link-bounded annuli (and "
                "gas-bonded pins behind a link to a link), warmed volume caches, solids heated / hot-set / replaced one at a "
                "time, every component judged through getVolume and getMass; setLink histories (numeric annuli turned into "
                "links at value coincidence and non-coincidence, links moved between components with equal values, onto "
                "linked dimensions, after resizing the target) with heating / hot sets in between, declared links judged "
                "after every call; inherited expanding dimensions (Square's lengthOuter / lengthInner, pass-through subclasses of "
                "library shapes) read hot, through a link held by a Void and by an expanding solid, and hot-set. distinct = (shape, material, history "
                "index) / (config, seed); all non-trivial (real setTemperature/getDimension/getArea calls compared with the "
                "model and judged by the oracle).")


def _case_fail_list(case):
    fails = []

    def fail(key, clause, observed, expected):
        fails.append(Failure(key, clause, case, observed=observed, expected=expected))

    try:
        if case.get("shape") == "UnshapedComponent":
            oracle_unshaped(case, fail)
        else:
            oracle_solid(case, fail)
    except Exception as e:
        fails.append(Failure("solid-expansion-raises", "expansion inside the validity range does not raise", case,
                             observed=repr(e)[:300]))
    return fails


def search(ctx, disagreements, broken):
    """Directed search on the real code: the oracle over the full cross product for every shape named by a
    disagreement / broken table obligation (all shapes when none is named), with many more histories."""
    mats = classify_materials(ctx)
    solids = [n for n, i in mats.items() if i["kind"] == "solid" and i.get("has_nd")]
    shapes = set()
    for d in disagreements:
        c = d.case if isinstance(d.case, dict) else {}
        if c.get("shape") in SHAPE_DIMS:
            shapes.add(c["shape"])
    if broken or not shapes:
        real = component_classes()
        for s in SHAPE_DIMS:
            if sorted(real[s].THERMAL_EXPANSION_DIMS) != MODEL_EXP[s]:
                shapes.add(s)
    if not shapes:
        shapes = set(SHAPE_DIMS)
    out = []
    for shape in sorted(shapes):
        for mname in solids:
            info = mats[mname]
            for rep in range(6):
                temps = gen_temps(ctx.rng, info["lo"], info["hi"], ctx.rng.randint(3, 6))
                dims = gen_dims(ctx.rng, shape)
                # make every dimension non-zero so that a dimension dropped from the table shows
                for k, v in list(dims.items()):
                    if v == 0.0:
                        ref = {"id": "od", "ip": "op", "lengthInner": "lengthOuter", "widthInner": "widthOuter"}[k]
                        dims[k] = dims[ref] * 0.5
                case = dict(shape=shape, material=mname, dims=dims, tin=temps[0], t0=temps[1], path=temps[2:])
                out += _case_fail_list(case)
            if len(out) > 50:
                return out
    for d in disagreements:
        c = d.case if isinstance(d.case, dict) else {}
        if c.get("alias"):
            fails = []
            try:
                alias_case(c["seed"], mats, solids, lambda *a: fails.append(a))
            except Exception:
                continue
            for key, clause, obs, exp, extra in fails:
                out.append(Failure(key, clause, dict(alias=True, seed=c["seed"], **extra), observed=obs, expected=exp))
    for d in disagreements:
        c = d.case if isinstance(d.case, dict) else {}
        if c.get("chain"):
            fails = []
            try:
                chain_case(c["seed"], mats, solids, lambda *a: fails.append(a))
            except Exception:
                continue
            for key, clause, obs, exp, extra in fails:
                out.append(Failure(key, clause, dict(chain=True, seed=c["seed"], **extra), observed=obs, expected=exp))
    for d in disagreements:
        c = d.case if isinstance(d.case, dict) else {}
        if c.get("derived"):
            fails = []
            try:
                derived_case(c["seed"], mats, solids, lambda *a: fails.append(a), lambda *_: None)
            except Exception:
                continue
            for key, clause, obs, exp, extra in fails:
                out.append(Failure(key, clause, dict(derived=True, seed=c["seed"], **extra), observed=obs, expected=exp))
    for d in disagreements:
        c = d.case if isinstance(d.case, dict) else {}
        if c.get("hist"):
            fails = []
            try:
                hist_case(hist_spec(c["seed"], mats, solids, c.get("shape"), c.get("mode"), c.get("swaps")), mats,
                          lambda *a: fails.append(a))
            except Exception:
                continue
            for key, clause, obs, exp, extra in fails:
                out.append(Failure(key, clause, dict(hist=True, seed=c["seed"], shape=c.get("shape"), mode=c.get("mode"),
                                                     swaps=c.get("swaps"), **(extra or {})), observed=obs, expected=exp))
    # links
    for d in disagreements:
        c = d.case if isinstance(d.case, dict) else {}
        if "config" in c:
            fails = []
            try:
                links_case(c["config"], c["seed"], mats, solids, lambda *a: fails.append(a))
            except Exception:
                continue
            for key, clause, obs, exp, extra in fails:
                out.append(Failure(key, clause, dict(config=c["config"], seed=c["seed"], **extra), observed=obs, expected=exp))
    return out


def replay(ctx, payload):
    case, key = payload["case"], payload["key"]
    if case.get("hist"):
        mats = classify_materials(ctx)
        solids = [n for n, i in mats.items() if i["kind"] == "solid" and i.get("has_nd")]
        fails = []
        hist_case(hist_spec(case["seed"], mats, solids, case.get("shape"), case.get("mode"), case.get("swaps")), mats,
                  lambda *a: fails.append(a))
        hit = [f for f in fails if f[0] == key]
        return {"observed": hit[0][2], "expected": hit[0][3]} if hit else None
    if case.get("setlink"):
        mats = classify_materials(ctx)
        solids = [n for n, i in mats.items() if i["kind"] == "solid" and i.get("has_nd")]
        fails = []
        setlink_case(case["seed"], mats, solids, lambda *a: fails.append(a))
        hit = [f for f in fails if f[0] == key]
        return {"observed": hit[0][2], "expected": hit[0][3]} if hit else None
    if case.get("linkcache"):
        mats = classify_materials(ctx)
        solids = [n for n, i in mats.items() if i["kind"] == "solid" and i.get("has_nd")]
        fails = []
        link_cache_case(case["seed"], mats, solids, lambda *a: fails.append(a))
        hit = [f for f in fails if f[0] == key]
        return {"observed": hit[0][2], "expected": hit[0][3]} if hit else None
    if case.get("alias"):
        mats = classify_materials(ctx)
        solids = [n for n, i in mats.items() if i["kind"] == "solid" and i.get("has_nd")]
        fails = []
        alias_case(case["seed"], mats, solids, lambda *a: fails.append(a))
        hit = [f for f in fails if f[0] == key]
        return {"observed": hit[0][2], "expected": hit[0][3]} if hit else None
    if case.get("chain"):
        mats = classify_materials(ctx)
        solids = [n for n, i in mats.items() if i["kind"] == "solid" and i.get("has_nd")]
        fails = []
        chain_case(case["seed"], mats, solids, lambda *a: fails.append(a))
        hit = [f for f in fails if f[0] == key]
        return {"observed": hit[0][2], "expected": hit[0][3]} if hit else None
    if case.get("derived"):
        mats = classify_materials(ctx)
        solids = [n for n, i in mats.items() if i["kind"] == "solid" and i.get("has_nd")]
        fails = []
        derived_case(case["seed"], mats, solids, lambda *a: fails.append(a), lambda *_: None)
        hit = [f for f in fails if f[0] == key]
        return {"observed": hit[0][2], "expected": hit[0][3]} if hit else None
    if "config" in case:
        mats = classify_materials(ctx)
        solids = [n for n, i in mats.items() if i["kind"] == "solid" and i.get("has_nd")]
        fails = []
        links_case(case["config"], case["seed"], mats, solids, lambda *a: fails.append(a))
        hit = [f for f in fails if f[0] == key]
        return {"observed": hit[0][2], "expected": hit[0][3]} if hit else None
    if "shape" in case and "path" in case and case.get("shape") in list(SHAPE_DIMS) + ["UnshapedComponent"] \
            and case.get("material") in material_classes() and key not in (
                "fluid-dimension-changed", "zero-expansion-solid-changed", "dimension-at-input-temperature",
                "fluid-dimension-raises", "set-temperature-raises"):
        hit = [f for f in _case_fail_list({k: case[k] for k in ("shape", "material", "dims", "tin", "t0", "path")})
               if f.key == key]
        return hit[0].to_json() if hit else None
    sub = type(ctx)(ctx.prop, "quick", ctx.seed)
    run(sub)
    hit = [f for f in sub.failures if f.key == key]
    return hit[0].to_json() if hit else None
