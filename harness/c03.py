"""C03 - thermal expansion conserves mass per unit height and scales dimensions.

Theorems: lean/ArmiVerif/Props/C03.lean (any expansion curve, any shape class, any temperature history) and
lean/ArmiVerif/Props/C03Gen.lean (the regenerated THERMAL_EXPANSION_DIMS table equals the sets the
homogeneity lemmas were proved for).
Tie: every 2-D shape class x every material class of armi.materials (solids with a correlation: expansion;
solids without: the documented RuntimeError; fluids/Custom: fixed dimensions) x seeded temperature histories
inside each material's validity range.  The material's measured linearExpansionPercent(T) is fed to the
model as its parameter; factors, hot dimensions, areas, number densities and link resolution are compared
(1e-9).  Oracle: mass per unit height, area ratio = factor^2, dimension = cold x factor, path independence,
hot read-back, links follow, fluids fixed - evaluated on the real components.
"""
import importlib
import inspect
import math
import os
import pkgutil

from harness import common
from harness.common import Failure, lean_run, rat, ratlist

PROP_MODULES = ["ArmiVerif.Props.C03", "ArmiVerif.Props.C03Gen"]
GEN_FILE = os.path.join(common.LEAN, "ArmiVerif", "Gen", "Shapes.lean")
GEN_DEPENDENTS = ["ArmiVerif.Props.C03Gen"]
PARTIAL = ("'fluids keep their dimensions' is read as: a fluid's own stored dimensions and its own temperature never "
           "change its geometry; a derived (left-over) or link-bounded fluid's AREA follows its neighbours, so its mass per "
           "unit height is not conserved (derived_mass_per_height_changes); the expansion correlations themselves are parameters (any curve with 1 + dL/L > 0); floating-point "
           "rounding is outside the theorems (comparison tolerance 1e-9); the square root in the Helix area is a "
           "parameter specified by helixRoot_scales; 3-D shapes have no expanding dimensions (checked on the "
           "regenerated table); composition-dependent expansion is not modelled: the theorems are stated for an expansion "
           "curve that is a function of temperature only, and the run measures that no library material violates this")
ASSUMPTIONS = [
    "material.linearExpansionPercent(Tc) is a parameter of the model: measured on the real material object at every "
    "temperature used and checked to satisfy 100 + pct > 0",
    "expansion independent of composition: measured on every run (evidence key composition_dependent_expansion) - none of "
    "the 57 constructible classes of armi.materials changes linearExpansionPercent or getThermalExpansionDensityReduction "
    "when the component's number densities are perturbed, so the renormalisation branch of "
    "Component.updateNumberDensities / a composition-dependent setTemperature is never taken with library materials",
    "Fluid.pseudoDensity(Tc) likewise (fluid number-density factor rho1/rho0)",
    "math.pi / math.sqrt(3.0) enter the area functions as exact rational values of the doubles; math.sqrt in "
    "Helix.getComponentArea is modelled by a 1e-40 rational square root",
    "Gen/Shapes.lean is produced by harness/c03.py from the component classes' THERMAL_EXPANSION_DIMS (data only)",
]
TOL = 1e-9
PI = math.pi
SQ3 = math.sqrt(3.0)

# model-side dimension order per shape (Model/Thermal.lean Shape.dims)
SHAPE_DIMS = {
    "Circle": ["od", "id", "mult"],
    "Hexagon": ["op", "ip", "mult"],
    "Rectangle": ["lengthOuter", "widthOuter", "lengthInner", "widthInner", "mult"],
    "SolidRectangle": ["lengthOuter", "widthOuter", "mult"],
    "Square": ["widthOuter", "widthInner", "mult"],
    "Triangle": ["base", "height", "mult"],
    "HoledHexagon": ["op", "holeOD", "nHoles", "mult"],
    "HexHoledCircle": ["od", "holeOP", "mult"],
    "HoledRectangle": ["lengthOuter", "widthOuter", "holeOD", "mult"],
    "HoledSquare": ["widthOuter", "holeOD", "mult"],
    "Helix": ["od", "id", "axialPitch", "helixDiameter", "mult"],
}
# the expanding dimensions the homogeneity lemmas were proved for (Model/Thermal.lean Shape.expDims)
MODEL_EXP = {
    "Circle": ["id", "od"], "Hexagon": ["ip", "op"],
    "Rectangle": ["lengthInner", "lengthOuter", "widthInner", "widthOuter"],
    "SolidRectangle": ["lengthOuter", "widthOuter"],
    "Square": ["lengthInner", "lengthOuter", "widthInner", "widthOuter"],
    "Triangle": ["base", "height"], "HoledHexagon": ["holeOD", "op"], "HexHoledCircle": ["holeOP", "od"],
    "HoledRectangle": ["holeOD", "lengthOuter", "widthOuter"], "HoledSquare": ["holeOD", "widthOuter"],
    "Helix": ["axialPitch", "helixDiameter", "id", "od"],
}


# --------------------------------------------------------------------------- regenerated table
def component_classes():
    from armi.reactor.components import component

    out = {}
    for cls in component.ComponentType.TYPES.values():
        if cls.__module__.startswith("armi.reactor.components"):
            out[cls.__name__] = cls
    return dict(sorted(out.items()))


def regenerate(ctx):
    """Write Gen/Shapes.lean (class name, is3D, sorted THERMAL_EXPANSION_DIMS) if it changed."""
    rows = []
    for name, cls in component_classes().items():
        dims = sorted(str(d) for d in cls.THERMAL_EXPANSION_DIMS)
        rows.append('  ("%s", %s, [%s])' % (name, "true" if cls.is3D else "false",
                                            ", ".join('"%s"' % d for d in dims)))
    body = ("/- REGENERATED by harness/c03.py from armi.reactor.components (THERMAL_EXPANSION_DIMS of every\n"
            "component class); data only. -/\n"
            "namespace ArmiVerif.Gen.Shapes\n\n"
            "/-- (class name, is3D, sorted THERMAL_EXPANSION_DIMS) -/\n"
            "def expansionDims : List (String × Bool × List String) := [\n" + ",\n".join(rows) + "\n]\n\n"
            "end ArmiVerif.Gen.Shapes\n")
    os.makedirs(os.path.dirname(GEN_FILE), exist_ok=True)
    old = open(GEN_FILE).read() if os.path.exists(GEN_FILE) else None
    if old != body:
        tmp = GEN_FILE + ".tmp%d" % os.getpid()
        with open(tmp, "w") as f:
            f.write(body)
        os.replace(tmp, GEN_FILE)
    return list(GEN_DEPENDENTS)


# --------------------------------------------------------------------------- materials
def material_classes():
    import armi.materials as M
    from armi.materials import material

    classes = {}
    for mi in pkgutil.iter_modules(M.__path__):
        if mi.name.startswith("test"):
            continue
        mod = importlib.import_module("armi.materials." + mi.name)
        for n, o in vars(mod).items():
            if inspect.isclass(o) and issubclass(o, material.Material) and o.__module__ == mod.__name__:
                classes[o.__name__] = o
    return dict(sorted(classes.items()))


def temp_range_c(cls):
    """validity range of the expansion correlation in C (default 25..600 C when the class states none)."""
    pv = getattr(cls, "propertyValidTemperature", {}) or {}
    rng = pv.get("linear expansion percent") or pv.get("linear expansion")
    lo, hi = 25.0, 600.0
    if rng:
        (a, b), unit = rng
        if unit == "K":
            a, b = a - 273.15, b - 273.15
        lo, hi = float(a), float(b)
        # stay strictly inside, and at temperatures where every correlation is evaluated routinely
        lo, hi = lo + 1.0, hi - 1.0
        lo = max(lo, -150.0)
        hi = min(hi, 2500.0)
    return lo, hi


def special_temps(cls):
    """exact validity bounds in C and exactly 0.0 C when it lies inside the range."""
    pv = getattr(cls, "propertyValidTemperature", {}) or {}
    rng = pv.get("linear expansion percent") or pv.get("linear expansion")
    if not rng:
        return [25.0, 600.0, 0.0]
    (a, b), unit = rng
    if unit == "K":
        a, b = a - 273.15, b - 273.15
    a, b = float(a), float(b)
    out = [max(a, -150.0), min(b, 2500.0)]
    if a <= 0.0 <= b:
        out.append(0.0)
    return out


def classify_materials(ctx):
    """-> {name: dict(cls, kind in solid|zero|fluid|skip, lo, hi)}"""
    from armi.materials import material
    from armi.materials.custom import Custom
    from armi.reactor import components

    out = {}
    for name, cls in material_classes().items():
        lo, hi = temp_range_c(cls)
        info = {"cls": cls, "lo": lo, "hi": hi, "special": special_temps(cls)}
        try:
            with common.quiet():
                m = cls()
                comp = components.Circle("probe", m, lo, lo, od=1.0, id=0.0, mult=1)
                nd = comp.getNumberDensities()
        except Exception as e:  # abstract bases and the like
            info["kind"] = "skip"
            info["why"] = repr(e)[:80]
            out[name] = info
            continue
        # does the expansion (or the density reduction of setTemperature) depend on the component's composition?
        info["composition_dependent"] = False
        try:
            with common.quiet():
                ts = [lo + (hi - lo) * k / 4.0 for k in range(5)]
                before = [float(m.linearExpansionPercent(Tc=t)) for t in ts] + \
                         [float(m.getThermalExpansionDensityReduction(ts[0], ts[k])) for k in (1, 3)]
                if nd:
                    pert = {n: v * (3.0 if i == 0 else 0.25) for i, (n, v) in enumerate(nd.items())}
                    comp.p.numberDensities = dict(pert)
                    after = [float(m.linearExpansionPercent(Tc=t)) for t in ts] + \
                            [float(m.getThermalExpansionDensityReduction(ts[0], ts[k])) for k in (1, 3)]
                    comp.p.numberDensities = dict(nd)
                    info["composition_dependent"] = before != after
        except Exception:
            pass
        if issubclass(cls, (material.Fluid, Custom)):
            info["kind"] = "fluid"
        else:
            ts = [lo + (hi - lo) * k / 24.0 for k in range(25)]
            with common.quiet():
                pcts = [float(m.linearExpansionPercent(Tc=t)) for t in ts]
            for t, p in zip(ts, pcts):
                if not (100.0 + p > 0.0):
                    ctx.fail("material-curve-nonpositive", "1 + dL/L > 0 on the validity range",
                             {"material": name, "T": t}, observed=p)
            info["kind"] = "solid" if len(set(pcts)) > 1 else "zero"
            info["has_nd"] = bool(nd)
        out[name] = info
    return out


# --------------------------------------------------------------------------- shapes
def gen_dims(rng, shape):
    d = common.dyadic
    mult = float(rng.choice([1, 1, 2, 7, 19, 61, 169, 271]))
    if shape == "Circle":
        od = d(rng, 0.5, 3)
        return dict(od=od, id=rng.choice([0.0, od * 0.5, od * 0.75]), mult=mult)
    if shape == "Hexagon":
        op = d(rng, 1, 20)
        return dict(op=op, ip=rng.choice([0.0, op * 0.5, op * 0.875]), mult=mult)
    if shape == "Rectangle":
        lo_, wo = d(rng, 1, 8), d(rng, 1, 8)
        k = rng.choice([0.0, 0.5, 0.75])
        return dict(lengthOuter=lo_, lengthInner=lo_ * k, widthOuter=wo, widthInner=wo * k, mult=mult)
    if shape == "SolidRectangle":
        return dict(lengthOuter=d(rng, 1, 8), widthOuter=d(rng, 1, 8), mult=mult)
    if shape == "Square":
        wo = d(rng, 1, 8)
        return dict(widthOuter=wo, widthInner=wo * rng.choice([0.0, 0.5, 0.75]), mult=mult)
    if shape == "Triangle":
        return dict(base=d(rng, 1, 8), height=d(rng, 1, 8), mult=mult)
    if shape == "HoledHexagon":
        op = d(rng, 4, 20)
        return dict(op=op, holeOD=op * rng.choice([0.125, 0.25]), nHoles=float(rng.choice([1, 3, 7])), mult=mult)
    if shape == "HexHoledCircle":
        od = d(rng, 2, 8)
        return dict(od=od, holeOP=od * rng.choice([0.25, 0.5, 0.75]), mult=mult)
    if shape == "HoledRectangle":
        lo_, wo = d(rng, 2, 8), d(rng, 2, 8)
        return dict(lengthOuter=lo_, widthOuter=wo, holeOD=min(lo_, wo) * rng.choice([0.25, 0.5]), mult=mult)
    if shape == "HoledSquare":
        wo = d(rng, 2, 8)
        return dict(widthOuter=wo, holeOD=wo * rng.choice([0.25, 0.5, 0.75]), mult=mult)
    if shape == "Helix":
        od = d(rng, 0.125, 1)
        return dict(od=od, id=rng.choice([0.0, od * 0.5]), axialPitch=d(rng, 10, 40), helixDiameter=d(rng, 0.5, 3),
                    mult=mult)
    raise KeyError(shape)


def build(shape, mat, tin, thot, dims):
    from armi.reactor import components

    cls = component_classes()[shape]
    if shape == "UnshapedComponent":
        return components.UnshapedComponent("c", mat, tin, thot, area=dims["area"])
    return cls("c", mat, tin, thot, **dims)


def mass_density(nd):
    from armi.utils import densityTools

    return densityTools.calculateMassDensity(nd)


def relerr(a, b):
    return abs(a - b) / max(1.0, abs(a), abs(b))


def gen_temps(rng, lo, hi, n):
    """n temperatures in [lo,hi]; a few are multiples of 0.25; all pairwise equal or >= 0.5 apart."""
    out = []
    while len(out) < n:
        t = rng.uniform(lo, hi)
        if rng.random() < 0.3:
            t = round(t * 4) / 4.0
            t = min(max(t, lo), hi)
        if all(t == u or abs(t - u) >= 0.5 for u in out):
            out.append(float(t))
    return out


# --------------------------------------------------------------------------- one solid case
def oracle_solid(case, fail, collect=None):
    """Evaluate every clause of the property on the real component for one (shape, material, dims, history).

    case: dict(shape, material, dims, tin, t0, path).  fail(key, clause, observed, expected) is called for
    each broken clause.  collect (optional) receives what the correspondence needs."""
    mats = material_classes()
    mcls = mats[case["material"]]
    shape, dims, tin, t0, path = case["shape"], case["dims"], case["tin"], case["t0"], case["path"]
    with common.quiet():
        m = mcls()
        comp = build(shape, m, tin, t0, dims)
        twin_m = mcls()
    exp_real = sorted(comp.THERMAL_EXPANSION_DIMS)
    names = SHAPE_DIMS.get(shape, [])

    def pct(t):
        return float(m.linearExpansionPercent(Tc=t))

    def snapshot():
        hot = {k: float(comp.getDimension(k)) for k in names}
        cold = {k: float(comp.getDimension(k, cold=True)) for k in names}
        return hot, cold, float(comp.getArea()), float(comp.getArea(cold=True)), dict(comp.getNumberDensities())

    p_in = pct(tin)
    hot, cold, area, area_cold, nd0 = snapshot()
    m0 = mass_density(nd0) * area
    # a library solid without a density correlation (e.g. Cu) has no mass: only the geometric clauses apply
    massless = not nd0 or not (m0 > 0)
    steps = []
    temps = [t0] + list(path)
    nd_prev = nd0
    for idx, t in enumerate(temps):
        if idx > 0:
            with common.quiet():
                comp.setTemperature(t)
        hot, cold, area, area_cold, nd = snapshot()
        f_expected = (100.0 + pct(t)) / (100.0 + p_in)
        f_real = float(comp.getThermalExpansionFactor())
        if relerr(f_real, f_expected) > TOL:
            fail("expansion-factor", "getThermalExpansionFactor == p(T)/p(Tinput)", f_real, f_expected)
        # mass per unit height
        mh = mass_density(nd) * area
        if not massless and relerr(mh / m0, 1.0) > TOL:
            fail("mass-per-height", "mass per unit height is conserved by setTemperature", mh, m0)
        # area grows by factor^2 relative to the cold area
        if relerr(area, f_expected ** 2 * area_cold) > TOL * max(1.0, abs(area)):
            fail("area-factor-squared", "hot area == factor^2 * cold area", area, f_expected ** 2 * area_cold)
        # dimensions
        for k in names:
            if cold[k] != dims[k]:
                fail("cold-dimension-changed", "the cold (input) dimension is what was input", cold[k], dims[k])
            want = dims[k] * f_expected if k in exp_real else dims[k]
            if relerr(hot[k], want) > TOL:
                fail("dimension-cold-times-factor", f"dimension {k} == cold value x factor (expanding) or cold value",
                     hot[k], want)
        # number densities: depend on the end temperature only
        scale = ((100.0 + pct(t0)) / (100.0 + pct(t))) ** 2
        for n_, v in nd.items():
            if nd0[n_] and relerr(v / nd0[n_], scale) > TOL:
                fail("number-density-path", "N(T) == N0 * (p(T0)/p(T))^2 whatever the history", v, nd0[n_] * scale)
                break
        steps.append({"T": t, "pct": pct(t), "factor": f_real, "hot": hot, "area": area, "nd": nd})
        nd_prev = nd
    # path independence against a twin taken directly to the end temperature
    with common.quiet():
        twin = build(shape, twin_m, tin, t0, dims)
        twin.setTemperature(temps[-1])
    tnd = twin.getNumberDensities()
    for n_, v in nd_prev.items():
        if tnd[n_] and relerr(v / tnd[n_], 1.0) > TOL:
            fail("path-independence", "end state depends only on the final temperature", v, tnd[n_])
            break
    for k in names:
        if relerr(float(twin.getDimension(k)), float(comp.getDimension(k))) > TOL:
            fail("path-independence", "end dimensions depend only on the final temperature",
                 float(comp.getDimension(k)), float(twin.getDimension(k)))
    # hot set read-back on every dimension
    readback = []
    for k in names:
        v = dims[k] * 1.0625 if dims[k] else 0.375
        with common.quiet():
            twin.setDimension(k, v, cold=False)
        got = float(twin.getDimension(k))
        if relerr(got, v) > TOL:
            fail("hot-dimension-readback", f"setDimension({k}, v, cold=False) reads back v", got, v)
        readback.append((k, v, got, float(twin.getDimension(k, cold=True))))
    if collect is not None:
        collect.update(dict(p_in=p_in, steps=steps, exp_real=exp_real, nd0=nd0, readback=readback,
                            f_end=float(comp.getThermalExpansionFactor())))


def oracle_unshaped(case, fail):
    mats = material_classes()
    mcls = mats[case["material"]]
    tin, t0, path, a0 = case["tin"], case["t0"], case["path"], case["dims"]["area"]
    with common.quiet():
        m = mcls()
        comp = build("UnshapedComponent", m, tin, t0, {"area": a0})
    nd0 = dict(comp.getNumberDensities())
    m0 = mass_density(nd0) * comp.getArea()
    out = []
    for t in [t0] + list(path):
        with common.quiet():
            comp.setTemperature(t)
        f = (100.0 + float(m.linearExpansionPercent(Tc=t))) / (100.0 + float(m.linearExpansionPercent(Tc=tin)))
        area = float(comp.getArea())
        if relerr(area, f * f * a0) > TOL * max(1.0, area):
            fail("area-factor-squared", "unshaped hot area == factor^2 * cold area", area, f * f * a0)
        mh = mass_density(comp.getNumberDensities()) * area
        if m0 > 0 and relerr(mh / m0, 1.0) > TOL:
            fail("mass-per-height", "mass per unit height is conserved by setTemperature (unshaped)", mh, m0)
        out.append((f, area))
    return out


# --------------------------------------------------------------------------- streams
def sys_token(comps):
    """encode [(kind, factor|None, expdims, [(name, value | ('@', j, key))])] for the driver."""
    toks = []
    for kind, factor, exp, dims in comps:
        ds = ",".join(f"{k}=@{v[1]}.{v[2]}" if isinstance(v, tuple) else f"{k}={rat(v)}" for k, v in dims)
        toks.append(";".join([kind, "_" if factor is None else rat(factor), "[" + ",".join(exp) + "]", ds]))
    return "|".join(toks)


def close_line(ctx, what, case, model_line, impl_value):
    """model rational (or reject) vs implementation float (or 'reject')."""
    if model_line in ("reject", "bad-op") or impl_value == "reject":
        if model_line != impl_value:
            ctx.disagree(what, case, model_line, impl_value)
        return
    if not common.close(impl_value, common.unrat(model_line), TOL):
        ctx.disagree(what, case, float(common.unrat(model_line)), impl_value)


def run_solids(ctx, mats):
    shapes = list(SHAPE_DIMS)
    solids = [n for n, i in mats.items() if i["kind"] == "solid" and i.get("has_nd")]
    npaths = ctx.pick(6, 40)
    req, chk = [], []   # request lines and (kind, case, impl value / list)
    for shape in shapes:
        for mname in solids:
            info = mats[mname]
            for rep in range(npaths):
                rng = ctx.rng
                lo, hi = info["lo"], info["hi"]
                plen = rng.randint(1, 8)
                temps = gen_temps(rng, lo, hi, plen + 2)
                if rng.random() < 0.15:
                    temps[1] = temps[0]          # starts at the input temperature (factor exactly 1)
                if plen >= 3 and rng.random() < 0.3:
                    temps[-1] = temps[2]          # history revisits a temperature
                # exact validity bounds and exactly 0.0 C, visited and then left again
                sp = info["special"][(rep + len(req)) % len(info["special"])] if rep % 3 != 2 else None
                if sp is not None:
                    pos = rng.randrange(0, len(temps))
                    if all(sp == u or abs(sp - u) >= 0.5 for u in temps):
                        temps[pos] = sp
                        ctx.count("history visits exactly 0.0 C" if sp == 0.0 else "history visits an exact validity bound")
                case = dict(shape=shape, material=mname, dims=gen_dims(rng, shape), tin=temps[0], t0=temps[1],
                            path=temps[2:])
                got = {}

                def fail(key, clause, observed, expected, case=case):
                    ctx.fail(key, clause, case, observed=observed, expected=expected)

                try:
                    oracle_solid(case, fail, got)
                except Exception as e:  # the real code refuses an in-range case
                    ctx.fail("solid-expansion-raises", "expansion inside the validity range does not raise", case,
                             observed=repr(e)[:300])
                    continue
                ctx.case((shape, mname, rep), nontrivial=True,
                         sample={"case": case, "end_factor": got.get("f_end")} if (shape, rep) == ("Helix", 0) and mname == solids[0] else None)
                ctx.count(f"shape {shape}")
                if not got:
                    continue
                names = SHAPE_DIMS[shape]
                p_in = got["p_in"]
                # correspondence 1: factor at every visited temperature
                for st in got["steps"]:
                    same = abs(st["T"] - case["tin"]) <= 1e-10
                    req.append(f"factor S {rat(st['pct'])} {rat(p_in)} {'T' if same else 'F'}")
                    chk.append(("factor", case, st["factor"]))
                # correspondence 2: number densities along the history
                nucs = sorted(got["nd0"])
                req.append(f"path {ratlist([s['pct'] for s in got['steps']])} {ratlist([got['nd0'][n] for n in nucs])}")
                chk.append(("path", case, [got["steps"][-1]["nd"][n] for n in nucs]))
                # correspondence 3: hot dimensions through the model's getDimension with ITS expansion table
                last = got["steps"][-1]
                comp = ("S", last["factor"], MODEL_EXP[shape], [(k, case["dims"][k]) for k in names])
                tok = sys_token([comp])
                for k in names:
                    req.append(f"getdim {tok} 0 {k} F")
                    chk.append(("getdim", dict(case, dim=k), last["hot"][k]))
                # correspondence 4: area function on the real hot dimensions
                req.append(f"area {shape} {rat(PI)} {rat(SQ3)} {ratlist([last['hot'][k] for k in names])}")
                chk.append(("area", case, last["area"]))
                # correspondence 5: hot set + read back (hot and cold)
                k, v, got_hot, got_cold = got["readback"][rng.randrange(len(names))]
                req.append(f"setdim {tok} 0 {k} {rat(v)} F F")
                chk.append(("setdim", dict(case, dim=k, v=v), got_hot))
                req.append(f"setdim {tok} 0 {k} {rat(v)} F T")
                chk.append(("setdim-cold", dict(case, dim=k, v=v), got_cold))
    # unshaped components: area = factor^2 * cold area
    for mname in solids:
        info = mats[mname]
        temps = gen_temps(ctx.rng, info["lo"], info["hi"], 4)
        case = dict(shape="UnshapedComponent", material=mname, dims={"area": common.dyadic(ctx.rng, 1, 9)},
                    tin=temps[0], t0=temps[1], path=temps[2:])

        def fail(key, clause, observed, expected, case=case):
            ctx.fail(key, clause, case, observed=observed, expected=expected)

        try:
            res = oracle_unshaped(case, fail)
        except Exception as e:
            ctx.fail("solid-expansion-raises", "expansion inside the validity range does not raise", case,
                     observed=repr(e)[:300])
            continue
        ctx.case(("UnshapedComponent", mname), nontrivial=True)
        ctx.count("shape UnshapedComponent")
        f, area = res[-1]
        req.append(f"unshaped {rat(f)} {rat(case['dims']['area'])}")
        chk.append(("unshaped", case, area))
    model = lean_run("Thermal", req)
    for line, (kind, case, val) in zip(model, chk):
        if kind == "path":
            try:
                qs = [common.unrat(x) for x in common.parse_list(line)]
            except Exception:
                ctx.disagree("Thermal.runPath vs setTemperature history", case, line, val)
                continue
            if len(qs) != len(val) or any(not common.close(v, q, TOL) and relerr(v / float(q), 1.0) > TOL
                                          for v, q in zip(val, qs)):
                ctx.disagree("Thermal.runPath vs setTemperature history", case, [float(q) for q in qs], val)
        else:
            close_line(ctx, f"Thermal.{kind} vs component", case, line, val)
    ctx.evaluations += len(req)
    ctx.count("model requests (solids)", len(req))
    if req:
        ctx.samples.append({"request": req[0][:300], "model": model[0], "impl": chk[0][2]})
    return solids


def run_zero_and_fluids(ctx, mats):
    """solids without a correlation raise RuntimeError once the temperature differs from the input temperature;
    fluids and Custom keep their dimensions (and their area)."""
    from armi.reactor import components

    req, chk = [], []
    shapes = list(SHAPE_DIMS)
    for mname, info in mats.items():
        if info["kind"] not in ("zero", "fluid"):
            continue
        for shape in (shapes if ctx.thorough else ctx.rng.sample(shapes, 5)):
            rng = ctx.rng
            temps = gen_temps(rng, 50.0, 500.0, 3)
            dims = gen_dims(rng, shape)
            case = dict(shape=shape, material=mname, dims=dims, tin=temps[0], t0=temps[1], path=temps[2:])
            names = SHAPE_DIMS[shape]
            try:
                with common.quiet():
                    m = info["cls"]()
                    comp = build(shape, m, temps[0], temps[0], dims)
                    a_same = float(comp.getArea())
                    d_same = {k: float(comp.getDimension(k)) for k in names}
            except Exception as e:
                ctx.count(f"unconstructible {mname}")
                continue
            ctx.case((shape, mname, info["kind"]), nontrivial=True)
            ctx.count(f"material kind {info['kind']}")
            for k in names:
                if d_same[k] != dims[k]:
                    ctx.fail("dimension-at-input-temperature", "at the input temperature a dimension is its input value",
                             dict(case, dim=k), observed=d_same[k], expected=dims[k])
            with common.quiet():
                pin = float(m.linearExpansionPercent(Tc=temps[0]))
            req.append(f"factor {'F' if info['kind'] == 'fluid' else 'S'} {rat(pin)} {rat(pin)} T")
            chk.append(("factor", case, float(comp.getThermalExpansionFactor())))
            for t in temps[1:]:
                with common.quiet():
                    try:
                        comp.setTemperature(t)
                    except Exception as e:
                        ctx.fail("set-temperature-raises", "setTemperature itself does not raise", dict(case, T=t),
                                 observed=repr(e)[:200])
                        break
                    pt = float(m.linearExpansionPercent(Tc=t))
                    try:
                        f = float(comp.getThermalExpansionFactor())
                        hot = {k: float(comp.getDimension(k)) for k in names}
                        area = float(comp.getArea())
                        res = "ok"
                    except RuntimeError:
                        res, f = "reject", "reject"
                req.append(f"factor {'F' if info['kind'] == 'fluid' else 'S'} {rat(pt)} {rat(pin)} F")
                chk.append(("factor", dict(case, T=t), f))
                if info["kind"] == "fluid":
                    if res != "ok":
                        ctx.fail("fluid-dimension-raises", "a fluid/custom component can be read at any temperature",
                                 dict(case, T=t), observed=res)
                        continue
                    for k in names:
                        if hot[k] != dims[k]:
                            ctx.fail("fluid-dimension-changed", "fluids and custom materials keep their dimensions",
                                     dict(case, T=t, dim=k), observed=hot[k], expected=dims[k])
                    if relerr(area, a_same) > 1e-12:
                        ctx.fail("fluid-dimension-changed", "fluids and custom materials keep their area",
                                 dict(case, T=t), observed=area, expected=a_same)
                else:
                    # documented rejection: a solid that defines no correlation cannot be expanded
                    if res == "ok" and any(hot[k] != dims[k] for k in names):
                        ctx.fail("zero-expansion-solid-changed", "a solid without a correlation never changes dimensions",
                                 dict(case, T=t), observed=hot)
                    ctx.count(f"zero-correlation solid read: {res}")
    model = lean_run("Thermal", req)
    for line, (kind, case, val) in zip(model, chk):
        close_line(ctx, "Thermal.thermalExpansionFactor vs component (fluid / no-correlation solid)", case, line, val)
    ctx.evaluations += len(req)


LINK_CONFIGS = ["pin", "duct", "chain", "liner"]


def build_linked(cfg, rng, mats, solids):
    """A few linked-dimension configurations; returns (components in order, names)."""
    from armi.reactor import components

    def mat(n):
        return mats[n]["cls"]()

    a, b = rng.choice(solids), rng.choice(solids)
    ra, rb = mats[a], mats[b]
    ta = gen_temps(rng, ra["lo"], ra["hi"], 2)
    tb = gen_temps(rng, rb["lo"], rb["hi"], 2)
    d = common.dyadic
    if cfg == "pin":
        fuel = components.Circle("fuel", mat(a), ta[0], ta[1], od=d(rng, 0.5, 1), id=0.0, mult=float(rng.choice([1, 7, 169])))
        clad = components.Circle("clad", mat(b), tb[0], tb[1], od=1.5, id=1.25, mult="fuel.mult",
                                 components={"fuel": fuel})
        bond = components.Circle("bond", "Sodium", 450.0, 450.0, od="clad.id", id="fuel.od", mult="fuel.mult",
                                 components={"fuel": fuel, "clad": clad})
        return [fuel, clad, bond], (a, b)
    if cfg == "duct":
        duct = components.Hexagon("duct", mat(a), ta[0], ta[1], op=d(rng, 10, 16), ip=d(rng, 8, 9.5), mult=1.0)
        inter = components.Hexagon("intercoolant", "Sodium", 450.0, 450.0, op=17.0, ip="duct.op", mult=1.0,
                                   components={"duct": duct})
        liner = components.Hexagon("liner", mat(b), tb[0], tb[1], op="duct.ip", ip=d(rng, 6, 7.5), mult="duct.mult",
                                   components={"duct": duct})
        return [duct, inter, liner], (a, b)
    if cfg == "liner":
        # linker and link target with different solid materials (liner.od -> clad.id), void gap id -> fuel.od
        c3 = rng.choice(solids)
        tc = gen_temps(rng, mats[c3]["lo"], mats[c3]["hi"], 2)
        fuel = components.Circle("fuel", mat(a), ta[0], ta[1], od=d(rng, 0.5, 0.875), id=0.0, mult=7.0)
        clad = components.Circle("clad", mat(b), tb[0], tb[1], od=1.5, id=1.25, mult=7.0)
        liner = components.Circle("liner", mat(c3), tc[0], tc[1], od="clad.id", id=1.125, mult="clad.mult",
                                  components={"clad": clad})
        gap = components.Circle("gap", "Void", 20.0, 20.0, od="liner.id", id="fuel.od", mult="fuel.mult",
                                components={"fuel": fuel, "liner": liner})
        return [fuel, clad, liner, gap], (a, b)
    # chain: a link to a link
    fuel = components.Circle("fuel", mat(a), ta[0], ta[1], od=d(rng, 0.5, 1), id=0.0, mult=3.0)
    gap1 = components.Circle("gap1", "Void", 20.0, 20.0, od=1.125, id="fuel.od", mult="fuel.mult",
                             components={"fuel": fuel})
    liner = components.Circle("liner", mat(b), tb[0], tb[1], od=1.25, id="gap1.od", mult="gap1.mult",
                              components={"fuel": fuel, "gap1": gap1})
    gap2 = components.Circle("gap2", "Void", 20.0, 20.0, od=1.5, id="liner.id", mult="liner.mult",
                             components={"liner": liner})
    return [fuel, gap1, liner, gap2], (a, b)


def linked_snapshot(comps):
    """(model token, list of (i, key, hot value, cold value), link facts) for the current state."""
    from armi.materials import material
    from armi.materials.custom import Custom
    from armi.reactor.components.component import _DimensionLink

    idx = {id(c): i for i, c in enumerate(comps)}
    enc, reads, links = [], [], []
    for i, c in enumerate(comps):
        fluid = isinstance(c.material, (material.Fluid, Custom))
        try:
            factor = float(c.getThermalExpansionFactor())
        except RuntimeError:
            factor = None
        dims = []
        for k in c.DIMENSION_NAMES:
            v = c.p[k]
            if v is None:
                continue
            if isinstance(v, _DimensionLink):
                dims.append((k, ("@", idx[id(v[0])], v[1])))
                links.append((i, k, idx[id(v[0])], v[1]))
            else:
                dims.append((k, float(v)))
            reads.append((i, k))
        enc.append(("F" if fluid else "S", factor, sorted(c.THERMAL_EXPANSION_DIMS), dims))
    return sys_token(enc), reads, links


def run_links(ctx, mats, solids):
    n = ctx.pick(80, 400)
    req, chk = [], []
    for rep in range(n):
        rng = ctx.rng
        cfg = LINK_CONFIGS[rep % len(LINK_CONFIGS)]
        seed = rng.getrandbits(40)
        case = {"config": cfg, "seed": seed}
        fails = []
        try:
            data = links_case(cfg, seed, mats, solids, lambda *a: fails.append(a))
        except ArithmeticError:
            ctx.count("linked config with negative area (skipped)")
            continue
        for key, clause, obs, exp, extra in fails:
            ctx.fail(key, clause, dict(case, **extra), observed=obs, expected=exp)
        ctx.case(("links", cfg, seed), nontrivial=True, sample={"links": case, "reads": data[:2]} if rep == 0 else None)
        ctx.count(f"link config {cfg}")
        for line, extra, val in data:
            req.append(line)
            chk.append(("getdim-linked", dict(case, **extra), val))
    model = lean_run("Thermal", req)
    for line, (kind, case, val) in zip(model, chk):
        close_line(ctx, "Thermal.getDimension (links) vs component", case, line, val)
    ctx.evaluations += len(req)
    ctx.count("model requests (links)", len(req))


def links_case(cfg, seed, mats, solids, fail):
    """Build one linked configuration, move temperatures around, check 'a linked dimension equals the linked
    component's current dimension' on the real objects; returns rows for the correspondence."""
    import random

    rng = random.Random(seed)
    with common.quiet():
        comps, (a, b) = build_linked(cfg, rng, mats, solids)
    rows = []
    for step in range(4):
        if step:
            with common.quiet():
                for c, mn in ((comps[0], a), (comps[2] if cfg != "pin" else comps[1], b)):
                    info = mats[mn]
                    c.setTemperature(gen_temps(rng, info["lo"], info["hi"], 1)[0])
                if step == 2:
                    # a hot set on the link target must show through the link
                    tgt = comps[0]
                    key = "od" if cfg != "duct" else "op"
                    tgt.setDimension(key, float(tgt.getDimension(key)) * 1.03125, cold=False)
        tok, reads, links = linked_snapshot(comps)
        for (i, k, j, kk) in links:
            for cold in (False, True):
                mine = float(comps[i].getDimension(k, cold=cold))
                theirs = float(comps[j].getDimension(kk, cold=cold))
                if mine != theirs:
                    fail("linked-dimension-follows", "a linked dimension equals the linked component's current dimension",
                         mine, theirs, {"step": step, "comp": comps[i].name, "dim": k, "cold": cold})
        for (i, k) in reads:
            for cold in (False, True):
                rows.append((f"getdim {tok} {i} {k} {'T' if cold else 'F'}", {"step": step, "comp": i, "dim": k, "cold": cold},
                             float(comps[i].getDimension(k, cold=cold))))
    # getDimension(key, Tc=T): the temperature is handed down the link chain; every component is evaluated with its
    # own material at T (T inside both solids' validity ranges)
    from armi.materials import material as _material
    from armi.materials.custom import Custom as _Custom

    lo = max(mats[a]["lo"], mats[b]["lo"])
    hi = min(mats[a]["hi"], mats[b]["hi"])
    if cfg == "liner":
        others = [c.material.__class__.__name__ for c in comps if c.material.__class__.__name__ in mats
                  and mats[c.material.__class__.__name__]["kind"] == "solid"]
        lo = max([lo] + [mats[n]["lo"] for n in others])
        hi = min([hi] + [mats[n]["hi"] for n in others])
    if hi - lo > 5.0:
        Tc = gen_temps(rng, lo, hi, 1)[0]
        tok, reads, links = linked_snapshot(comps)
        facs = []
        for c in comps:
            try:
                facs.append(float(c.getThermalExpansionFactor(Tc=Tc)))
            except RuntimeError:
                facs.append(None)
        ftok = "[" + ",".join("_" if f is None else rat(f) for f in facs) + "]"
        for (i, k, j, kk) in links:
            mine = float(comps[i].getDimension(k, Tc=Tc))
            theirs = float(comps[j].getDimension(kk, Tc=Tc))
            if mine != theirs:
                fail("linked-dimension-follows", "a linked dimension read at Tc equals the link target's dimension at Tc",
                     mine, theirs, {"Tc": Tc, "comp": comps[i].name, "dim": k})
        for i, c in enumerate(comps):
            fluid = isinstance(c.material, (_material.Fluid, _Custom))
            for k in c.DIMENSION_NAMES:
                v = c.p[k]
                if v is None:
                    continue
                got = float(c.getDimension(k, Tc=Tc))
                rows.append((f"getdimtc {tok} {ftok} {i} {k}", {"Tc": Tc, "comp": i, "dim": k}, got))
                if isinstance(v, (int, float)) and not fluid and k in c.THERMAL_EXPANSION_DIMS and v:
                    m_ = c.material
                    want = float(v) * (100.0 + float(m_.linearExpansionPercent(Tc=Tc))) / (
                        100.0 + float(m_.linearExpansionPercent(Tc=c.inputTemperatureInC)))
                    if relerr(got, want) > TOL:
                        fail("dimension-at-Tc", "getDimension(key, Tc=T) == cold value x p(T)/p(Tinput)", got, want,
                             {"Tc": Tc, "comp": c.name, "dim": k})
    # setDimension through / over links: (component, key, cold, retainLink)
    ops = {"pin": [(2, "od", False, True), (2, "id", True, True), (2, "od", False, False)],
           "duct": [(2, "op", False, True), (1, "ip", True, True), (1, "ip", False, False)],
           "chain": [(2, "id", False, True), (3, "id", False, True), (1, "id", False, False)],
           "liner": [(2, "od", False, True), (3, "id", False, True), (3, "id", True, True), (3, "od", False, False),
                     (2, "id", False, False)]}[cfg]
    from armi.reactor.components.component import _DimensionLink

    for (i, key, cold, retain) in ops:
        c = comps[i]
        tok, reads, links = linked_snapshot(comps)
        was_link = isinstance(c.p[key], _DimensionLink)
        target = (c.p[key][0], c.p[key][1]) if was_link else None
        cur = float(c.getDimension(key, cold=cold))
        v = cur * rng.choice([1.015625, 0.984375, 1.0])
        with common.quiet():
            c.setDimension(key, v, retainLink=retain, cold=cold)
        extra = {"op": "setDimension", "comp": c.name, "dim": key, "v": v, "cold": cold, "retainLink": retain}
        got = float(c.getDimension(key, cold=cold))
        if abs(got - v) > TOL * max(1.0, abs(v)):
            fail("set-dimension-readback",
                 "setDimension(key, v, retainLink, cold) reads back v at the same (hot/cold) level", got, v, extra)
        if was_link and retain:
            if not isinstance(c.p[key], _DimensionLink):
                fail("retain-link-dropped", "retainLink=True keeps the link", None, None, extra)
            tv = float(target[0].getDimension(target[1], cold=cold))
            if abs(tv - v) > TOL * max(1.0, abs(v)):
                fail("linked-dimension-follows", "a set through a retained link lands on the link target", tv, v, extra)
        if was_link and not retain and isinstance(c.p[key], _DimensionLink):
            fail("link-not-dropped", "setDimension without retainLink replaces the link by the value", None, None, extra)
        idx = {id(x): n for n, x in enumerate(comps)}
        queries = [(i, key)] + ([(idx[id(target[0])], target[1])] if was_link else [])
        for (qi, qk) in queries:
            for rc in (False, True):
                rows.append((f"setdimat {tok} {i} {key} {rat(v)} {'T' if cold else 'F'} {'T' if retain else 'F'} "
                             f"{qi} {qk} {'T' if rc else 'F'}", dict(extra, query=[qi, qk], readCold=rc),
                             float(comps[qi].getDimension(qk, cold=rc))))
    return rows


def chain_case(seed, mats, solids, fail):
    """Chained links A -> B -> C (and a 3-hop chain); the MIDDLE of the chain is then edited (link replaced by a
    value, hot set, re-linked to another target) with temperature changes in between.  Links are judged against the
    DECLARED targets kept by this function, not against what the components store."""
    import random

    from armi.materials import material as _material
    from armi.materials.custom import Custom as _Custom
    from armi.reactor import components
    from armi.reactor.components.component import _DimensionLink

    rng = random.Random(seed)
    a, b, c3 = (rng.choice(solids) for _ in range(3))

    def mat(n):
        return mats[n]["cls"]()

    def temps(n, k):
        return gen_temps(rng, mats[n]["lo"], mats[n]["hi"], k)

    ta, tb, tc = temps(a, 2), temps(b, 8), temps(c3, 8)
    with common.quiet():
        fuel = components.Circle("fuel", mat(a), ta[0], ta[1], od=common.dyadic(rng, 0.5, 0.75, 4), id=0.0, mult=7.0)
        clad = components.Circle("clad", mat(b), tb[0], tb[1], od=1.5, id=1.25, mult=7.0)
        liner = components.Circle("liner", mat(c3), tc[0], tc[1], od="clad.id", id=1.0, mult="clad.mult",
                                  components={"clad": clad})                      # B, built before A
        interface = components.Circle("interface", "Void", 20.0, 20.0, od="clad.id", id="liner.od", mult="liner.mult",
                                      components={"clad": clad, "liner": liner})  # A -> B -> C
        gap2 = components.Circle("gap2", "Void", 20.0, 20.0, od=1.375, id="interface.id", mult="interface.mult",
                                 components={"interface": interface})             # 3 hops
    comps = [fuel, clad, liner, interface, gap2]
    declared = {(2, "od"): (1, "id"), (2, "mult"): (1, "mult"), (3, "od"): (1, "id"), (3, "id"): (2, "od"),
                (3, "mult"): (2, "mult"), (4, "id"): (3, "id"), (4, "mult"): (3, "mult")}
    lo = max(mats[n]["lo"] for n in (a, b, c3))
    hi = min(mats[n]["hi"] for n in (a, b, c3))
    rows = []

    def token(Tc=None):
        enc = []
        for i, c in enumerate(comps):
            fluid = isinstance(c.material, (_material.Fluid, _Custom))
            try:
                f = float(c.getThermalExpansionFactor(Tc=Tc)) if Tc is not None else float(c.getThermalExpansionFactor())
            except RuntimeError:
                f = None
            dims = []
            for k in c.DIMENSION_NAMES:
                v = c.p[k]
                if v is None:
                    continue
                if (i, k) in declared:
                    j, kk = declared[(i, k)]
                    dims.append((k, ("@", j, kk)))
                elif isinstance(v, _DimensionLink):
                    fail("link-not-dropped", "setDimension without retainLink replaces the link by the value", None, None,
                         {"comp": c.name, "dim": k})
                    dims.append((k, float(c.getDimension(k, cold=True))))
                else:
                    dims.append((k, float(v)))
            enc.append(("F" if fluid else "S", f, sorted(c.THERMAL_EXPANSION_DIMS), dims))
        return enc

    def check(tag):
        Tc = gen_temps(rng, lo, hi, 1)[0] if hi - lo > 5.0 else None
        tok = sys_token(token())
        for (i, k), (j, kk) in declared.items():
            modes = [("hot", {}), ("cold", {"cold": True})] + ([("Tc", {"Tc": Tc})] if Tc is not None else [])
            for name, kw in modes:
                mine = float(comps[i].getDimension(k, **kw))
                theirs = float(comps[j].getDimension(kk, **kw))
                if mine != theirs:
                    fail("linked-dimension-follows", "a linked dimension equals the CURRENT dimension of the component it was "
                         "declared linked to", mine, theirs, {"after": tag, "comp": comps[i].name, "dim": k, "read": name})
        for i, c in enumerate(comps):
            for k in c.DIMENSION_NAMES:
                if c.p[k] is None:
                    continue
                for cold in (False, True):
                    rows.append((f"getdim {tok} {i} {k} {'T' if cold else 'F'}", {"after": tag, "comp": i, "dim": k, "cold": cold},
                                 float(c.getDimension(k, cold=cold))))
        if Tc is not None:
            enc = token(Tc)
            ftok = "[" + ",".join("_" if e[1] is None else rat(e[1]) for e in enc) + "]"
            for i, c in enumerate(comps):
                for k in c.DIMENSION_NAMES:
                    if c.p[k] is not None:
                        rows.append((f"getdimtc {tok} {ftok} {i} {k}", {"after": tag, "comp": i, "dim": k, "Tc": Tc},
                                     float(c.getDimension(k, Tc=Tc))))

    step = [2]

    def heat():
        with common.quiet():
            clad.setTemperature(tb[step[0]])
            liner.setTemperature(tc[step[0]])
        step[0] += 1

    check("built")
    heat()
    check("chain intact, temperatures changed")
    # replace B's link by its own value (cold or hot), no retainLink
    cold = rng.random() < 0.5
    v = float(liner.getDimension("od", cold=cold)) * rng.choice([0.984375, 1.0, 1.015625])
    with common.quiet():
        liner.setDimension("od", v, cold=cold)
    del declared[(2, "od")]
    got = float(liner.getDimension("od", cold=cold))
    if relerr(got, v) > TOL:
        fail("set-dimension-readback", "setDimension reads back at the same (hot/cold) level", got, v, {"comp": "liner", "cold": cold})
    check("middle link replaced by a value")
    heat()
    check("middle link replaced, temperatures changed")
    heat()
    check("middle link replaced, temperatures changed twice")
    # a hot set on B reads back through A (and through the 3-hop chain)
    v2 = float(liner.getDimension("od")) * 1.0078125
    with common.quiet():
        liner.setDimension("od", v2, cold=False)
    for c, k in ((interface, "id"), (gap2, "id")):
        got = float(c.getDimension(k))
        if relerr(got, v2) > TOL:
            fail("linked-dimension-follows", "a hot set on the link target reads back through the link", got, v2,
                 {"after": "hot set on the middle", "comp": c.name, "dim": k})
    check("hot set on the middle")
    # re-link B to a different target
    with common.quiet():
        liner.setLink("od", clad, "od")
        liner.clearLinkedCache()
    declared[(2, "od")] = (1, "od")
    check("middle re-linked to another target")
    heat()
    check("middle re-linked, temperatures changed")
    # retained-link set at the end of the 3-hop chain lands on the current declared end (clad.od)
    v3 = float(gap2.getDimension("id")) * 1.00390625
    with common.quiet():
        interface.setDimension("id", v3, retainLink=True, cold=False)
    got = float(gap2.getDimension("id"))
    if relerr(got, v3) > TOL:
        fail("set-dimension-readback", "a hot set through a retained link reads back along the chain", got, v3,
             {"after": "retained set on A", "comp": "gap2", "dim": "id"})
    # (retainLink resolves ONE level: the value is stored on liner.od, replacing its link)
    if not isinstance(liner.p["od"], _DimensionLink):
        del declared[(2, "od")]
    check("retained-link set on A")
    return rows


def run_chains(ctx, mats, solids):
    n = ctx.pick(20, 200)
    req, chk = [], []
    for rep in range(n):
        seed = ctx.rng.getrandbits(40)
        case = {"chain": True, "seed": seed}
        fails = []
        rows = chain_case(seed, mats, solids, lambda *a: fails.append(a))
        for key, clause, obs, exp, extra in fails:
            ctx.fail(key, clause, dict(case, **extra), observed=obs, expected=exp)
        ctx.case(("chain", seed), nontrivial=True)
        for line, extra, val in rows:
            req.append(line)
            chk.append((dict(case, **extra), val))
    model = lean_run("Thermal", req)
    for line, (c, val) in zip(model, chk):
        close_line(ctx, "Thermal.getDimension (chained links, declared targets) vs component", c, line, val)
    ctx.evaluations += len(req)
    ctx.count("chained-link cases", n)
    ctx.count("model requests (chained links)", len(req))


def alias_case(seed, mats, solids, fail):
    """ALIASED inputs: the same number-density dict object given to several components (through
    setNumberDensities and through p.numberDensities) and the same material object given to two components; then
    setTemperature / changeNDensByFactor on ONE of them: every other component and the caller's dict stay as they
    were.  Returns correspondence rows (each component follows only its own temperature history)."""
    import random

    from armi.reactor import components

    rng = random.Random(seed)
    a = rng.choice(solids)
    info = mats[a]
    t = gen_temps(rng, info["lo"], info["hi"], 6)
    rows = []
    with common.quiet():
        shared_mat = info["cls"]()
        c1 = components.Circle("c1", info["cls"](), t[0], t[1], od=1.0, id=0.5, mult=3.0)
        c2 = components.Circle("c2", info["cls"](), t[0], t[1], od=1.25, id=0.25, mult=1.0)
        c3 = components.Hexagon("c3", info["cls"](), t[0], t[1], op=4.0, ip=3.0, mult=1.0)
        m1 = components.Circle("m1", shared_mat, t[0], t[1], od=1.0, id=0.0, mult=1.0)
        m2 = components.Circle("m2", shared_mat, t[0], t[2], od=2.0, id=1.0, mult=1.0)     # same material OBJECT
    base = dict(c1.getNumberDensities())
    if not base or not any(base.values()):
        return rows
    mode = rng.choice(["setNumberDensities", "p.numberDensities", "updateNumberDensities"])
    shared = {n: v * 1.5 for n, v in base.items()}
    caller_copy = dict(shared)
    with common.quiet():
        for c in (c1, c2, c3):
            if mode == "setNumberDensities":
                c.setNumberDensities(shared)
            elif mode == "updateNumberDensities":
                c.updateNumberDensities(shared)
            else:
                c.p.numberDensities = shared
    comps = {"c1": c1, "c2": c2, "c3": c3, "m1": m1, "m2": m2}
    temps_now = {k: float(c.temperatureInC) for k, c in comps.items()}

    def state():
        return {k: (dict(c.getNumberDensities()), float(c.getDimension("od" if k != "c3" else "op")), float(c.getArea()))
                for k, c in comps.items()}

    script = [("c1", "setTemperature", t[3]), ("c2", "changeNDensByFactor", 0.5), ("m1", "setTemperature", t[4]),
              ("c3", "setTemperature", t[5]), ("c1", "setTemperature", t[2]), ("m2", "setTemperature", t[3])]
    for (who, op, arg) in script:
        before = state()
        pct_prev = float(comps[who].material.linearExpansionPercent(Tc=temps_now[who]))
        with common.quiet():
            if op == "setTemperature":
                comps[who].setTemperature(arg)
            else:
                comps[who].changeNDensByFactor(arg)
        after = state()
        extra = {"aliasing": mode, "acted_on": who, "op": op, "arg": arg}
        if shared != caller_copy and mode != "p.numberDensities":
            fail("caller-dict-mutated", "the dict passed to setNumberDensities/updateNumberDensities is not mutated later",
                 {n: shared[n] for n in list(shared)[:2]}, {n: caller_copy[n] for n in list(shared)[:2]}, extra)
        for k in comps:
            if k == who:
                continue
            if after[k] != before[k]:
                fail("aliased-component-changed", "changing the temperature / densities of one component leaves every other "
                     "component (sharing its input dict or material object) unchanged",
                     [list(after[k][0].values())[:2], after[k][1]], [list(before[k][0].values())[:2], before[k][1]],
                     dict(extra, other=k))
        # the component acted on follows its own history (model: one step of runPath on its own densities)
        names = sorted(before[who][0])
        if op == "setTemperature":
            pct_new = float(comps[who].material.linearExpansionPercent(Tc=arg))
            temps_now[who] = float(arg)
            rows.append((f"path {ratlist([pct_prev, pct_new])} {ratlist([before[who][0][n] for n in names])}",
                         dict(extra, check="acted-on densities"), [after[who][0][n] for n in names]))
            f_exp = ((100.0 + pct_prev) / (100.0 + pct_new)) ** 2
            for n in names:
                if before[who][0][n] and relerr(after[who][0][n] / before[who][0][n], f_exp) > TOL:
                    fail("number-density-path", "setTemperature scales the component's own densities by (p(T0)/p(T))^2",
                         after[who][0][n], before[who][0][n] * f_exp, extra)
                    break
        else:
            for n in names:
                if relerr(after[who][0][n], before[who][0][n] * arg) > TOL and before[who][0][n]:
                    fail("scale-own-densities", "changeNDensByFactor scales the component's own densities", after[who][0][n],
                         before[who][0][n] * arg, extra)
                    break
    return rows


def run_aliasing(ctx, mats, solids):
    n = ctx.pick(30, 300)
    req, chk = [], []
    for rep in range(n):
        seed = ctx.rng.getrandbits(40)
        case = {"alias": True, "seed": seed}
        fails = []
        rows = alias_case(seed, mats, solids, lambda *a: fails.append(a))
        for key, clause, obs, exp, extra in fails:
            ctx.fail(key, clause, dict(case, **extra), observed=obs, expected=exp)
        ctx.case(("alias", seed), nontrivial=True)
        for line, extra, val in rows:
            req.append(line)
            chk.append((dict(case, **extra), val))
    model = lean_run("Thermal", req)
    for line, (c, val) in zip(model, chk):
        try:
            qs = [common.unrat(x) for x in common.parse_list(line)]
        except Exception:
            ctx.disagree("Thermal.runPath vs setTemperature (aliased inputs)", c, line, val)
            continue
        if len(qs) != len(val) or any(not common.close(v, q, TOL) and relerr(v / float(q), 1.0) > TOL for v, q in zip(val, qs) if q):
            ctx.disagree("Thermal.runPath vs setTemperature (aliased inputs)", c, [float(q) for q in qs], val)
    ctx.evaluations += len(req)
    ctx.count("aliasing cases", n)
    ctx.count("model requests (aliasing)", len(req))


def derived_case(seed, mats, solids, fail, count):
    """A hex block with a derived (left-over) coolant between expanding solids; returns correspondence rows."""
    import random

    from armi.reactor import blocks, components

    rng = random.Random(seed)
    a, b, c3 = (rng.choice(solids) for _ in range(3))

    def mat(n):
        return mats[n]["cls"]()

    def temps(n, k):
        return gen_temps(rng, mats[n]["lo"], mats[n]["hi"], k)

    ta, tb, tc = temps(a, 5), temps(b, 5), temps(c3, 5)
    mult = float(rng.choice([7, 19, 61]))
    with common.quiet():
        blk = blocks.HexBlock("b", height=common.dyadic(rng, 10, 30, 1))
        fuel = components.Circle("fuel", mat(a), ta[0], ta[1], od=common.dyadic(rng, 0.5, 0.75, 4), id=0.0, mult=mult)
        clad = components.Circle("clad", mat(b), tb[0], tb[1], od=1.0, id=0.875, mult=mult)
        duct = components.Hexagon("duct", mat(c3), tc[0], tc[1], op=14.0, ip=13.5, mult=1.0)
        inter = components.Hexagon("intercoolant", "Sodium", 450.0, 450.0, op=14.5, ip="duct.op", mult=1.0,
                                   components={"duct": duct})
        cool = components.DerivedShape("coolant", "Sodium", 450.0, 450.0)
        for c in (fuel, clad, duct, inter, cool):
            blk.add(c)
    sibs = [fuel, clad, duct, inter]
    rows = []
    lo = max(mats[n]["lo"] for n in (a, b, c3))
    hi = min(mats[n]["hi"] for n in (a, b, c3))
    prev = None
    for step in range(4):
        with common.quiet():
            if step:
                fuel.setTemperature(ta[step + 1])
                clad.setTemperature(tb[step + 1])
                duct.setTemperature(tc[step + 1])
            if step == 3:
                # the derived component's own temperature must not matter
                before = float(cool.getArea())
                cool.setTemperature(600.0)
                if float(cool.getArea()) != before:
                    fail("derived-area-own-temperature", "a derived fluid's own temperature does not change its area",
                         float(cool.getArea()), before, {"step": step})
            amax = float(blk.getMaxArea())
            areas = [float(c.getArea()) for c in sibs]
            got = float(cool.getArea())
            cold = [float(c.getArea(cold=True)) for c in sibs]
            gotc = float(cool.getArea(cold=True))
            nd = sum(cool.getNumberDensities().values())
        if abs(got + sum(areas) - amax) > 1e-9 * amax:
            fail("derived-shape-closes-area", "component areas of a block with a derived shape sum to the block's area",
                 got + sum(areas), amax, {"step": step})
        if abs(gotc + sum(cold) - amax) > 1e-9 * amax:
            fail("derived-shape-closes-area", "cold: derived area == max area - cold sibling areas", gotc + sum(cold), amax,
                 {"step": step, "cold": True})
        rows.append((f"derivedarea {rat(amax)} {ratlist(areas)}", {"step": step}, got))
        rows.append((f"derivedarea {rat(amax)} {ratlist(cold)}", {"step": step, "cold": True}, gotc))
        if hi - lo > 5.0:
            Tc = gen_temps(rng, lo, hi, 1)[0]
            with common.quiet():
                at = [float(c.getArea(Tc=Tc)) for c in sibs]
                gott = float(cool.getComponentArea(Tc=Tc))
            if abs(gott + sum(at) - amax) > 1e-9 * amax:
                fail("derived-shape-closes-area", "Tc: derived area == max area - sibling areas at Tc", gott + sum(at), amax,
                     {"step": step, "Tc": Tc})
            rows.append((f"derivedarea {rat(amax)} {ratlist(at)}", {"step": step, "Tc": Tc}, gott))
        if prev is not None and step < 3:
            d_area, d_nd = got - prev[0], nd - prev[2]
            if d_nd != 0.0:
                fail("derived-density-touched", "a neighbour's setTemperature leaves the derived component's densities alone",
                     nd, prev[2], {"step": step})
            want = (amax - prev[3]) - (sum(areas) - prev[1])
            if abs(d_area - want) > 1e-9 * amax:
                fail("derived-shape-follows", "derived area changes by -(change of sibling areas) + (change of max area)",
                     d_area, want, {"step": step})
            count("derived coolant: mass per height changed with a neighbour" if d_area != 0.0
                  else "derived coolant: area unchanged")
        prev = (got, sum(areas), nd, amax)
    return rows


def run_derived(ctx, mats, solids):
    n = ctx.pick(25, 250)
    req, chk = [], []
    for rep in range(n):
        seed = ctx.rng.getrandbits(40)
        case = {"derived": True, "seed": seed}
        fails = []
        try:
            rows = derived_case(seed, mats, solids, lambda *a: fails.append(a), ctx.count)
        except (ArithmeticError, ValueError) as e:
            ctx.count(f"derived block refused ({type(e).__name__})")
            continue
        for key, clause, obs, exp, extra in fails:
            ctx.fail(key, clause, dict(case, **extra), observed=obs, expected=exp)
        ctx.case(("derived", seed), nontrivial=True)
        for line, extra, val in rows:
            req.append(line)
            chk.append(dict(case, **extra))
            chk[-1]["_val"] = val
    model = lean_run("Thermal", req)
    for line, c in zip(model, chk):
        val = c.pop("_val")
        close_line(ctx, "Thermal.derivedArea vs DerivedShape.getComponentArea", c, line, val)
    ctx.evaluations += len(req)
    ctx.count("model requests (derived shape)", len(req))


# --------------------------------------------------------------------------- entry points
def _hush():
    # the documented RuntimeError of solids without a correlation is logged at error level on every call
    try:
        from armi import runLog

        runLog.setVerbosity(50)
    except Exception:
        pass


def run(ctx):
    _hush()
    mats = classify_materials(ctx)
    kinds = {}
    for n, i in mats.items():
        kinds.setdefault(i["kind"], []).append(n)
    for k, v in kinds.items():
        ctx.count(f"material classes: {k}", len(v))
    ctx.extra["materials"] = {k: v for k, v in kinds.items()}
    dep = sorted(n for n, i in mats.items() if i.get("composition_dependent"))
    ctx.extra["composition_dependent_expansion"] = {
        "measured_on": len([1 for i in mats.values() if i["kind"] != "skip"]),
        "materials_whose_expansion_or_density_reduction_changes_with_component_composition": dep,
        "method": "linearExpansionPercent at 5 temperatures and getThermalExpansionDensityReduction at 2 pairs, before/after "
                  "perturbing the component's number densities (first nuclide x3, the others x0.25)"}
    ctx.count("materials with composition-dependent expansion", len(dep))
    for n in dep:
        # the model's assumption 'expansion independent of composition' does not cover these: excluded from the
        # solid cross product below (their setTemperature is judged by nothing) - reported, never silently passed
        ctx.count(f"composition-dependent expansion: {n}")
    # the regenerated table against the real classes and against the model's table (independent of Lean)
    for shape, cls in component_classes().items():
        real = sorted(cls.THERMAL_EXPANSION_DIMS)
        if cls.is3D and real:
            ctx.disagree("3-D shapes have no expanding dimensions", {"shape": shape}, [], real)
        if shape in MODEL_EXP and real != MODEL_EXP[shape]:
            ctx.disagree("THERMAL_EXPANSION_DIMS vs the sets the homogeneity lemmas were proved for",
                         {"shape": shape}, MODEL_EXP[shape], real)
        if not cls.is3D and real and shape not in MODEL_EXP:
            ctx.disagree("2-D shape class with expanding dimensions that has no area model", {"shape": shape}, None, real)
    solids = run_solids(ctx, mats)
    run_zero_and_fluids(ctx, mats)
    run_links(ctx, mats, solids)
    run_derived(ctx, mats, solids)
    run_chains(ctx, mats, solids)
    run_aliasing(ctx, mats, solids)
    ctx.rule = ("full cross product: every 2-D shape class (11 + unshaped) x every solid material class with an expansion "
                "correlation x seeded histories (1-8 temperatures inside the validity range, incl. start at the input "
                "temperature and revisits); every solid class without a correlation and every fluid/Custom class x shapes; "
                "seeded linked-dimension configurations (pin, duct, link-to-link, liner; also read at a given Tc); chained links A->B->C and 3-hop chains whose middle is replaced by a value, "
                "hot-set and re-linked between temperature changes, judged against the declared targets; components given the "
                "SAME number-density dict object / the same material object, then heated or scaled one at a time; hex blocks with a "
                "derived (left-over) coolant between expanding solids. distinct = (shape, material, history "
                "index) / (config, seed); all non-trivial (real setTemperature/getDimension/getArea calls compared with the "
                "model and judged by the oracle).")


def _case_fail_list(case):
    fails = []

    def fail(key, clause, observed, expected):
        fails.append(Failure(key, clause, case, observed=observed, expected=expected))

    try:
        if case.get("shape") == "UnshapedComponent":
            oracle_unshaped(case, fail)
        else:
            oracle_solid(case, fail)
    except Exception as e:
        fails.append(Failure("solid-expansion-raises", "expansion inside the validity range does not raise", case,
                             observed=repr(e)[:300]))
    return fails


def search(ctx, disagreements, broken):
    """Directed search on the real code: the oracle over the full cross product for every shape named by a
    disagreement / broken table obligation (all shapes when none is named), with many more histories."""
    mats = classify_materials(ctx)
    solids = [n for n, i in mats.items() if i["kind"] == "solid" and i.get("has_nd")]
    shapes = set()
    for d in disagreements:
        c = d.case if isinstance(d.case, dict) else {}
        if c.get("shape") in SHAPE_DIMS:
            shapes.add(c["shape"])
    if broken or not shapes:
        real = component_classes()
        for s in SHAPE_DIMS:
            if sorted(real[s].THERMAL_EXPANSION_DIMS) != MODEL_EXP[s]:
                shapes.add(s)
    if not shapes:
        shapes = set(SHAPE_DIMS)
    out = []
    for shape in sorted(shapes):
        for mname in solids:
            info = mats[mname]
            for rep in range(6):
                temps = gen_temps(ctx.rng, info["lo"], info["hi"], ctx.rng.randint(3, 6))
                dims = gen_dims(ctx.rng, shape)
                # make every dimension non-zero so that a dimension dropped from the table shows
                for k, v in list(dims.items()):
                    if v == 0.0:
                        ref = {"id": "od", "ip": "op", "lengthInner": "lengthOuter", "widthInner": "widthOuter"}[k]
                        dims[k] = dims[ref] * 0.5
                case = dict(shape=shape, material=mname, dims=dims, tin=temps[0], t0=temps[1], path=temps[2:])
                out += _case_fail_list(case)
            if len(out) > 50:
                return out
    for d in disagreements:
        c = d.case if isinstance(d.case, dict) else {}
        if c.get("alias"):
            fails = []
            try:
                alias_case(c["seed"], mats, solids, lambda *a: fails.append(a))
            except Exception:
                continue
            for key, clause, obs, exp, extra in fails:
                out.append(Failure(key, clause, dict(alias=True, seed=c["seed"], **extra), observed=obs, expected=exp))
    for d in disagreements:
        c = d.case if isinstance(d.case, dict) else {}
        if c.get("chain"):
            fails = []
            try:
                chain_case(c["seed"], mats, solids, lambda *a: fails.append(a))
            except Exception:
                continue
            for key, clause, obs, exp, extra in fails:
                out.append(Failure(key, clause, dict(chain=True, seed=c["seed"], **extra), observed=obs, expected=exp))
    for d in disagreements:
        c = d.case if isinstance(d.case, dict) else {}
        if c.get("derived"):
            fails = []
            try:
                derived_case(c["seed"], mats, solids, lambda *a: fails.append(a), lambda *_: None)
            except Exception:
                continue
            for key, clause, obs, exp, extra in fails:
                out.append(Failure(key, clause, dict(derived=True, seed=c["seed"], **extra), observed=obs, expected=exp))
    # links
    for d in disagreements:
        c = d.case if isinstance(d.case, dict) else {}
        if "config" in c:
            fails = []
            try:
                links_case(c["config"], c["seed"], mats, solids, lambda *a: fails.append(a))
            except Exception:
                continue
            for key, clause, obs, exp, extra in fails:
                out.append(Failure(key, clause, dict(config=c["config"], seed=c["seed"], **extra), observed=obs, expected=exp))
    return out


def replay(ctx, payload):
    case, key = payload["case"], payload["key"]
    if case.get("alias"):
        mats = classify_materials(ctx)
        solids = [n for n, i in mats.items() if i["kind"] == "solid" and i.get("has_nd")]
        fails = []
        alias_case(case["seed"], mats, solids, lambda *a: fails.append(a))
        hit = [f for f in fails if f[0] == key]
        return {"observed": hit[0][2], "expected": hit[0][3]} if hit else None
    if case.get("chain"):
        mats = classify_materials(ctx)
        solids = [n for n, i in mats.items() if i["kind"] == "solid" and i.get("has_nd")]
        fails = []
        chain_case(case["seed"], mats, solids, lambda *a: fails.append(a))
        hit = [f for f in fails if f[0] == key]
        return {"observed": hit[0][2], "expected": hit[0][3]} if hit else None
    if case.get("derived"):
        mats = classify_materials(ctx)
        solids = [n for n, i in mats.items() if i["kind"] == "solid" and i.get("has_nd")]
        fails = []
        derived_case(case["seed"], mats, solids, lambda *a: fails.append(a), lambda *_: None)
        hit = [f for f in fails if f[0] == key]
        return {"observed": hit[0][2], "expected": hit[0][3]} if hit else None
    if "config" in case:
        mats = classify_materials(ctx)
        solids = [n for n, i in mats.items() if i["kind"] == "solid" and i.get("has_nd")]
        fails = []
        links_case(case["config"], case["seed"], mats, solids, lambda *a: fails.append(a))
        hit = [f for f in fails if f[0] == key]
        return {"observed": hit[0][2], "expected": hit[0][3]} if hit else None
    if "shape" in case and "path" in case and case.get("shape") in list(SHAPE_DIMS) + ["UnshapedComponent"] \
            and case.get("material") in material_classes() and key not in (
                "fluid-dimension-changed", "zero-expansion-solid-changed", "dimension-at-input-temperature",
                "fluid-dimension-raises", "set-temperature-raises"):
        hit = [f for f in _case_fail_list({k: case[k] for k in ("shape", "material", "dims", "tin", "t0", "path")})
               if f.key == key]
        return hit[0].to_json() if hit else None
    sub = type(ctx)(ctx.prop, "quick", ctx.seed)
    run(sub)
    hit = [f for f in sub.failures if f.key == key]
    return hit[0].to_json() if hit else None
