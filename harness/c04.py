"""C04 - a reactor saved to the database loads back observationally equal.

Theorems: lean/ArmiVerif/Props/C04.lean over Model/Layout.lean (flatten / compose / indexInData / locations / grids /
         the layout columns of the file / several statepoints in one file / parameter assignment order on load).
Tie (i): Model/Layout.lean vs the real Layout(comp=r) arrays, the real layout datasets of the written file,
         the real _unpackLocations (well-formed and malformed streams) and computeAncestors, sorted(children) for both
         __lt__ implementations, getH5GroupName, write/load histories on one real file, _initComps + _readParams +
         _assignBlueprintsParams, on every reactor state the run produces.
Tie (ii) = implementation-side oracle on the real stack: shipped inputs -> random assignments to FREE
         parameters + API edits -> Database.writeToDB (real HDF5 file in a scratch dir) -> Database.load ->
         canonical dump of both reactors compared; load twice; save the loaded reactor and load again.
         Streams: seeded edit rounds per shipped input; blueprints that ASSIGN parameters + values changed after
         construction (C04-a); every-parameter sweep; several statepoints in ONE file with layout-borne edits and tree
         changes in between, each loaded and compared with the state at ITS write, a loaded reactor saved into the same
         file (C04-b); excluded points.
"""
import contextlib
import json
import logging
import math
import os
import random
import struct
import sys

import numpy as np

from harness import common
from harness.common import Failure, lean_run
from harness.c05 import noncontig, norm_value

PROP_MODULES = ["ArmiVerif.Props.C04"]
PARTIAL = ("theorems cover the layout / locator / index / grid-table logic incl. the round trip on the file's columns "
           "(cols_roundtrip), child order (load(save t) = t sorted; = t iff sorted: F12 exactly), statepoint independence in a "
           "multi-statepoint file (multi_statepoint_roundtrip), the parameter assignment order on load (saved value, not "
           "blueprint value: load_param_saved_not_blueprint) and, composed with C05's model, that every object reads back "
           "its own parameter value (save_load_param_own); "
           "h5py, blueprint re-construction of components, material lookup, grids' reduce() and the child sort "
           "key are parameters (checked by the whole-stack oracle only). Reachable states: arbitrary values are "
           "assigned only to FREE parameters (not recomputed on load, not identities, not settings-owned); derived "
           "ones change through the API only. Generated blueprints are replaced by the five shipped inputs "
           "(hex third core with pin lattices and SFP, smallest hex, Cartesian c5g7, theta-RZ godiva, axial-expansion fixture)")
ASSUMPTIONS = [
    "child order: ArmiObject.__lt__ = lexicographic (k, j, i) of the complete indices (armiLt) and Component.__lt__ = (cold "
    "bounding-circle outer diameter, then inner diameter) (compLt) are modelled, proved asymmetric and compared with "
    "sorted(children) for every child list; the two diameter getters are parameters (their values enter as exact rationals); "
    "the flatten correspondence takes sorted(list(comp)) as given",
    "one HDF5 file = a map from group name to statepoint; h5py stores each group independently of the others (checked by "
    "write/load histories on a real file and by the multi-statepoint oracle)",
    "equal grid keys <=> equal (grid class, reduce()) tuples (Python tuple equality/hash)",
    "index components survive float64 storage and int() (|i| < 2^53)",
]

# parameters that are NOT free: recomputed on load, identities, snapshot address, or owned by the settings
DERIVED = {
    "Reactor": {"cycle": "snapshot address", "timeNode": "snapshot address"},
    "Core": {"maxAssemNum": "recomputed by processLoading", "jumpRing": "set from settings by processLoading",
             "beta": "set from settings by processLoading"},
    "Assembly": {"assemNum": "identity: the name derives from it"},
    "Block": {"height": "changed through setHeight (the assembly mesh and z coordinates follow it)", "z": "calculateZCoords", "zbottom": "calculateZCoords", "ztop": "calculateZCoords",
              "assemNum": "identity", "kgHM": "setBlockMassParams", "kgFis": "setBlockMassParams", "puFrac": "setBlockMassParams"},
    "Component": {"temperatureInC": "changed through setTemperature (dimensions and densities follow it)",
                  "theoreticalDensityFrac": "changed together with material.adjustTD (the material state follows it on load)",
                  "mult": "a dimension (multiplicity) even on shapes that do not list it in DIMENSION_NAMES; the loader needs a number",
                  "volume": "recomputed from dimensions", "area": "recomputed for derived shapes"},
    "*": {"serialNum": "identity", "flags": "derived from the name; not saved"},
}

# numeric parameters the public bookkeeping API reads as numbers (setBlockMassParams: `molesHmBOL > 0`): never unset
NONE_UNSAFE = {"molesHmBOL", "massHmBOL"}
# label <-> number pairs coupled by their setters (an arbitrary string / number is not a valid label): the every-parameter
# sweep leaves them alone (random rounds still step the numbers)
SWEEP_SKIP = {"xsType", "xsTypeNum", "envGroup", "envGroupNum"}

FIXTURES = {
    "smallest": ("smallestTestReactor", "armiRunSmallest.yaml"),
    "godiva": ("godiva", "godiva.armi.unittest.yaml"),
    "c5g7": ("c5g7", "c5g7-settings.yaml"),
    "axialExpansion": ("detailedAxialExpansion", "armiRun.yaml"),
    "reference": ("", "armiRun.yaml"),
}


@contextlib.contextmanager
def silence():
    import warnings

    prev = logging.root.manager.disable
    logging.disable(100000)
    try:
        with warnings.catch_warnings(), np.errstate(all="ignore"):
            warnings.simplefilter("ignore")
            yield
    finally:
        logging.disable(prev)


def fcode(x):
    x = float(x)
    if x != x:
        return "nan"
    return struct.unpack("<q", struct.pack("<d", x))[0]


# --------------------------------------------------------------------------- fixtures
def load_fixture(name):
    from armi.reactor.tests import test_reactors
    from armi.tests import TEST_ROOT

    sub, inp = FIXTURES[name]
    path = os.path.join(TEST_ROOT, sub) if sub else TEST_ROOT
    o, r = test_reactors.loadTestReactor(path, inputFileName=inp, customSettings={"reloadDBName": "reloadingDB.h5"})
    if name not in NEG_BASELINE:
        NEG_BASELINE[name] = count_negative(r)
    return o, r


def all_objects(r):
    return [r] + r.getChildren(deep=True)


def class_family(c):
    from armi.reactor.assemblies import Assembly
    from armi.reactor.blocks import Block
    from armi.reactor.components import Component
    from armi.reactor.reactors import Core, Reactor

    for k, n in ((Reactor, "Reactor"), (Core, "Core"), (Assembly, "Assembly"), (Block, "Block"), (Component, "Component")):
        if isinstance(c, k):
            return n
    return type(c).__name__


def is_free(c, pname):
    fam = class_family(c)
    if pname in DERIVED["*"] or pname in DERIVED.get(fam, {}):
        return False
    if hasattr(c, "DIMENSION_NAMES") and pname in c.DIMENSION_NAMES:
        return False
    return True


# --------------------------------------------------------------------------- canonical dump
def loc_rep(l):
    from armi.reactor import grids

    if l is None:
        return ("N",)
    if isinstance(l, grids.MultiIndexLocation):
        return ("M", tuple(tuple(int(v) for v in x.indices) for x in l))
    if isinstance(l, grids.CoordinateLocation):
        return ("C", tuple(fcode(v) for v in l.indices))
    if isinstance(l, grids.IndexLocation):
        return ("I", tuple(int(v) for v in l.indices))
    return ("?", repr(l))


def global_xyz(l):
    from armi.reactor import grids

    if l is None or isinstance(l, grids.MultiIndexLocation):
        return None
    try:
        return tuple(float(v) for v in l.getGlobalCoordinates())
    except Exception as e:  # noqa: BLE001
        return ("EXC", type(e).__name__)


def num(x):
    if x is None:
        return None
    if isinstance(x, (list, tuple, np.ndarray)):
        return tuple(num(y) for y in x)
    if isinstance(x, (bool, np.bool_)):
        return bool(x)
    if isinstance(x, (int, np.integer)):
        return int(x)
    if isinstance(x, (float, np.floating)):
        return fcode(x)
    return str(x)


PROBES = [(0, 0, 0), (1, 0, 0), (0, 1, 0), (2, -1, 0), (0, 0, 1), (1, 2, 1)]


def grid_rep(g):
    """public metadata + constructor arguments (numbers) + coordinates of probe cells"""
    if g is None:
        return None
    p = g.reduce()
    def safe(f):
        try:
            return str(f())
        except Exception as e:  # noqa: BLE001 - e.g. an axial grid has no geometry type
            return "EXC:" + type(e).__name__

    rep = {"class": type(g).__name__, "geomType": safe(lambda: g.geomType), "symmetry": safe(lambda: g.symmetry),
           "unitSteps": num(p.unitSteps), "bounds": num(p.bounds), "unitStepLimits": num(p.unitStepLimits),
           "offset": num(p.offset), "axialOnly": bool(g.isAxialOnly)}
    coords = []
    for ijk in PROBES:
        try:
            coords.append(num(g.getCoordinates(ijk)))
        except Exception as e:  # noqa: BLE001
            coords.append("EXC:" + type(e).__name__)
    rep["probeCoords"] = tuple(coords)
    glob = []
    for ijk in PROBES[:4]:
        try:
            glob.append(num(g[ijk].getGlobalCoordinates()))
        except Exception as e:  # noqa: BLE001
            glob.append("EXC:" + type(e).__name__)
    rep["probeGlobalCoords"] = tuple(glob)
    return rep


def param_value(c, pdef):
    from armi.reactor import parameters

    v = c.p.get(pdef.name, pdef.default)
    if v is parameters.NoDefault:
        return "<no value>"
    return v


def canon_param(v):
    """value, shape, numeric kind and None positions; container kind is not compared"""
    from armi.reactor.components.component import _DimensionLink

    if isinstance(v, str) and v == "<no value>":
        return v
    if isinstance(v, _DimensionLink):
        return ("link", v[0].name, v[1])
    if isinstance(v, (list, tuple)):
        n = norm_value(v) if not any(x is None or isinstance(x, dict) for x in v) else ("ragged-nest",)
        if n is None or n[0] not in ("ragged-nest", "object") and not str(n[0]).startswith("mixed"):
            return n
        return ("seq", tuple(canon_param(x) for x in v))
    if isinstance(v, np.ndarray) and v.dtype.kind == "O":
        return ("seq", tuple(canon_param(x) for x in v.tolist()))
    if isinstance(v, dict):
        return ("dict", tuple(sorted((str(k), canon_param(x)) for k, x in v.items())))
    if isinstance(v, (str, np.str_)):
        return ("s", str(v))
    if hasattr(v, "__int__") and type(v).__name__ in ("Flags", "VF"):
        return ("flags", int(v))
    n = norm_value(v)
    return n


def dump(r):
    """serial -> record of everything the property names, in plain python values"""
    from armi.reactor.components import Component
    from armi.reactor.components.component import _DimensionLink

    out = {}
    mat_owner = {}
    for c in all_objects(r):
        rec = {"family": class_family(c), "gridShared": c.spatialGrid is not None and c.spatialGrid.armiObject is not c,
               "type": type(c).__name__, "name": c.name, "kids": tuple(int(k.p.serialNum) for k in c),
               "parent": None if c.parent is None else int(c.parent.p.serialNum),
               "flags": str(c.p.flags), "loc": loc_rep(c.spatialLocator), "xyz": global_xyz(c.spatialLocator), "grid": grid_rep(c.spatialGrid)}
        if isinstance(c, Component):
            rec["material"] = type(c.material).__name__
            try:
                rec["matTD"] = float(c.material.getTD())
            except Exception as e:  # noqa: BLE001
                rec["matTD"] = "EXC:" + type(e).__name__
            try:
                rec["matRho"] = float(c.material.pseudoDensity(Tc=c.temperatureInC))
            except Exception as e:  # noqa: BLE001
                rec["matRho"] = "EXC:" + type(e).__name__
            mat_owner.setdefault(id(c.material), []).append(int(c.p.serialNum))
            rec["T"] = (fcode(c.inputTemperatureInC), fcode(c.temperatureInC))
            dims = {}
            for d in c.DIMENSION_NAMES:
                v = c.p[d]
                dims[d] = ("link", v[0].name, v[1]) if isinstance(v, _DimensionLink) else num(v)
            rec["dims"] = dims
            try:
                rec["hotdims"] = {d: float(c.getDimension(d)) for d in c.DIMENSION_NAMES if c.p[d] is not None}
            except Exception as e:  # noqa: BLE001
                rec["hotdims"] = "EXC:" + type(e).__name__
            rec["ndens"] = tuple(sorted((k, float(v)) for k, v in c.getNumberDensities().items()))
            try:
                rec["volume"] = float(c.getVolume())
            except Exception as e:  # noqa: BLE001
                rec["volume"] = "EXC:" + type(e).__name__
            try:
                rec["mass"] = float(c.getMass())
            except Exception as e:  # noqa: BLE001
                rec["mass"] = "EXC:" + type(e).__name__
        ps = {}
        for pdef in c.p.paramDefs.toWriteToDB():
            if hasattr(c, "DIMENSION_NAMES") and pdef.name in c.DIMENSION_NAMES:
                continue
            try:
                ps[pdef.name] = canon_param(param_value(c, pdef))
            except Exception as e:  # noqa: BLE001
                ps[pdef.name] = "EXC:" + type(e).__name__
        rec["params"] = ps
        out[int(c.p.serialNum)] = rec
    # material identity: which components share one Material INSTANCE (canonical: smallest serial of the sharing set)
    for sns in mat_owner.values():
        for sn in sns:
            out[sn]["matSharedWith"] = min(sns)
    return out


def close_float(a, b, tol=1e-12):
    if isinstance(a, float) and isinstance(b, float):
        return (a != a and b != b) or a == b or abs(a - b) <= tol * max(1.0, abs(a), abs(b))
    if isinstance(a, tuple) and isinstance(b, tuple) and len(a) == len(b):
        return all(close_float(x, y, tol) for x, y in zip(a, b))
    return a == b


def _decode(x):
    return struct.unpack("<d", struct.pack("<q", int(x)))[0] if x != "nan" else float("nan")


def _derived_close(v, w):
    try:
        if v is None or w is None or v[0] != "f" or w[0] != "f" or v[1] != w[1]:
            return False
        return all(close_float(_decode(x), _decode(y), 1e-12) for x, y in zip(v[2], w[2]))
    except Exception:  # noqa: BLE001
        return False


def compare(d0, d1, what):
    """-> list of (key, clause, detail) differences between two dumps"""
    diffs = []
    if set(d0) != set(d1):
        diffs.append(("object-set", f"{what}: same objects (serial numbers)",
                      {"missing": sorted(set(d0) - set(d1))[:5], "extra": sorted(set(d1) - set(d0))[:5]}))
    for sn, a in d0.items():
        b = d1.get(sn)
        if b is None:
            continue
        ident = {"serial": sn, "type": a["type"], "name": a["name"]}
        # a block whose own assemNum differs from its assembly's BEFORE saving: FuelHandler._transferStationaryBlocks moves
        # grid-plate blocks between the swapped assemblies without renaming them; the loader derives name and assemNum
        # from the parent
        par = d0.get(a["parent"]) if a["parent"] is not None else None
        stale = (a["family"] == "Block" and par is not None and par["family"] == "Assembly"
                 and a["params"].get("assemNum") != par["params"].get("assemNum"))
        for k in ("type", "name", "parent"):
            if a[k] != b[k]:
                key = "stale-block-identity" if (k == "name" and stale) else f"object-{k}"
                diffs.append((key, f"{what}: same {k}", {**ident, "before": a[k], "after": b[k]}))
        if a["kids"] != b["kids"]:
            if sorted(a["kids"]) == sorted(b["kids"]):
                diffs.append(("child-order", f"{what}: same child order", {**ident, "before": a["kids"][:8], "after": b["kids"][:8]}))
            else:
                diffs.append(("child-set", f"{what}: same children", {**ident, "before": a["kids"][:8], "after": b["kids"][:8]}))
        if a["loc"] != b["loc"]:
            key = "location"
            if a["loc"][0] == "C" and b["loc"][0] == "I" and a.get("parentGridded", True):
                key = "coordinate-location-loads-as-index"
            diffs.append((key, f"{what}: same grid location (kind and indices/coordinates)",
                          {**ident, "before": a["loc"] if a["loc"][0] != "M" else ("M", len(a["loc"][1])),
                           "after": b["loc"] if b["loc"][0] != "M" else ("M", len(b["loc"][1]))}))
        if not close_float(a["xyz"], b["xyz"], 1e-12):
            key = "coordinate-location-loads-as-index" if (a["loc"][0] == "C" and b["loc"][0] == "I") else "global-coordinates"
            diffs.append((key, f"{what}: same global coordinates", {**ident, "before": a["xyz"], "after": b["xyz"]}))
        if a["grid"] != b["grid"]:
            fields = [f for f in (a["grid"] or {}) if (b["grid"] or {}).get(f) != a["grid"][f]] if a["grid"] and b["grid"] else ["presence"]
            gkey = "shared-grid" if (a.get("gridShared") and fields == ["probeGlobalCoords"]) else "grid"
            diffs.append((gkey, f"{what}: same grid", {**ident, "fields": fields,
                                                       "before": {f: (a["grid"] or {}).get(f) for f in fields[:2]},
                                                       "after": {f: (b["grid"] or {}).get(f) for f in fields[:2]}}))
        if "matTD" in a and not close_float(a.get("matTD"), b.get("matTD"), 1e-12):
            diffs.append(("material-td", f"{what}: same material state (theoretical density fraction)",
                          {**ident, "before": a.get("matTD"), "after": b.get("matTD")}))
        if "matRho" in a and not close_float(a.get("matRho"), b.get("matRho"), 1e-12):
            diffs.append(("material-density", f"{what}: same material state (density function at the component temperature)",
                          {**ident, "before": a.get("matRho"), "after": b.get("matRho")}))
        if a.get("flags") != b.get("flags"):
            diffs.append(("flags", f"{what}: same flags", {**ident, "before": a.get("flags"), "after": b.get("flags")}))
        if a.get("matSharedWith") != b.get("matSharedWith"):
            diffs.append(("material-instance-sharing", f"{what}: components share a Material instance only if the saved ones did",
                          {**ident, "before": a.get("matSharedWith"), "after": b.get("matSharedWith")}))
        for k in ("material", "T"):
            if a.get(k) != b.get(k):
                diffs.append((f"component-{k}", f"{what}: same {k}", {**ident, "before": a.get(k), "after": b.get(k)}))
        if "dims" in a:
            for d, v in a["dims"].items():
                w = b["dims"].get(d, "<absent>")
                if v != w:
                    key = "dimension-none-becomes-zero" if (v is None and w in (0, fcode(0.0))) else "component-dimension"
                    if isinstance(v, int) and not isinstance(v, bool) and isinstance(w, int) and fcode(float(v)) == w:
                        key = "int-reads-back-as-float"
                    diffs.append((key, f"{what}: same dimensions (linked or not)", {**ident, "dim": d, "before": v, "after": w}))
            ha, hb = a["hotdims"], b["hotdims"]
            if isinstance(ha, dict) and isinstance(hb, dict):
                bad = [d for d in ha if d in hb and not close_float(ha[d], hb[d], 1e-12)]
            else:
                bad = [] if ha == hb else ["*"]
            if bad:
                diffs.append(("component-hot-dimension", f"{what}: same resolved (hot) dimensions", {**ident, "dims": bad[:4]}))
            if not close_float(a["ndens"], b["ndens"], 0.0):
                diffs.append(("number-densities", f"{what}: same number densities", {**ident}))
            for k in ("volume", "mass"):
                if not close_float(a[k], b[k], 1e-12):
                    diffs.append((f"component-{k}", f"{what}: same {k}", {**ident, "before": a[k], "after": b[k]}))
        for pn, v in a["params"].items():
            w = b["params"].get(pn, "<absent>")
            if v != w and pn in DERIVED.get(a["family"], {}) and _derived_close(v, w):
                continue        # recomputed on load: equal up to floating-point re-evaluation (1e-12 relative)
            if v != w:
                key = "parameter"
                if pn == "assemNum" and stale:
                    key = "stale-block-identity"
                if v is None and all(o["params"].get(pn) is None for o in d0.values() if o["type"] == a["type"]):
                    key = "all-none-column"     # every object of the class holds None: the column is not written at all
                if (isinstance(v, tuple) and isinstance(w, tuple) and len(v) == 3 and len(w) == 3 and {v[0], w[0]} == {"i", "f"}
                        and {"i", "f"} <= {o["params"][pn][0] for o in d0.values() if o["type"] == a["type"]
                                           and isinstance(o["params"].get(pn), tuple) and len(o["params"][pn]) == 3}):
                    # the class column mixes ints and floats (C05 F6c): numpy promotes it to float (since fix 045c8d0 also when a
                    # None is present). Known key ONLY for a change of kind with equal value (3 <-> 3.0); a change of VALUE
                    # (3.5 -> 3, the truncation repaired by 045c8d0) has its own key and is a violation
                    def _numval(t):
                        return [float(x) if t[0] == "i" else _decode(x) for x in t[2]]
                    if v[1] == w[1] and _numval(v) == _numval(w):
                        key = "int-reads-back-as-float"
                    elif v[0] == "f" and w[0] == "i":
                        key = "float-truncated-in-mixed-column-with-none"
                elif (isinstance(v, tuple) and isinstance(w, tuple) and len(v) == 3 and len(w) == 3 and v[0] == "i" and w[0] == "f"
                        and v[1] == w[1] and all(str(fcode(float(x))) == str(y) for x, y in zip(v[2], w[2]))):
                    key = "int-reads-back-as-float"
                diffs.append((key, f"{what}: same value of every assigned persistent parameter",
                              {**ident, "param": pn, "before": repr(v)[:160], "after": repr(w)[:160]}))
    return diffs


# --------------------------------------------------------------------------- mutations
FLOATS = [0.0, -0.0, 1.5, -2.25, 1e300, 5e-324, 1e-9, 3.141592653589793, 12345.678, -1.0, 0.1, 2.0 ** -30, 7.0]


def new_value(rng, cur, pname, idx):
    """a new value of the same kind as the current one; None-default array parameters get arrays whose
    shape varies per object (1-d, and 2-d with differing first extent -> the ragged n-d path)"""
    if isinstance(cur, (bool, np.bool_)) or isinstance(cur, (str, np.str_)):
        return None
    if isinstance(cur, (float, np.floating)):
        return rng.choice(FLOATS) if rng.random() < 0.5 else common.dyadic(rng, -1000, 1000, 8)
    if isinstance(cur, (int, np.integer)):
        return int(cur) + rng.choice([-3, 1, 2, 7, 1000])
    if cur is None:
        # one number of dimensions per parameter name (differing ndim inside one parameter is refused at write time)
        kind = "2d" if pname.startswith("pin") else "1d" if pname.startswith("mgFlux") else \
            ("1d" if sum(pname.encode()) % 2 == 0 else "2d")
        if kind == "1d":
            return np.array([common.dyadic(rng, -9, 9, 6) for _ in range(1 + (idx % 4) if rng.random() < 0.6 else 3)])
        rows = 2 + idx % 5 if rng.random() < 0.7 else 3
        return noncontig(np.array([[common.dyadic(rng, 0, 99, 5) for _ in range(4)] for _ in range(rows)]), rng.randrange(4))
    if isinstance(cur, np.ndarray) and cur.dtype.kind == "f" and cur.size:
        return cur + common.dyadic(rng, -3, 3, 4)
    if isinstance(cur, list) and cur and all(isinstance(x, (float, np.floating)) for x in cur):
        return [float(x) + 0.25 for x in cur]
    return None


def refresh_derived(r):
    """bring cached / derived quantities of the EDITED reactor up to date through the public API, so that
    the saved state is a consistent one (volumes are cached; kgHM/kgFis/puFrac are set by setBlockMassParams)"""
    r.clearCache()
    r.core.setBlockMassParams()


def mutate(rng, o, r, nobj, ops):
    """random assignments to free parameters + API edits; every applied edit is appended to ops"""
    from armi.reactor import grids, parameters
    from armi.reactor.assemblies import Assembly
    from armi.reactor.blocks import Block
    from armi.reactor.components import Component

    objs = all_objects(r)
    picks = rng.sample(range(len(objs)), min(nobj, len(objs)))
    # one array-valued parameter assigned on EVERY block with a per-block shape: jagged n-d data
    blocks = [(i, c) for i, c in enumerate(objs) if isinstance(c, Block)]
    if blocks and rng.random() < 0.8:
        pname = rng.choice(["pinMgFluxes", "mgFlux", "pinMgFluxesAdj", "mgFluxGamma"])
        if pname in {p.name for p in blocks[0][1].p.paramDefs if p.saveToDB}:
            for ib, (i, b) in enumerate(blocks[: 40]):
                shape = (2 + ib % 5, 4) if pname.startswith("pin") else (3 + ib % 3,)
                val = np.array([common.dyadic(rng, 0, 999, 4) for _ in range(int(np.prod(shape)))]).reshape(shape)
                lay = rng.randrange(4)
                val = noncontig(val, lay)       # Fortran-ordered / strided / swapped-axes views as well as C order
                try:
                    b.p[pname] = val
                    ops.append(["setparam", i, pname, val.tolist(), lay])
                except Exception:  # noqa: BLE001
                    break
    for i in picks:
        c = objs[i]
        pdefs = [p for p in c.p.paramDefs if p.saveToDB and is_free(c, p.name)]
        for p in rng.sample(pdefs, min(rng.randint(1, 4), len(pdefs))):
            cur = c.p.get(p.name, p.default)
            if cur is parameters.NoDefault:
                continue
            if cur is None and p.default is not None and isinstance(p.default, (int, float)) and not isinstance(p.default, bool):
                cur = p.default     # unset earlier by an assign-None edit: give it a number again, not an array
            val = new_value(rng, cur, p.name, i)
            if (p.default is not None and isinstance(cur, (int, float, np.integer, np.floating)) and not isinstance(cur, (bool, np.bool_))
                    and p.name not in NONE_UNSAFE and rng.random() < 0.15):
                # explicitly UNSET a parameter whose default is a number, next to siblings holding numbers: it must read
                # back None, not the default / constructor value (bool and str columns refuse None at write time: C05)
                try:
                    c.p[p.name] = None
                    ops.append(["setparam", i, p.name, None])
                except Exception:  # noqa: BLE001
                    with contextlib.suppress(Exception):
                        c.p[p.name] = cur
                continue
            if val is None:
                continue
            try:
                c.p[p.name] = val
            except Exception:  # noqa: BLE001 - the setter refuses the value: not a reachable state
                with contextlib.suppress(Exception):
                    c.p[p.name] = cur     # some setters store the value before refusing it (xsTypeNum): put the old one back
                continue
            if isinstance(val, np.ndarray):
                lay = 0 if val.flags["C_CONTIGUOUS"] else 1 if val.flags["F_CONTIGUOUS"] else 2
                ops.append(["setparam", i, p.name, val.tolist(), lay])
            else:
                ops.append(["setparam", i, p.name, val])
    # API edits that keep derived parameters consistent
    comps = [(i, c) for i, c in enumerate(objs) if isinstance(c, Component)]
    for i, c in rng.sample(comps, min(3, len(comps))):
        what = rng.choice(["temp", "ndens", "ndens"])
        try:
            if what == "temp":
                t = c.temperatureInC + common.dyadic(rng, 1, 60, 2)
                c.setTemperature(t)
                ops.append(["setTemperature", i, t])
            else:
                nd = c.getNumberDensities()
                if nd:
                    nuc = rng.choice(sorted(nd))
                    v = nd[nuc] * rng.choice([0.5, 1.25, 2.0]) + rng.choice([0.0, 1e-6])
                    c.setNumberDensity(nuc, v)
                    ops.append(["setNumberDensity", i, nuc, v])
        except Exception:  # noqa: BLE001
            continue
    # COLD DIMENSIONS changed after construction (swelling / wear): the blueprint holds the as-built value, the saved
    # state another one; outer dimensions shrink slightly so that neighbours never overlap
    for i, c in rng.sample(comps, min(3, len(comps))):
        names = [d for d in c.DIMENSION_NAMES if d in ("od", "op", "widthOuter", "lengthOuter")
                 and isinstance(c.p[d], (int, float, np.integer, np.floating)) and not isinstance(c.p[d], (bool, np.bool_)) and c.p[d] > 0]
        if not names or rng.random() < 0.4:
            continue
        d = rng.choice(names)
        old = c.p[d]
        v = float(old) * rng.choice([0.9921875, 0.984375, 0.998046875])

        def nneg(par):
            par.clearCache()
            n = 0
            for k in par:
                with contextlib.suppress(Exception):
                    n += k.getVolume() < 0
            return n

        try:
            before = nneg(c.parent) if c.parent is not None else 0
            c.setDimension(d, v, cold=True)
            c.clearCache()
            if c.parent is not None and nneg(c.parent) > before:
                c.setDimension(d, old, cold=True)      # a neighbour would be squeezed to a negative volume: not a valid model
                c.parent.clearCache()
                continue
            ops.append(["setDimension", i, d, v])
        except Exception:  # noqa: BLE001
            continue
    # number-density DICTS with other key sets than the rest of the class (setNumberDensities wipes the old keys):
    # same length / different keys, one shared key, disjoint, differing length, other key order, empty
    byclass = {}
    for i, c in comps:
        byclass.setdefault(type(c), []).append((i, c))
    multi = [v for v in byclass.values() if len(v) >= 2]
    pool = sorted({n for _, c in comps[:400] for n in c.getNumberDensities()} | {"HE4", "NA23", "FE56"})
    for group in rng.sample(multi, min(2, len(multi))):
        i, c = rng.choice(group)
        nd = c.getNumberDensities()
        keys = list(nd)
        if not keys:
            continue
        others = [n for n in pool if n not in nd] or pool
        variant = rng.choice(["same-length-disjoint", "same-length-one-shared", "longer", "shorter", "reordered", "empty"]
                             if rng.random() < 0.9 else ["empty"])
        if variant == "same-length-disjoint":
            new = {others[(j * 7 + i) % len(others)]: 2.5e-5 * (j + 1) for j in range(len(keys))}
        elif variant == "same-length-one-shared":
            new = {keys[0]: nd[keys[0]]}
            new.update({others[(j * 5 + i) % len(others)]: 1.25e-4 * (j + 1) for j in range(len(keys) - 1)})
        elif variant == "longer":
            new = dict(nd)
            new[others[i % len(others)]] = 3.0e-6
        elif variant == "shorter":
            new = {k: nd[k] for k in keys[: max(1, len(keys) - 1)]}
        elif variant == "reordered":
            new = {k: nd[k] * 1.5 for k in reversed(keys)}
        else:
            new = {}
        try:
            c.setNumberDensities(new)
            ops.append(["setNumberDensities", i, [[k, v] for k, v in new.items()], variant])
        except Exception:  # noqa: BLE001
            continue
    # MATERIAL STATE: components of one material class get DIFFERENT theoretical-density fractions (material attribute
    # and parameter together, as the blueprint loader does); a loader sharing material objects would leak one to all
    bymat = {}
    for i, c in comps:
        bymat.setdefault(type(c.material).__name__, []).append((i, c))
    mgroups = [g for g in bymat.values() if len(g) >= 2]
    def fresh_td(c):
        try:
            return float(type(c.material)().getTD())
        except Exception:  # noqa: BLE001
            return 1.0

    special = [g for g in bymat.values() if fresh_td(g[0][1]) != 1.0]      # e.g. B4C: a fresh instance reports 0.9
    chosen = rng.sample(mgroups, min(2, len(mgroups))) + special
    for g in chosen:
        dflt = fresh_td(g[0][1])
        # "special" constants first: exactly 1.0 and the material's own default (the loader must apply the stored
        # fraction always, not only when it differs from 1.0 / from what a fresh material reports), then other values
        tds = [1.0, dflt] if (g in special or rng.random() < 0.4) else []
        tds += rng.sample([0.5, 0.625, 0.75, 0.875, 0.90625, 0.96875], 2)
        if rng.random() < 0.05:
            tds[-1] = 0.0
        for (i, c), td in zip(rng.sample(g, min(len(tds), len(g))), tds):
            try:
                c.material.adjustTD(td)
                c.p.theoreticalDensityFrac = td
                ops.append(["setTD", i, td, type(c.material).__name__])
            except Exception:  # noqa: BLE001
                continue
    # LINK TARGETS whose TYPE differs from their NAME: dimension links are stored by sibling name
    from armi.reactor.components.component import _DimensionLink
    targets = []
    for i, c in comps[:3000]:
        for d in c.DIMENSION_NAMES:
            v = c.p[d]
            if isinstance(v, _DimensionLink):
                targets.append(v[0])
    tset = {id(t): t for t in targets}
    tlist = [(i, c) for i, c in comps if id(c) in tset]
    for i, c in rng.sample(tlist, min(2, len(tlist))):
        sibs = [x.name for x in c.parent if x is not c] if c.parent is not None else []
        typ = rng.choice(sibs) if (sibs and rng.random() < 0.3) else c.name + " retyped"
        try:
            c.setType(typ)
            ops.append(["setType", i, typ])
        except Exception:  # noqa: BLE001
            continue
    # class-aware: a class whose instances ALL hold dicts of one length (e.g. every DerivedShape coolant {NA23}); one
    # instance that is NOT the first gets the same number of DIFFERENT keys, so the per-class column is
    # "equal lengths, different keys". If no class is in that situation, make one so (truncate to a common length).
    def ndlen(c):
        return len(c.getNumberDensities())

    equal = [g for g in multi if len({ndlen(c) for _, c in g[:3000]}) == 1 and ndlen(g[0][1]) > 0]
    if equal and rng.random() < 0.8:
        group = rng.choice(equal)
    else:
        cands = [g for g in multi if min(ndlen(c) for _, c in g[:3000]) > 0 and len(g) <= 400]
        group = rng.choice(cands) if cands else None
        if group is not None:
            L = min(ndlen(c) for _, c in group)
            for i, c in group:
                nd = c.getNumberDensities()
                if len(nd) != L:
                    new = dict(list(nd.items())[:L])
                    try:
                        c.setNumberDensities(new)
                        ops.append(["setNumberDensities", i, [[k, v] for k, v in new.items()], "truncate-to-common-length"])
                    except Exception:  # noqa: BLE001
                        pass
    if group is not None and len(group) >= 2:
        i, c = rng.choice(group[1:]) if rng.random() < 0.7 else group[-1]
        nd = c.getNumberDensities()
        keys = list(nd)
        others = [n for n in pool if n not in nd] or pool
        if rng.random() < 0.5 or len(keys) == 1:
            new = {others[(j * 3 + i) % len(others)]: 2.5e-5 * (j + 1) for j in range(len(keys))}
            variant = "equal-length-class-disjoint-keys"
        else:
            new = {keys[0]: nd[keys[0]]}
            new.update({others[(j * 3 + i) % len(others)]: 2.5e-5 * (j + 1) for j in range(len(keys) - 1)})
            variant = "equal-length-class-one-shared-key"
        if len(new) == len(keys):
            try:
                c.setNumberDensities(new)
                ops.append(["setNumberDensities", i, [[k, v] for k, v in new.items()], variant])
            except Exception:  # noqa: BLE001
                pass
    assems = [(i, a) for i, a in enumerate(objs) if isinstance(a, Assembly) and a.parent is r.core]
    for i, a in rng.sample(assems, min(1, len(assems))):
        bl = [b for b in a]
        if bl and rng.random() < 0.7:
            k = rng.randrange(len(bl))
            h = bl[k].getHeight() * rng.choice([0.5, 1.25, 1.5])
            try:
                bl[k].setHeight(h)
                a.calculateZCoords()
                ops.append(["setHeight", i, k, h])
            except Exception:  # noqa: BLE001
                pass
    # rotation of a hex assembly by a multiple of 60 degrees (orientation, pin locations and boundary parameters move)
    if assems and type(r.core.spatialGrid).__name__ == "HexGrid" and rng.random() < 0.5:
        i, a = rng.choice(assems)
        k = rng.choice([1, 2, 3, 5])
        try:
            a.rotate(math.radians(60 * k))
            ops.append(["rotate", i, k])
        except Exception:  # noqa: BLE001
            pass
    # free coordinates with fractional parts on objects whose parent has no grid (core / spent fuel pool)
    for i, c in enumerate(objs):
        if c.parent is r and isinstance(c.spatialLocator, grids.CoordinateLocation) and rng.random() < 0.7:
            xyz = [v + common.dyadic(rng, -50, 50, 3) for v in (5012.5, 4987.25, 6000.75)] if c is not r.core else \
                [common.dyadic(rng, -4, 4, 3) for _ in range(3)]
            if c is r.core and rng.random() < 0.5:
                continue
            c.spatialLocator = grids.CoordinateLocation(xyz[0], xyz[1], xyz[2], None)
            ops.append(["setCoordinateLocation", i, xyz])


def record_edit_states(ctx, fixture, r, new_ops):
    """one evaluated case per applied edit; distinct = distinct (input, edit kind [+ value form], object class)"""
    objs = all_objects(r)
    for op in new_ops:
        kind = op[0]
        cls = type(objs[op[1]]).__name__ if len(op) > 1 and isinstance(op[1], int) and op[1] < len(objs) else "-"
        form = ""
        if kind == "setparam":
            v = op[3]
            form = ("array%dd" % np.ndim(v)) if isinstance(v, list) else "assign-None" if v is None else type(v).__name__
            if isinstance(v, list) and len(op) > 4 and op[4]:
                form += "-noncontiguous"
        elif kind == "setNumberDensities":
            form = op[3]
        elif kind == "setTD":
            form = ("exactly-1.0" if op[2] == 1.0 else "zero" if op[2] == 0.0 else "fraction") + (" " + op[3] if len(op) > 3 else "")
        ctx.case((fixture, kind, form, cls), nontrivial=True)
        ctx.count(f"edit kind: {kind}{' ' + form if form else ''}")


def apply_ops(r, ops, o=None):
    """replay of recorded edits on a fresh fixture"""
    from armi.reactor import grids

    objs = all_objects(r)
    for op in ops:
        kind = op[0]
        if kind == "setparam":
            v = op[3]
            objs[op[1]].p[op[2]] = noncontig(np.array(v), op[4] if len(op) > 4 else 0) if isinstance(v, list) else v
        elif kind == "setTemperature":
            objs[op[1]].setTemperature(op[2])
        elif kind == "setNumberDensity":
            objs[op[1]].setNumberDensity(op[2], op[3])
        elif kind == "setNumberDensities":
            objs[op[1]].setNumberDensities({k: v for k, v in op[2]})
        elif kind == "setTD":
            objs[op[1]].material.adjustTD(op[2])
            objs[op[1]].p.theoreticalDensityFrac = op[2]
        elif kind == "setType":
            objs[op[1]].setType(op[2])
        elif kind == "setHeight":
            a = objs[op[1]]
            [b for b in a][op[2]].setHeight(op[3])
            a.calculateZCoords()
        elif kind == "setCoordinateLocation":
            objs[op[1]].spatialLocator = grids.CoordinateLocation(op[2][0], op[2][1], op[2][2], None)
        elif kind == "rotate":
            objs[op[1]].rotate(math.radians(60 * op[2]))
        elif kind == "fullCore":
            from armi.reactor.converters import geometryConverters
            geometryConverters.ThirdCoreHexToFullCoreChanger(o.cs).convert(r)
        elif kind == "coordinateInGriddedBlock":
            b = objs[op[1]]
            c = [x for x in b][op[2]]
            c.spatialLocator = grids.CoordinateLocation(op[3][0], op[3][1], op[3][2], b.spatialGrid)
        elif kind == "swapAssemblies":
            from armi.physics.fuelCycle import fuelHandlers
            fuelHandlers.FuelHandler(op[3]).swapAssemblies(objs[op[1]], objs[op[2]])
        elif kind == "partialNoDefault":
            objs[op[1]].p[op[2]] = op[3]
        elif kind == "setDimension":
            objs[op[1]].setDimension(op[2], op[3], cold=True)
            objs[op[1]].clearCache()
        elif kind == "changePitch":
            g = r.core.spatialGrid
            if type(g).__name__ == "HexGrid":
                g.changePitch(g.pitch * op[1])
            else:
                px, py = g.pitch
                g.changePitch(px * op[1], py * op[1])
        elif kind == "setMaterial":
            objs[op[1]].setProperties(op[2])
            objs[op[1]].material.adjustTD(objs[op[1]].p.theoreticalDensityFrac)
            objs[op[1]].clearCache()
        elif kind == "setInputTemperature":
            objs[op[1]].inputTemperatureInC = op[2]
            objs[op[1]].clearLinkedCache()
            objs[op[1]].clearCache()
        elif kind == "removeAssembly":
            r.core.removeAssembly(objs[op[1]], discharge=False)
            r.core.p.maxAssemNum = r.core.getMaxParam("assemNum")


# --------------------------------------------------------------------------- DB round trip
class WriteRejected(Exception):
    pass


def write_db(o, r, fn):
    from armi.bookkeeping.db import Database

    db = Database(fn, "w")
    db.open()
    db.writeInputsToDB(o.cs)
    try:
        db.writeToDB(r)
    except Exception as e:  # noqa: BLE001 - a write-time exception is a rejection, not a wrong read-back
        db.close(False)
        with contextlib.suppress(OSError):
            os.remove(fn)
        raise WriteRejected(type(e).__name__) from e
    db.close(True)


def load_db(o, r, fn):
    from armi.bookkeeping.db import Database

    with Database(fn, "r") as db:
        return db.load(int(r.p.cycle), int(r.p.timeNode), cs=o.cs, bp=r.blueprints, allowMissing=True)


KNOWN_KEYS = {
    "all-none-column": "assigned-none-on-every-object-of-a-class-loads-as-default",
    "material-density": "material-input-modifications-not-restored",
    "shared-grid": "shared-grid-instance-loads-as-per-object-copies",
    "int-reads-back-as-float": "int-reads-back-as-float-in-mixed-column",
    "child-order": "child-order-after-unsorted-edit",
    "coordinate-location-loads-as-index": "coordinate-location-in-gridded-parent-loads-as-index",
    "dimension-none-becomes-zero": "component-dimension-none-becomes-zero",
    "stale-block-identity": "stationary-block-keeps-old-name-after-swap",
}


_KNOWN_CACHE = {}


def _known_finding_keys():
    if "k" not in _KNOWN_CACHE:
        try:
            _KNOWN_CACHE["k"] = {f["key"] for f in common.load_findings()["finding"] if f["property"] == "C04"}
        except Exception:  # noqa: BLE001
            _KNOWN_CACHE["k"] = set()
    return _KNOWN_CACHE["k"]


def judge(ctx, fixture, ops, diffs, stage, excluded=None, extra=None):
    """turn dump differences into failures with specific keys. The run keeps at most 200 failures (common.Ctx.fail):
    a LISTED known finding is reported the first three times it is seen and counted in the histogram afterwards, so
    that the known ones (six of them occur on every shipped input) never crowd out a new failure of a later stream"""
    seen = set()
    if not hasattr(ctx, "_c04_known_seen"):
        ctx._c04_known_seen = {}
    per_run = ctx._c04_known_seen
    for key, clause, detail in diffs:
        k = KNOWN_KEYS.get(key, key)
        if excluded and key in excluded:
            k = excluded[key]
        if key == "global-coordinates" and excluded and "location" in excluded:
            k = excluded["location"]
        if (k, detail.get("param"), detail.get("dim")) in seen:
            continue
        seen.add((k, detail.get("param"), detail.get("dim")))
        if k in _known_finding_keys():
            per_run[k] = per_run.get(k, 0) + 1
            if per_run[k] > 3:
                ctx.count(f"known finding seen again (not re-reported): {k}")
                continue
        ctx.fail(k, clause, {"fixture": fixture, "ops": ops, "stage": stage, "detail": detail, **(extra or {})},
                 observed=detail.get("after"), expected=detail.get("before"))


class LoadFailed(Exception):
    pass


NEG_BASELINE = {}     # fixture -> number of negative-volume components in the unedited input (c5g7 ships 12)


def count_negative(r):
    n = 0
    for c in all_objects(r):
        if class_family(c) == "Component":
            with contextlib.suppress(Exception):
                n += c.getVolume() < 0
    return n


def _load_and_dump(ctx, fixture, o, r, fn, ops, stage):
    """load + canonical dump of the loaded reactor; an exception here is a violation ("loads back")"""
    try:
        r2 = load_db(o, r, fn)
        return r2, dump(r2)
    except Exception as e:  # noqa: BLE001
        ctx.fail("load-raises", "a written reactor state loads back", {"fixture": fixture, "ops": ops, "stage": stage},
                 observed=f"{type(e).__name__}: {e}"[:300], expected="a reactor equal to the saved one")
        raise LoadFailed(stage) from e


def roundtrip_checks(ctx, fixture, o, r, ops, tag, excluded=None, deep=True, from_file=False, case_extra=None):
    """write -> load -> compare; load twice; save the loaded reactor and load again; with from_file also a load that
    takes settings and blueprints from the file itself"""
    fn = f"{fixture}-{tag}.h5"
    if from_file:
        # settings read back from a file take the case title from the FILE NAME (Database.loadCS): name it as a run would
        fn = f"{o.cs.caseTitle}.h5"
    try:
        d0 = dump(r)
    except Exception as e:  # noqa: BLE001 - the EDITED original cannot even be queried: not a valid state to save
        raise WriteRejected("original state invalid: " + type(e).__name__) from e
    nneg = sum(1 for v in d0.values() if isinstance(v.get("volume"), float) and v["volume"] < 0)
    if nneg > NEG_BASELINE.get(fixture, 0):
        # the edits (temperatures) pushed a component through its neighbour: armi itself refuses such models
        raise WriteRejected("original state invalid: negative component volume")
    write_db(o, r, fn)
    r2, d1 = _load_and_dump(ctx, fixture, o, r, fn, ops, "write-load " + tag)
    diffs = compare(d0, d1, "saved vs loaded")
    judge(ctx, fixture, ops, diffs, "write-load " + tag, excluded, extra=case_extra)
    if from_file:
        try:
            rf = load_db_from_file(fn, r.p.cycle, r.p.timeNode)
            df = dump(rf)
        except Exception as e:  # noqa: BLE001
            ctx.fail("load-raises", "a written reactor state loads back",
                     {"fixture": fixture, "ops": ops, "stage": "write-load (inputs from the file) " + tag, **(case_extra or {})},
                     observed=f"{type(e).__name__}: {e}"[:300], expected="a reactor equal to the saved one")
            raise LoadFailed(tag) from e
        judge(ctx, fixture, ops, compare(d0, df, "saved vs loaded with the settings and blueprints stored in the file"),
              "write-load (inputs from the file) " + tag, excluded, extra=case_extra)
    ctx.count(f"{fixture}: objects compared", len(d0))
    ctx.evaluations += len(d0)
    ctx.count(f"{fixture}: parameter values compared", sum(len(v["params"]) for v in d0.values()))
    nd = len(diffs)
    if deep:
        r3, d2 = _load_and_dump(ctx, fixture, o, r, fn, ops, "load-twice " + tag)
        diffs2 = compare(d1, d2, "loaded twice")
        judge(ctx, fixture, ops, [("twice-" + k, c, d) for k, c, d in diffs2], "load-twice " + tag, extra=case_extra)
        fn2 = f"{fixture}-{tag}-resave.h5"      # (a plain name: fn may sit in a sub-directory)
        write_db(o, r2, fn2)
        r4, d3 = _load_and_dump(ctx, fixture, o, r2, fn2, ops, "save-of-load " + tag)
        diffs3 = compare(d1, d3, "saved-loaded-saved-loaded")
        judge(ctx, fixture, ops, [("resave-" + k, c, d) for k, c, d in diffs3], "save-of-load " + tag, extra=case_extra)
        nd += len(diffs2) + len(diffs3)
        os.remove(fn2)
    return fn, r2, nd


# --------------------------------------------------------------------------- tie (i): model vs Layout
class Wire:
    def __init__(self):
        self.types, self.gridkeys = {}, {}

    def loc(self, l):
        from armi.reactor import grids

        if l is None:
            return "n"
        if isinstance(l, grids.MultiIndexLocation):
            return "[m,[" + ",".join("[" + ",".join(str(int(v)) for v in s.indices) + "]" for s in l) + "]]"
        if isinstance(l, grids.CoordinateLocation):
            return "[c," + ",".join(str(fcode(v)) for v in l.indices) + "]"
        return "[i," + ",".join(str(int(v)) for v in l.getCompleteIndices()) + "]"

    def gkey(self, g):
        if g is None:
            return "_"
        k = (type(g).__name__, g.reduce())
        return str(self.gridkeys.setdefault(k, len(self.gridkeys)))

    def tree(self, c):
        ty = self.types.setdefault(type(c).__name__, len(self.types))
        kids = sorted(list(c))
        return (f"[{ty},{int(c.p.serialNum)},{self.loc(c.spatialLocator)},{self.gkey(c.spatialGrid)},["
                + ",".join(self.tree(k) for k in kids) + "]]")


def fmt_location_data(labels, data):
    out, it = [], iter(data)
    for lab in labels:
        n = int(lab.split(":")[1]) if lab.startswith("M:") else 1
        for _ in range(n):
            t = next(it)
            if lab == "C":
                out.append("[" + ",".join(str(fcode(v)) for v in t) + "]")
            else:
                out.append("[" + ",".join(str(int(v)) for v in t) + "]")
    return "[" + ",".join(out) + "]"


def layout_line(L, w):
    """the real Layout arrays in the driver's canonical form"""
    tmap = {}
    for t in L.type:
        tmap.setdefault(t, len(tmap))
    gmap = [w.gridkeys.get(gp, "?") for gp in L.gridParams]
    return " ".join([
        "[" + ",".join(str(tmap[t]) for t in L.type) + "]",
        "[" + ",".join(str(int(s)) for s in L.serialNum) + "]",
        "[" + ",".join(str(int(n)) for n in L.numChildren) + "]",
        "[" + ",".join(str(int(n)) for n in L.indexInData) + "]",
        "[" + ",".join("_" if g is None else str(int(g)) for g in L.gridIndex) + "]",
        "[" + ",".join(str(g) for g in gmap) + "]",
        "[" + ",".join(L.locationType) + "]",
        fmt_location_data(L.locationType, L.location),
        "T"])


_COMP_SORT_SEEN = set()


def sort_requests(ctx, fixture, root, req, impl, cases):
    """child order: the model's stable sort by (k, j, i) of the complete indices vs Python's sorted(children)
    (ArmiObject.__lt__) for every composite whose children are not Components and all carry index/coordinate locators"""
    from armi.reactor import grids
    from armi.reactor.components import Component

    n = 0
    for c in [root] + root.getChildren(deep=True):
        kids = list(c)
        if len(kids) < 2 or any(isinstance(k, Component) for k in kids):
            continue
        if any(k.spatialLocator is None or isinstance(k.spatialLocator, grids.MultiIndexLocation) for k in kids):
            continue
        try:
            keys = [tuple(int(v) for v in reversed(k.spatialLocator.getCompleteIndices())) for k in kids]
            order = sorted(kids)
        except Exception:  # noqa: BLE001 - not comparable (different grids): the real layout would refuse too
            continue
        pos = {id(k): i for i, k in enumerate(kids)}
        req.append("sortidx [" + ",".join("[" + ",".join(map(str, k)) + "]" for k in keys) + "]")
        impl.append("[" + ",".join(str(pos[id(k)]) for k in order) + "]")
        cases.append({"fixture": fixture, "op": "sortidx", "keys": keys[:50]})
        n += 1
        if order != kids:
            ctx.count("child lists found out of sorted order (F12 situation)")
    ctx.count("child lists compared with the model's sort", n)
    # Component.__lt__: (cold bounding-circle outer diameter, then inner diameter); the two getters are parameters
    m = 0
    for c in [root] + root.getChildren(deep=True):
        kids = list(c)
        if len(kids) < 2 or not all(isinstance(k, Component) for k in kids):
            continue
        try:
            keys = [(float(k.getBoundingCircleOuterDiameter(cold=True)), float(k.getCircleInnerDiameter(cold=True))) for k in kids]
            order = sorted(kids)
        except Exception:  # noqa: BLE001 - a shape without bounding circle: the real layout refuses such a block too
            continue
        if any(v != v or v in (float("inf"), float("-inf")) for kk in keys for v in kk):
            continue
        sig = tuple(keys)
        if sig in _COMP_SORT_SEEN:
            continue
        _COMP_SORT_SEEN.add(sig)
        pos = {id(k): i for i, k in enumerate(kids)}
        req.append("sortcomp [" + ",".join(f"[{common.rat(a)},{common.rat(b)}]" for a, b in keys) + "]")
        impl.append("[" + ",".join(str(pos[id(k)]) for k in order) + "]")
        cases.append({"fixture": fixture, "op": "sortcomp", "keys": keys[:30]})
        m += 1
        if order != kids:
            ctx.count("component lists found out of sorted order")
    ctx.count("component lists compared with the model's Component.__lt__ sort", m)


def layout_correspondence(ctx, fixture, r, fn, r2, req, impl, cases):
    if not ctx.thorough and fixture == "reference" and len(req) > 0:
        # quick tier: the 2 700-object input costs ~8 s of request parsing in the interpreted driver; its layout goes to the
        # model in the thorough tier, the axial-expansion input (1 600 objects, same classes) in both. The whole-stack
        # oracle has compared the state already.
        ctx.count("layout correspondence skipped in the quick tier (reference input)")
        return
    sort_requests(ctx, fixture, r, req, impl, cases)
    """model flatten vs real Layout(comp=r); model compose/unpack vs the file's layout datasets and the loaded tree"""
    import h5py
    from armi.bookkeeping.db import layout as lay

    w = Wire()
    tree = w.tree(r)
    L = lay.Layout((lay.DB_MAJOR, lay.DB_MINOR), comp=r)
    line = layout_line(L, w)
    req.append("flatten " + tree); impl.append(line); cases.append({"fixture": fixture, "op": "flatten"})
    # ancestors
    pairs = "[" + ",".join(f"[{int(s)},{int(n)}]" for s, n in zip(L.serialNum, L.numChildren)) + "]"
    anc = lay.Layout.computeAncestors(list(L.serialNum), list(L.numChildren))
    req.append("ancestors " + pairs); impl.append("[" + ",".join("_" if a is None else str(int(a)) for a in anc) + "]")
    cases.append({"fixture": fixture, "op": "ancestors"})
    # read side, from the real file
    with h5py.File(fn, "r") as f:
        g = f[f"c{int(r.p.cycle):0>2}n{int(r.p.timeNode):0>2}/layout"]
        types = np.char.decode(g["type"][:]).tolist()
        serial = g["serialNum"][:].tolist()
        nk = g["numChildren"][:].tolist()
        labels = np.char.decode(g["locationType"][:]).tolist()
        locdata = g["location"][:].tolist()
        gi = lay.replaceNonsenseWithNones(g["gridIndex"][:], "layout/gridIndex").tolist()
        idx = g["indexInData"][:].tolist()
    tm = {}
    for t in types:
        tm.setdefault(t, len(tm))
    rows = "[" + ",".join(f"[{tm[t]},{int(s)},{int(n)},{'_' if gg is None else int(gg)}]" for t, s, n, gg in zip(types, serial, nk, gi)) + "]"
    req.append(f"compose {rows} [{','.join(labels)}] {fmt_location_data(labels, locdata)}")
    # implementation: the loaded reactor's tree (serials, child order) + real _unpackLocations on the same datasets
    unpacked = lay._unpackLocations(labels, locdata, lay.DB_MINOR)
    by_sn = dict(zip(serial, zip(types, unpacked, gi)))

    def real_tree(c):
        t, loc, gg = by_sn[int(c.p.serialNum)]
        if loc is None:
            ls = "n"
        elif isinstance(loc, list):
            ls = "[m,[" + ",".join("[" + ",".join(str(int(v)) for v in s) + "]" for s in loc) + "]]"
        elif labels[serial.index(int(c.p.serialNum))] == "C":
            ls = "[c," + ",".join(str(fcode(v)) for v in loc) + "]"
        else:
            ls = "[i," + ",".join(str(int(v)) for v in loc) + "]"
        return f"[{tm[t]},{int(c.p.serialNum)},{ls},{'_' if gg is None else int(gg)},[" + ",".join(real_tree(k) for k in c) + "]]"

    impl.append(real_tree(r2)); cases.append({"fixture": fixture, "op": "compose"})
    # oracle clauses on the real layout (independent of the model)
    seen = {}
    for k, t in enumerate(types):
        if idx[k] != seen.get(t, 0):
            ctx.fail("layout-indexInData", "indexInData = number of earlier objects of the same class",
                     {"fixture": fixture, "row": k, "type": t}, observed=int(idx[k]), expected=seen.get(t, 0))
            break
        seen[t] = seen.get(t, 0) + 1
    if sum(nk) != len(nk) - 1:
        ctx.fail("layout-numChildren", "numChildren sums to #objects - 1", {"fixture": fixture}, observed=int(sum(nk)))
    ctx.case((fixture, "layout", len(types), hash(tree)), nontrivial=True,
             sample={"fixture": fixture, "rows": len(types), "classes": len(tm), "grids": len(L.gridParams),
                     "multiIndex": sum(1 for x in labels if x.startswith("M:"))} if len(ctx.samples) < 3 else None)


# --------------------------------------------------------------------------- tie (i) on generated composite trees
def synthetic_layouts(ctx, req, impl, cases):
    """random trees of plain Composites (4 classes; cartesian / hex grids, some shared parameters; index,
    coordinate, multi-index and absent locators; 0..5 children) -> the real Layout(comp=root) and the real
    _unpackLocations, against the model's flatten / indexInData / grid table / pack+unpack / compose / ancestors"""
    from armi.bookkeeping.db import layout as lay
    from armi.reactor import composites, grids

    rng = ctx.rng

    class VA(composites.Composite):
        pass

    class VB(composites.Composite):
        pass

    class VC(composites.Composite):
        pass

    klasses = [VA, VB, VC, composites.Composite]
    counter = [0]

    def mkgrid(kind, owner):
        if kind == 0:
            return grids.CartesianGrid.fromRectangle(1.0, 1.0, armiObject=owner)
        if kind == 1:
            return grids.HexGrid.fromPitch(1.5, armiObject=owner)
        return grids.CartesianGrid.fromRectangle(2.0, 3.0, armiObject=owner)

    def build(depth):
        counter[0] += 1
        c = rng.choice(klasses)(f"o{counter[0]}")
        if rng.random() < 0.7:
            c.spatialGrid = mkgrid(rng.randrange(3), c)
        nk = 0 if depth == 0 else rng.choice([0, 1, 1, 2, 3, 5])
        if c.spatialGrid is None:
            nk = min(nk, 1)
        used = set()
        for _ in range(nk):
            ch = build(depth - 1)
            if c.spatialGrid is not None:
                while True:
                    ijk = (rng.randint(-3, 3), rng.randint(-3, 3), rng.randint(0, 2))
                    if ijk not in used:
                        used.add(ijk)
                        break
                x = rng.random()
                if nk == 1 and x < 0.3:
                    m = grids.MultiIndexLocation(c.spatialGrid)
                    for _q in range(rng.randint(1, 5)):
                        m.append(c.spatialGrid[rng.randint(-2, 2), rng.randint(-2, 2), 0])
                    ch.spatialLocator = m
                elif nk == 1 and x < 0.5:
                    ch.spatialLocator = grids.CoordinateLocation(common.dyadic(rng, -9, 9, 4), common.dyadic(rng, -9, 9, 4), 1.25, c.spatialGrid)
                else:
                    ch.spatialLocator = c.spatialGrid[ijk]
            else:
                ch.spatialLocator = None if rng.random() < 0.5 else grids.CoordinateLocation(1.5, 2.25, -3.0, None)
            c.add(ch)
        return c

    for t in range(ctx.pick(120, 1500)):
        root = build(rng.randint(1, 4))
        w = Wire()
        tree = w.tree(root)
        L = lay.Layout((lay.DB_MAJOR, lay.DB_MINOR), comp=root)
        sort_requests(ctx, "synthetic", root, req, impl, cases)
        req.append("flatten " + tree); impl.append(layout_line(L, w)); cases.append({"fixture": "synthetic", "op": "flatten", "tree": tree[:2000]})
        pairs = "[" + ",".join(f"[{int(s)},{int(n)}]" for s, n in zip(L.serialNum, L.numChildren)) + "]"
        anc = lay.Layout.computeAncestors(list(L.serialNum), list(L.numChildren))
        req.append("ancestors " + pairs); impl.append("[" + ",".join("_" if a is None else str(int(a)) for a in anc) + "]")
        cases.append({"fixture": "synthetic", "op": "ancestors", "tree": tree[:2000]})
        # read side: rows + labels + data as they would be stored; real _unpackLocations; expected tree = the original
        tm = {}
        for ty in L.type:
            tm.setdefault(ty, len(tm))
        rows = "[" + ",".join(f"[{tm[ty]},{int(s)},{int(n)},{'_' if g is None else int(g)}]"
                              for ty, s, n, g in zip(L.type, L.serialNum, L.numChildren, L.gridIndex)) + "]"
        data = [tuple(float(v) for v in d) for d in L.location]      # the location dataset is float64
        req.append(f"compose {rows} [{','.join(L.locationType)}] {fmt_location_data(L.locationType, data)}")
        unpacked = lay._unpackLocations(L.locationType, data, lay.DB_MINOR)
        it = iter(zip(L.type, L.serialNum, L.numChildren, L.gridIndex, L.locationType, unpacked))

        def expect():
            ty, sn, nk, g, lab, loc = next(it)
            if loc is None:
                ls = "n"
            elif isinstance(loc, list):
                ls = "[m,[" + ",".join("[" + ",".join(str(int(v)) for v in s) + "]" for s in loc) + "]]"
            elif lab == "C":
                ls = "[c," + ",".join(str(fcode(v)) for v in loc) + "]"
            else:
                ls = "[i," + ",".join(str(int(v)) for v in loc) + "]"
            kids = [expect() for _ in range(int(nk))]
            return f"[{tm[ty]},{int(sn)},{ls},{'_' if g is None else int(g)},[" + ",".join(kids) + "]]"

        impl.append(expect()); cases.append({"fixture": "synthetic", "op": "compose", "tree": tree[:2000]})
        # oracle on the real objects: the stored rows describe the tree (pre-order, child counts, own class index)
        order = []

        def walk(c):
            order.append(c)
            for k in sorted(list(c)):
                walk(k)

        walk(root)
        if [int(c.p.serialNum) for c in order] != [int(x) for x in L.serialNum] or [len(c) for c in order] != [int(x) for x in L.numChildren]:
            ctx.fail("layout-preorder", "the layout lists the objects depth-first with their child counts", {"fixture": "synthetic", "tree": tree[:2000]})
        seen = {}
        for c, idx in zip(order, L.indexInData):
            if int(idx) != seen.get(type(c), 0):
                ctx.fail("layout-indexInData", "indexInData = number of earlier objects of the same class", {"fixture": "synthetic", "tree": tree[:2000]})
                break
            seen[type(c)] = seen.get(type(c), 0) + 1
        for c, gi in zip(order, L.gridIndex):
            if (c.spatialGrid is None) != (gi is None) or (gi is not None and L.gridParams[gi] != (type(c.spatialGrid).__name__, c.spatialGrid.reduce())):
                ctx.fail("layout-gridIndex", "gridIndex points at the object's own grid parameters", {"fixture": "synthetic", "tree": tree[:2000]})
                break
        ctx.case(("synthetic", tree), nontrivial=len(order) > 1,
                 sample={"synthetic tree": tree[:200], "rows": len(order)} if t == 5 else None)
    ctx.count("generated composite trees", ctx.pick(120, 1500))


# --------------------------------------------------------------------------- excluded points / known findings
def _layout_order(root):
    """objects below root in the order the layout lists them (depth-first over sorted children)"""
    out = []
    for k in sorted(list(root)):
        out.append(k)
        out.extend(_layout_order(k))
    return out


def excluded_points(ctx, req, impl, cases):
    from armi.reactor import grids
    from armi.reactor.blocks import Block
    from armi.reactor.components import Component

    # F22: a fractional CoordinateLocation child of a pin-gridded block
    with silence():
        o, r = load_fixture("smallest")
    objs = all_objects(r)
    bi = [i for i, c in enumerate(objs) if isinstance(c, Block) and c.spatialGrid is not None][0]
    b = objs[bi]
    ci = [k for k, c in enumerate(b) if isinstance(c.spatialLocator, grids.CoordinateLocation)
          or (not isinstance(c.spatialLocator, grids.MultiIndexLocation))][-1]
    ops = [["coordinateInGriddedBlock", bi, ci, [1.5, -2.25, 0.0]]]
    apply_ops(r, ops)
    with silence(), contextlib.suppress(LoadFailed, WriteRejected):
        roundtrip_checks(ctx, "smallest", o, r, ops, "f22", deep=False,
                         excluded={"coordinate-location-loads-as-index": "coordinate-location-in-gridded-parent-loads-as-index",
                                   "location": "coordinate-location-in-gridded-parent-loads-as-index"})
    ctx.count("excluded point: fractional CoordinateLocation inside a gridded block (F22)")
    # F12: child order after an edit that leaves the children unsorted
    with silence(), contextlib.suppress(LoadFailed, WriteRejected):
        o, r = load_fixture("c5g7")
        objs = all_objects(r)
        from armi.reactor.assemblies import Assembly
        ai = [i for i, a in enumerate(objs) if isinstance(a, Assembly) and a.parent is r.core]
        from armi.physics.fuelCycle import fuelHandlers
        fuelHandlers.FuelHandler(o).swapAssemblies(objs[ai[0]], objs[ai[-1]])
        ops = [["swapAssemblies", ai[0], ai[-1], None]]
        sort_requests(ctx, "c5g7", r, req, impl, cases)
        roundtrip_checks(ctx, "c5g7", o, r, ops, "f12", deep=False)
    ctx.count("excluded point: assemblies swapped, children no longer in locator order (F12)")
    # swapAssemblies on an input with STATIONARY (grid plate) blocks: the blocks exchanged between the two assemblies keep
    # the name and assemNum of the assembly they came from; the loader names every block after its parent
    with silence(), contextlib.suppress(LoadFailed, WriteRejected):
        o, r = load_fixture("axialExpansion")
        objs = all_objects(r)
        ai = [i for i, a in enumerate(objs) if isinstance(a, Assembly) and a.parent is r.core]
        fuelHandlers.FuelHandler(o).swapAssemblies(objs[ai[0]], objs[ai[-1]])
        ops = [["swapAssemblies", ai[0], ai[-1], None]]
        refresh_derived(r)
        roundtrip_checks(ctx, "axialExpansion", o, r, ops, "stationary", deep=False)
    ctx.count("excluded point: assemblies with stationary blocks swapped (transferred blocks keep their old name)")
    # a parameter without default assigned on some but not all objects of its class
    with silence():
        o, r = load_fixture("smallest")
        objs = all_objects(r)
        from armi.reactor import parameters
        done = False
        for i, c in enumerate(objs):
            if not isinstance(c, Component):
                continue
            for p in c.p.paramDefs:
                if p.saveToDB and p.default is parameters.NoDefault and c.p.get(p.name, p.default) is parameters.NoDefault:
                    same = [x for x in objs if type(x) is type(c)]
                    if len(same) < 2:
                        continue
                    try:
                        c.p[p.name] = 2.75
                    except Exception:  # noqa: BLE001
                        continue
                    ops = [["partialNoDefault", i, p.name, 2.75]]
                    d0 = dump(r)
                    try:
                        write_db(o, r, "nodefault.h5")
                        r2, d1 = _load_and_dump(ctx, "smallest", o, r, "nodefault.h5", ops, "nodefault")
                    except (WriteRejected, LoadFailed):
                        done = True
                        break
                    diffs = [d for d in compare(d0, d1, "saved vs loaded") if d[0] == "parameter" and d[2].get("param") == p.name]
                    for key, clause, detail in diffs[:1]:
                        ctx.fail("parameter-without-default-partially-assigned-not-saved", clause,
                                 {"fixture": "smallest", "ops": ops, "detail": detail}, observed=detail["after"], expected=detail["before"])
                    done = True
                    break
            if done:
                break
    ctx.count("excluded point: no-default parameter assigned on one object of its class")
    # a class column with an int FIRST, a None, and fractional floats (truncated to ints before fix 045c8d0): the floats
    # must read back unchanged; the leading int may come back as float (known kind-only key)
    with silence(), contextlib.suppress(LoadFailed, WriteRejected):
        from armi.reactor.blocks import Block as _B
        o, r = load_fixture("c5g7")
        objs = all_objects(r)
        order = [c for c in [r] + [x for x in _layout_order(r)] if isinstance(c, _B)]
        klass = type(order[0])
        order = [b for b in order if type(b) is klass]
        idx = {id(c): i for i, c in enumerate(objs)}
        ops = []
        for n, b in enumerate(order):
            val = 3 if n == 0 else None if n == 1 else 3.5 + n
            b.p.timeToLimit = val
            ops.append(["setparam", idx[id(b)], "timeToLimit", val])
        roundtrip_checks(ctx, "c5g7", o, r, ops, "int-none-float", deep=False)
        ctx.count("excluded point: class column [int, None, fractional floats...] (int first in layout order)")
    # theoretical-density fractions equal to "special" constants on a material whose own default is not 1.0 (B4C: 0.9):
    # exactly 1.0, the default itself, another value; and 1.0 / 0.9 on a unit-default material. Checked incl. save-of-load.
    with silence(), contextlib.suppress(LoadFailed, WriteRejected):
        o, r = load_fixture("axialExpansion")
        objs = all_objects(r)
        comps = [(i, c) for i, c in enumerate(objs) if isinstance(c, Component)]
        ops = []
        for want_special in (True, False):
            pick = []
            for i, c in comps:
                try:
                    d = float(type(c.material)().getTD())
                except Exception:  # noqa: BLE001
                    continue
                if (d != 1.0) == want_special and c.containsSolidMaterial():
                    pick.append((i, c, d))
                if len(pick) == 3:
                    break
            for (i, c, d), td in zip(pick, [1.0, 0.75, d] if want_special else [0.90625, 1.0, 0.5]):
                c.material.adjustTD(td)
                c.p.theoreticalDensityFrac = td
                ops.append(["setTD", i, td, type(c.material).__name__])
        record_edit_states(ctx, "axialExpansion", r, ops)
        refresh_derived(r)
        roundtrip_checks(ctx, "axialExpansion", o, r, ops, "td-special", deep=ctx.thorough)
        ctx.count("excluded point: theoretical-density fractions 1.0 / own default on a non-unit-default material", len(ops))
    # a parameter with a numeric default explicitly assigned None: on one object among numeric siblings (must read back
    # None), then on EVERY object of the class (the all-None column is not written: what comes back is recorded)
    from armi.reactor.blocks import Block as _Block
    for scope in ("one", "all"):
        with silence(), contextlib.suppress(LoadFailed, WriteRejected):
            o, r = load_fixture("c5g7")
            objs = all_objects(r)
            blocks = [(i, b) for i, b in enumerate(objs) if isinstance(b, _Block)]
            klass = type(blocks[0][1])
            blocks = [(i, b) for i, b in blocks if type(b) is klass]
            pd_ = None
            for cand in ("timeToLimit", "avgFuelTemp", "crCriticalFraction"):
                for q in blocks[0][1].p.paramDefs:
                    if q.name == cand and q.saveToDB and q.default is not None and isinstance(q.default, (int, float)):
                        pd_ = q
                        break
                if pd_ is not None:
                    break
            if pd_ is None:
                pd_ = next(q for q in blocks[0][1].p.paramDefs if q.saveToDB and is_free(blocks[0][1], q.name)
                           and isinstance(q.default, float))
            ops = []
            for n, (i, b) in enumerate(blocks):
                if scope == "all" or n == 1:
                    b.p[pd_.name] = None
                    ops.append(["setparam", i, pd_.name, None])
                else:
                    b.p[pd_.name] = 1.5 + n
                    ops.append(["setparam", i, pd_.name, 1.5 + n])
            roundtrip_checks(ctx, "c5g7", o, r, ops, "none-" + scope, deep=False)
        ctx.count(f"excluded point: numeric-default parameter `{pd_.name if pd_ else '?'}` assigned None on {scope} block(s)")


def full_core_round(ctx, rng, req, impl, cases):
    """third-core -> full-core conversion of the edited reference reactor, then the round trip"""
    from armi.reactor.converters import geometryConverters

    with silence():
        try:
            o, r = load_fixture("reference")
            ops = []
            mutate(rng, o, r, 150, ops)
            record_edit_states(ctx, "reference", r, ops)
            geometryConverters.ThirdCoreHexToFullCoreChanger(o.cs).convert(r)
            ops.append(["fullCore"])
            refresh_derived(r)
            fn, r2, nd = roundtrip_checks(ctx, "reference", o, r, ops, "fullcore", deep=True)
            layout_correspondence(ctx, "reference", r, fn, r2, req, impl, cases)
            ctx.case(("reference", "fullCore", "", "Core"), nontrivial=True)
            ctx.count("reference: third-core -> full-core conversion round trip")
        except WriteRejected as e:
            ctx.count(f"reference full core: state refused at write time ({e})")
        except LoadFailed:
            pass


# --------------------------------------------------------------------------- C04-a: blueprint-assigned parameters
BP_SKIP_FILES = ("test_", "__init__")


def bp_fixture(name, rng, dest):
    """a shipped input COPIED into `dest` whose assembly designs SET the 'assign in blueprints' parameters
    (nozzleType, hotChannelFactors, crCurrentElevation, crInsertedElevation, crWithdrawnElevation, + whatever else
    the application puts in that category); each design gets its own values, some keys are left out per design.
    -> (o, r, pdefs)"""
    import re
    import shutil

    from armi.reactor import parameters
    from armi.reactor.assemblies import Assembly
    from armi.reactor.tests import test_reactors
    from armi.tests import TEST_ROOT

    sub, inp = FIXTURES[name]
    path = os.path.join(TEST_ROOT, sub) if sub else TEST_ROOT
    os.makedirs(dest, exist_ok=True)
    pdefs = [p for p in parameters.forType(Assembly).inCategory(parameters.Category.assignInBlueprints) if p.saveToDB]
    keys = [p.name for p in pdefs]
    k = 0
    for f in sorted(os.listdir(path)):
        src = os.path.join(path, f)
        if not os.path.isfile(src) or f.startswith(BP_SKIP_FILES) or os.path.getsize(src) > 2_000_000:
            continue
        if not f.endswith(".yaml"):
            shutil.copy(src, os.path.join(dest, f))
            continue
        out = []
        with open(src) as fh:
            lines = fh.read().split("\n")
        for ln in lines:
            if re.match(r"^\s+(%s)\s*:" % "|".join(keys), ln):
                continue        # the shipped value (reference input: nozzleType on four designs) is replaced by ours
            out.append(ln)
            m = re.match(r"^(\s+)specifier:\s*(\S+)", ln)
            if m:
                k += 1
                for p in pdefs:
                    if rng.random() < 0.25:
                        continue
                    if isinstance(p.default, str):
                        v = f"bp{p.name[:3]}{k}"
                    elif isinstance(p.default, (int, float)) and not isinstance(p.default, bool):
                        v = 10.0 * k + common.dyadic(rng, 1, 9, 3)
                    else:
                        continue
                    out.append(f"{m.group(1)}{p.name}: {v}")
        with open(os.path.join(dest, f), "w") as fh:
            fh.write("\n".join(out))
    o, r = test_reactors.loadTestReactor(dest, inputFileName=inp, customSettings={"reloadDBName": "reloadingDB.h5"})
    if name not in NEG_BASELINE:
        NEG_BASELINE[name] = count_negative(r)
    return o, r, pdefs


def fresh_value(rng, cur, avoid):
    """a value of the kind of `cur`, different from every value in `avoid`; None when the kind is not handled"""
    for _ in range(50):
        if isinstance(cur, (bool, np.bool_)):
            return not bool(cur)
        if isinstance(cur, (str, np.str_)):
            v = rng.choice(["moved", "Reworked", "lta", "X", "TWRPclad", "inner zone"]) + str(rng.randrange(1000))
        elif isinstance(cur, (float, np.floating)):
            v = rng.choice(FLOATS) if rng.random() < 0.3 else common.dyadic(rng, -1000, 1000, 8)
        elif isinstance(cur, (int, np.integer)):
            v = int(cur) + rng.choice([1, 2, 3, 5])      # small steps: some int parameters index tables (envGroupNum -> chr())
        else:
            return None
        if not any(type(a) is type(v) and a == v for a in avoid) and not any(
                isinstance(a, (int, float)) and not isinstance(a, bool) and isinstance(v, (int, float)) and a == v for a in avoid):
            return v
    return None


def load_db_from_file(fn, cycle, node, label=None):
    """Database.load with settings AND blueprints read back from the file itself"""
    from armi.bookkeeping.db import Database

    with Database(fn, "r") as db:
        return db.load(int(cycle), int(node), statePointName=label, allowMissing=True)


def blueprint_param_stream(ctx, rng):
    """C04-a: the blueprints assign parameters to the assembly designs; the saved state holds OTHER values on a random
    subset of assemblies (a moved control rod, a re-assigned nozzle type): the loaded reactor must hold the saved ones.
    Loaded with the given settings/blueprints and with the ones stored in the file."""
    from armi.reactor.assemblies import Assembly

    fixtures = ctx.pick(["smallest", "c5g7", "reference"], ["smallest", "godiva", "c5g7", "axialExpansion", "reference"])
    for rep, fx in enumerate(fixtures * ctx.pick(1, 3)):
        dest = os.path.join(os.getcwd(), f"bp-{fx}-{rep}")
        bpseed = rng.randrange(2 ** 31)
        with silence():
            try:
                o, r, pdefs = bp_fixture(fx, random.Random(bpseed), dest)
            except Exception as e:  # noqa: BLE001 - the edited input does not build: nothing to check
                ctx.count(f"blueprint stream: edited input {fx} does not build ({type(e).__name__})")
                continue
        objs = all_objects(r)
        assems = [(i, a) for i, a in enumerate(objs) if isinstance(a, Assembly)]
        nset = 0
        for i, a in assems:
            design = r.blueprints.assemDesigns.get(a.p.type) if hasattr(r.blueprints.assemDesigns, "get") else None
            if design is None:
                with contextlib.suppress(Exception):
                    design = r.blueprints.assemDesigns[a.p.type]
            for p in pdefs:
                bv = getattr(design, p.name, None) if design is not None else None
                if bv is not None:
                    nset += 1
                    if a.p[p.name] != bv:
                        ctx.count("blueprint stream: constructed assembly does not hold its design's value")
        ctx.count("blueprint stream: (assembly, parameter) pairs assigned by the blueprints", nset)
        if nset == 0:
            continue
        ops = []
        chosen = [x for x in assems if rng.random() < 0.5] or [rng.choice(assems)]
        for i, a in chosen:
            design = None
            with contextlib.suppress(Exception):
                design = r.blueprints.assemDesigns[a.p.type]
            for p in pdefs:
                if rng.random() < 0.2:
                    continue
                cur = a.p[p.name]
                bv = getattr(design, p.name, None) if design is not None else None
                val = fresh_value(rng, cur, [cur, p.default, bv])
                if val is None:
                    continue
                try:
                    a.p[p.name] = val
                except Exception:  # noqa: BLE001
                    continue
                ops.append(["setparam", i, p.name, val])
                ctx.case((fx, "blueprint-assigned", p.name, bv is not None), nontrivial=True)
                ctx.count("edit kind: blueprint-assigned parameter changed after construction"
                          + (" (design sets it)" if bv is not None else " (design silent)"))
        if fx == "reference" and not ctx.thorough:
            # quick tier: this is also the seeded edit round of the reference input (pin lattices, spent fuel pool)
            with silence():
                try:
                    n0 = len(ops)
                    mutate(rng, o, r, 200, ops)
                    record_edit_states(ctx, fx, r, ops[n0:])
                    ctx.count("edits applied: reference", len(ops) - n0)
                except Exception as e:  # noqa: BLE001 - the edits left an inconsistent model: keep the blueprint edits only
                    ctx.count(f"reference: edited state invalid before saving ({type(e).__name__})")
                    o, r, pdefs = bp_fixture(fx, random.Random(bpseed), dest + "-again")
                    apply_ops(r, ops[:n0], o)
                    ops = ops[:n0]
        with silence():
            try:
                refresh_derived(r)
                fn, r2, nd = roundtrip_checks(ctx, fx, o, r, ops, f"bp{rep}", deep=(fx != "reference" or ctx.thorough),
                                              from_file=(fx != "reference" or ctx.thorough), case_extra={"bpSeed": bpseed})
                os.remove(fn)
                ctx.count(f"{fx}: round trips (blueprints assign parameters)")
            except WriteRejected as e:
                ctx.count(f"{fx}: blueprint stream state refused at write time ({e})")
            except LoadFailed:
                pass


def all_parameter_sweep(ctx, rng, fixture):
    """EVERY persistent free parameter of every class is changed after construction, each on its own random subset of
    the objects of the class, to a value of its kind different from default and current value (numbers, strings, bools);
    then the round trip. (arrays / None-default parameters: `mutate`)"""
    from armi.reactor import parameters

    with silence():
        o, r = load_fixture(fixture)
    objs = all_objects(r)
    byclass = {}
    for i, c in enumerate(objs):
        byclass.setdefault(type(c), []).append((i, c))
    ops = []
    nparams = 0
    for klass, members in byclass.items():
        c0 = members[0][1]
        for p in [q for q in c0.p.paramDefs if q.saveToDB]:
            if not is_free(c0, p.name) or p.default is parameters.NoDefault or p.name in NONE_UNSAFE or p.name in SWEEP_SKIP:
                continue
            subset = [m for m in members[:300] if rng.random() < 0.5] or [rng.choice(members)]
            done = False
            for i, c in subset:
                cur = c.p.get(p.name, p.default)
                if cur is parameters.NoDefault or cur is None:
                    continue
                val = fresh_value(rng, cur, [cur, p.default])
                if val is None:
                    continue
                try:
                    with silence():
                        c.p[p.name] = val
                except Exception:  # noqa: BLE001 - refused by the setter: not a reachable state
                    with contextlib.suppress(Exception):
                        c.p[p.name] = cur
                    continue
                ops.append(["setparam", i, p.name, val])
                done = True
            if done:
                nparams += 1
                ctx.case((fixture, "sweep", klass.__name__, p.name), nontrivial=True)
    ctx.count(f"parameter sweep {fixture}: distinct (class, parameter) changed after construction", nparams)
    ctx.count("edit kind: sweep assignment", len(ops))
    with silence():
        try:
            refresh_derived(r)
            fn, r2, nd = roundtrip_checks(ctx, fixture, o, r, ops, "sweep", deep=False)
            os.remove(fn)
            ctx.count(f"{fixture}: round trips (every-parameter sweep)")
        except WriteRejected as e:
            ctx.count(f"{fixture}: sweep state refused at write time ({e})")
        except LoadFailed:
            pass
        except Exception as e:  # noqa: BLE001 - the assignments left a model the public API cannot evaluate
            ctx.count(f"{fixture}: sweep state invalid before saving ({type(e).__name__})")


# --------------------------------------------------------------------------- C04-b: several statepoints in ONE file
SWAP_MATERIALS = ["HT9", "Zr", "Inconel600", "InconelX750", "Alloy200", "HastelloyN"]


def layout_borne_edit(rng, o, r, ops, allow_tree_change=False):
    """edits that keep the tree of objects and the sorted child order but change what the LAYOUT group carries:
    pin multi-index locations (rotation), grid parameters (pitch, block heights), material class names, input / hot
    temperatures, free coordinates. With allow_tree_change also the removal of an assembly. -> kinds applied"""
    from armi.reactor import grids
    from armi.reactor.assemblies import Assembly
    from armi.reactor.components import Component

    objs = all_objects(r)
    assems = [(i, a) for i, a in enumerate(objs) if isinstance(a, Assembly) and a.parent is r.core]
    comps = [(i, c) for i, c in enumerate(objs) if isinstance(c, Component)]
    gname = type(r.core.spatialGrid).__name__
    kinds = ["material", "tinput", "thot", "freecoord", "height"]
    if gname == "HexGrid":
        kinds += ["rotate", "rotate", "pitch"]
    elif gname == "CartesianGrid":
        kinds += ["pitch"]
    if len(assems) >= 2:
        kinds += ["swap"]
    chosen = rng.sample(kinds, rng.randint(1, 3))
    if allow_tree_change and len(assems) > 2:
        chosen.append("removeAssembly")
    applied = []
    for kind in chosen:
        try:
            if kind == "rotate":
                i, a = rng.choice(assems)
                k = rng.choice([1, 2, 3, 4, 5])
                a.rotate(math.radians(60 * k))
                ops.append(["rotate", i, k])
            elif kind == "pitch":
                g = r.core.spatialGrid
                f = rng.choice([1.0078125, 0.984375, 1.25, 1.5])
                if gname == "HexGrid":
                    g.changePitch(g.pitch * f)
                else:
                    px, py = g.pitch
                    g.changePitch(px * f, py * f)
                ops.append(["changePitch", f])
            elif kind == "material":
                cands = [(i, c) for i, c in rng.sample(comps, min(40, len(comps))) if c.containsSolidMaterial()
                         and not c.getNumberDensities().keys() - {"FE56"} == set() and not any(
                             isinstance(c.p[d], tuple) for d in c.DIMENSION_NAMES)]
                if not cands:
                    continue
                i, c = rng.choice(cands)
                names = [m for m in SWAP_MATERIALS if m != type(c.material).__name__]
                m = rng.choice(names)
                c.setProperties(m)
                c.material.adjustTD(c.p.theoreticalDensityFrac)     # as the blueprint loader does: material state follows the parameter
                c.clearCache()
                ops.append(["setMaterial", i, m])
            elif kind == "tinput":
                i, c = rng.choice(comps)
                t = c.inputTemperatureInC + common.dyadic(rng, 1, 40, 2)
                c.inputTemperatureInC = t
                c.clearLinkedCache()
                c.clearCache()
                ops.append(["setInputTemperature", i, t])
            elif kind == "thot":
                i, c = rng.choice(comps)
                t = c.temperatureInC + common.dyadic(rng, 1, 60, 2)
                c.setTemperature(t)
                ops.append(["setTemperature", i, t])
            elif kind == "freecoord":
                cands = [(i, c) for i, c in enumerate(objs) if c.parent is r and c is not r.core
                         and isinstance(c.spatialLocator, grids.CoordinateLocation)]
                if not cands:
                    continue
                i, c = rng.choice(cands)
                xyz = [v + common.dyadic(rng, -50, 50, 3) for v in (5012.5, 4987.25, 6000.75)]
                c.spatialLocator = grids.CoordinateLocation(xyz[0], xyz[1], xyz[2], None)
                ops.append(["setCoordinateLocation", i, xyz])
            elif kind == "height":
                i, a = rng.choice(assems)
                bl = [b for b in a]
                k = rng.randrange(len(bl))
                h = bl[k].getHeight() * rng.choice([0.5, 1.25, 1.5])
                bl[k].setHeight(h)
                a.calculateZCoords()
                ops.append(["setHeight", i, k, h])
            elif kind == "swap":
                # two assemblies change places (their list positions stay: the known child-order finding F12 may show)
                from armi.physics.fuelCycle import fuelHandlers
                (i, a), (j, b) = rng.sample(assems, 2)
                fuelHandlers.FuelHandler(o).swapAssemblies(a, b)
                ops.append(["swapAssemblies", i, j, None])
            elif kind == "removeAssembly":
                i, a = rng.choice(assems)
                r.core.removeAssembly(a, discharge=False)
                r.core.p.maxAssemNum = r.core.getMaxParam("assemNum")    # derived (processLoading recomputes it): keep it consistent
                ops.append(["removeAssembly", i])
            applied.append(kind)
        except Exception:  # noqa: BLE001 - the API refuses the edit
            continue
    return applied


LABEL_POOL = ["EOL", "BOC", "-special", "-shuffled", "-a", "_b2"]


def multi_statepoint_stream(ctx, rng):
    """C04-b/c: statepoints A, B, C, ... of ONE reactor object written into ONE file, with layout-borne edits (and, in
    some sequences, tree changes) in between. Addresses differ by cycle, by node, or ONLY BY LABEL (c00n00 and
    c00n00-shuffled). Every statepoint must load observationally equal to the state AT THE TIME IT WAS WRITTEN:
      * through the ONE LONG-LIVED Database object that wrote them - interleaved with the writes, then latest first,
        then in writing order, then the first one again (A, B, A), with getLayout() calls in between;
      * after a delete (`del db[...]`) and re-write of an address with another state: the new state;
      * through freshly opened Database objects (given inputs, negative node index, loadReadOnly);
      * after a loaded reactor has been saved as a further statepoint of the same file.
    Writing to an occupied address is refused and changes nothing."""
    from armi.bookkeeping.db import Database

    plan_ = ctx.pick([("smallest", 4, False), ("smallest", 3, True), ("c5g7", 3, True), ("godiva", 3, False)],
                     [("smallest", 6, False)] * 4 + [("smallest", 4, True)] * 2 + [("c5g7", 4, True)] * 2 + [("godiva", 4, False)] * 2
                     + [("axialExpansion", 3, True), ("axialExpansion", 2, False), ("reference", 3, False), ("reference", 3, True)])
    for seq, (fx, nsp, tree_changes) in enumerate(plan_):
        with silence():
            o, r = load_fixture(fx)
        fn = f"{o.cs.caseTitle}.h5"      # named as a run names it: settings read back from the file take their title from it
        with silence():
            pre = []
            if rng.random() < 0.5:
                try:
                    mutate(rng, o, r, 10, pre)
                except Exception:  # noqa: BLE001
                    o, r = load_fixture(fx)
                    pre = []
        ops, states, history = list(pre), [], []
        tree_step = rng.randrange(1, nsp)
        cycle, node = 0, 0
        db = Database(fn, "w")
        ok = True

        def multi_extra(k):
            return {"multi": {"history": [list(h) for h in history], "statepoint": list(states[k][0])}}

        def compare_loaded(k, rk, stage):
            (cy, nd_, lab), d, sops = states[k]
            dk = dump(rk)
            diffs = compare(d, dk, f"statepoint {k + 1} of {len(states)} in one file: saved vs loaded")
            judge(ctx, fx, sops, diffs, f"{stage}: statepoint {k + 1}/{len(states)} c{cy}n{nd_}{lab or ''}", extra=multi_extra(k))
            ctx.evaluations += len(d)
            ctx.case((fx, "multi", seq, k, stage), nontrivial=True)

        def load_via(dbo, k, stage):
            """load statepoint k through the given OPEN Database object"""
            (cy, nd_, lab), d, sops = states[k]
            try:
                if lab is None and rng.random() < 0.3:
                    dbo.getLayout(cy, nd_)          # a public read of the layout: must not disturb later loads
                    ctx.count("multi-statepoint: getLayout() between loads")
                rk = dbo.load(cy, nd_, cs=o.cs, bp=r.blueprints, statePointName=lab, allowMissing=True)
            except Exception as e:  # noqa: BLE001
                ctx.fail("load-raises", "a written reactor state loads back",
                         {"fixture": fx, "ops": sops, "stage": stage, "statepoint": [cy, nd_, lab], "of": len(states), **multi_extra(k)},
                         observed=f"{type(e).__name__}: {e}"[:300], expected="a reactor equal to the saved one")
                return
            ctx.count("multi-statepoint: statepoint loaded (through the long-lived Database object)")
            compare_loaded(k, rk, stage)

        with silence():
            db.open()
            db.writeInputsToDB(o.cs)
            for step in range(nsp):
                label = None
                if step > 0:
                    kinds = layout_borne_edit(rng, o, r, ops, allow_tree_change=tree_changes and (step == tree_step or rng.random() < 0.25))
                    for kd in kinds:
                        ctx.count(f"multi-statepoint edit between writes: {kd}")
                    x = rng.random()
                    used = {st[0][2] for st in states if st[0][:2] == (cycle, node)}
                    free = [l for l in LABEL_POOL if l not in used]
                    if x < 0.3 or not free:
                        node += rng.choice([1, 1, 2])
                    elif x < 0.45:
                        cycle, node = cycle + 1, 0
                    else:
                        label = rng.choice(free)        # SAME cycle and node, another label
                        ctx.count("multi-statepoint: address differing from an earlier one only by its label")
                try:
                    r.p.cycle, r.p.timeNode = cycle, node
                    refresh_derived(r)
                    d = dump(r)
                    nneg = sum(1 for v in d.values() if isinstance(v.get("volume"), float) and v["volume"] < 0)
                    if nneg > NEG_BASELINE.get(fx, 0):
                        raise WriteRejected("negative component volume")
                    db.writeToDB(r, statePointName=label)
                except Exception as e:  # noqa: BLE001 - invalid edited state or write-time refusal: end the sequence here
                    ctx.count(f"{fx}: multi-statepoint sequence cut short ({type(e).__name__})")
                    if os.environ.get("C04_DEBUG"):
                        import traceback
                        traceback.print_exc(limit=-4, file=sys.__stdout__)
                    ok = False
                    break
                states.append(((cycle, node, label), d, list(ops)))
                history.append(["w", [cycle, node, label], len(ops)])
                # loads INTERLEAVED with the writes, through the object that is writing
                if step > 0 and rng.random() < 0.6:
                    for k in rng.sample(range(len(states)), min(1 if len(d) > 1000 else 2, len(states))):
                        history.append(["l", list(states[k][0]), len(ops)])
                        load_via(db, k, "loaded between writes through the writing Database object")
            # an occupied address: the second write must be refused (and, below, must not have changed the statepoint)
            if ok and states:
                try:
                    db.writeToDB(r, statePointName=states[-1][0][2])
                    ctx.fail("statepoint-overwritten-silently", "a write to an occupied (cycle, node, label) address is refused",
                             {"fixture": fx, "ops": ops, "address": list(states[-1][0])}, observed="accepted", expected="ValueError")
                except Exception:  # noqa: BLE001
                    ctx.count("multi-statepoint: write to an occupied address refused")
            if len(states) >= 2:
                # ONE long-lived object: latest first (B then A), in writing order, and the first one again (A, B, A)
                n = len(states)
                big = len(states[0][1]) > 1000
                for k in list(range(n))[::-1] + (list(range(n)) if ((ctx.thorough and not big) or fx == "smallest") else []) + [0]:
                    history.append(["l", list(states[k][0]), len(ops)])
                    load_via(db, k, "loaded through the one long-lived Database object")
                # delete an address and write ANOTHER state there; its neighbours (same cycle/node, other label) stay
                if rng.random() < 0.7:
                    k = rng.randrange(n)
                    (cy, nd_, lab), _d, _s = states[k]
                    try:
                        del db[(cy, nd_, lab)]
                        history.append(["d", [cy, nd_, lab], len(ops)])
                        ctx.count("multi-statepoint: statepoint deleted")
                        try:
                            db.load(cy, nd_, cs=o.cs, bp=r.blueprints, statePointName=lab, allowMissing=True)
                            ctx.fail("deleted-statepoint-still-loads", "a deleted statepoint is gone", {"fixture": fx, "ops": ops, **multi_extra(k)},
                                     observed="loaded", expected="KeyError")
                        except KeyError:
                            pass
                        kinds = layout_borne_edit(rng, o, r, ops)
                        for kd in kinds:
                            ctx.count(f"multi-statepoint edit between writes: {kd}")
                        try:
                            r.p.cycle, r.p.timeNode = cy, nd_
                            refresh_derived(r)
                            d = dump(r)
                        except Exception as e:  # noqa: BLE001 - the EDITS left a model the public API cannot evaluate
                            raise WriteRejected("edited state invalid: " + type(e).__name__) from e
                        nneg = sum(1 for v in d.values() if isinstance(v.get("volume"), float) and v["volume"] < 0)
                        if nneg > NEG_BASELINE.get(fx, 0):
                            raise WriteRejected("negative component volume")
                        db.writeToDB(r, statePointName=lab)
                        states[k] = ((cy, nd_, lab), d, list(ops))
                        history.append(["w", [cy, nd_, lab], len(ops)])
                        ctx.count("multi-statepoint: deleted address written again with another state")
                        for kk in [k] + [q for q in range(n) if q != k][:2] + [k]:
                            history.append(["l", list(states[kk][0]), len(ops)])
                            load_via(db, kk, "loaded through the long-lived Database object after delete + re-write")
                    except WriteRejected:
                        states.pop(k)
                        ctx.count("multi-statepoint: re-write after delete refused (invalid edited state)")
                    except Exception as e:  # noqa: BLE001
                        ctx.fail("delete-rewrite-raises", "a deleted address can be written again", {"fixture": fx, "ops": ops},
                                 observed=f"{type(e).__name__}: {e}"[:300])
                        states.pop(k)
            db.close(True)
        if len(states) < 2:
            with contextlib.suppress(OSError):
                os.remove(fn)
            continue
        ctx.count(f"multi-statepoint files: {fx}")
        ctx.count("multi-statepoint: statepoints written", len(states))

        try:
            from armi.utils import getNodesPerCycle
            nodes_per_cycle = list(getNodesPerCycle(o.cs))
        except Exception:  # noqa: BLE001
            nodes_per_cycle = []

        def check_all(stage, order):
            for k in order:
                (cy, nd_, lab), d, sops = states[k]
                with silence():
                    try:
                        how = rng.choice(["given inputs", "given inputs", "negative node", "read-only"])
                        nodes = nodes_per_cycle[cy] if cy < len(nodes_per_cycle) else 0
                        with Database(fn, "r") as dbr:
                            if how == "negative node" and lab is None and nd_ < nodes:
                                # `node < 0`: counted from the end of the cycle, like a list index
                                rk = dbr.load(cy, nd_ - nodes, cs=o.cs, bp=r.blueprints, allowMissing=True)
                            elif how == "read-only":
                                rk = dbr.loadReadOnly(cy, nd_, statePointName=lab)
                            else:
                                how = "given inputs"
                                rk = dbr.load(cy, nd_, cs=o.cs, bp=r.blueprints, statePointName=lab, allowMissing=True)
                        ctx.count(f"multi-statepoint: statepoint loaded ({how}, fresh Database object)")
                    except Exception as e:  # noqa: BLE001
                        ctx.fail("load-raises", "a written reactor state loads back",
                                 {"fixture": fx, "ops": sops, "stage": stage, "statepoint": [cy, nd_, lab], "of": len(states), **multi_extra(k)},
                                 observed=f"{type(e).__name__}: {e}"[:300], expected="a reactor equal to the saved one")
                        continue
                    compare_loaded(k, rk, stage)

        order = list(range(len(states)))[::-1]            # latest first: B, then A
        if not ctx.thorough and len(order) > 3:
            order = order[:2] + [order[-1]]
        check_all("multi-statepoint", order)
        # save a LOADED reactor into the file that already holds the other statepoints
        with silence():
            try:
                j = rng.randrange(len(states))
                (cy, nd_, lab), dj, sops = states[j]
                dba = Database(fn, "a")
                dba.open()
                rj = dba.load(cy, nd_, cs=o.cs, bp=r.blueprints, statePointName=lab, allowMissing=True)
                rj.p.cycle, rj.p.timeNode = cycle + 1, 0
                dsave = dump(rj)
                dba.writeToDB(rj)
                # ... and, through the same object, the statepoint it came from and the new one
                load_via(dba, j, "loaded through the appending Database object after a further write")
                rl0 = dba.load(cycle + 1, 0, cs=o.cs, bp=r.blueprints, allowMissing=True)
                dba.close(True)
                with Database(fn, "r") as dbr:
                    rl = dbr.load(cycle + 1, 0, cs=o.cs, bp=r.blueprints, allowMissing=True)
                for what, rx in (("same object", rl0), ("fresh object", rl)):
                    diffs = compare(dsave, dump(rx), f"loaded reactor saved as a further statepoint of the same file ({what}): saved vs loaded")
                    judge(ctx, fx, sops, [("resave-" + k_, c_, d_) for k_, c_, d_ in diffs],
                          f"save-of-load into the same file (from statepoint {j + 1}, {what})", extra=multi_extra(j))
                ctx.count("multi-statepoint: loaded reactor saved into the same file")
            except Exception as e:  # noqa: BLE001
                ctx.fail("resave-into-same-file-raises", "saving a loaded reactor gives a file that loads to the same state again",
                         {"fixture": fx, "ops": ops, "stage": "save-of-load into the same file"}, observed=f"{type(e).__name__}: {e}"[:300])
        later = list(range(len(states)))
        if not ctx.thorough and len(later) > 2:
            later = sorted(rng.sample(later, 2))
        check_all("multi-statepoint after a further write", later)
        with contextlib.suppress(OSError):
            os.remove(fn)


# --------------------------------------------------------------------------- tie (i) for the file / load-order model
def file_model_correspondence(ctx, rng, req, impl, cases):
    """Model/Layout.lean `groupName`, `File.write/get` and `assignBlueprints ∘ initGroups` against the real
    getH5GroupName, the real Database (writeToDB / load on ONE open file, incl. writes to occupied addresses and loads of
    absent ones) and the real Layout._initComps + Database._readParams + Database._assignBlueprintsParams"""
    from armi.bookkeeping.db import Database
    from armi.bookkeeping.db import database as dbmod
    from armi.bookkeeping.db import layout as lay
    from armi.reactor import parameters
    from armi.reactor.assemblies import Assembly
    from armi.reactor.blocks import Block

    labels = ["", "EOL", "BOC", "-special", "x1", "_a"]
    for _ in range(ctx.pick(60, 600)):
        c = rng.choice([0, 1, 2, 9, 10, 11, 99, 100, 101, rng.randrange(0, 1200)])
        n = rng.choice([0, 1, 9, 10, 99, 100, rng.randrange(0, 400)])
        lab = rng.choice(labels)
        req.append(f"groupname {c} {n} L{lab}")
        impl.append(dbmod.getH5GroupName(c, n, lab or None))
        cases.append({"fixture": "-", "op": "groupname", "args": [c, n, lab]})
    # _unpackLocations on generated label / data lists: well-formed, and malformed (data exhausted, unknown label,
    # multi-index label without a number): the model must refuse exactly where the real function raises
    for _ in range(ctx.pick(150, 2000)):
        labs, data = [], []
        for _k in range(rng.randint(0, 7)):
            kind = rng.choice(["N", "C", "I", "I", "M"])
            if kind == "M":
                nsub = rng.randint(0, 4)
                labs.append(f"M:{nsub}")
                data += [(rng.randint(-9, 9), rng.randint(-9, 9), rng.randint(0, 3)) for _q in range(nsub)]
            else:
                labs.append(kind)
                data.append((0, 0, 0) if kind == "N" else (rng.randint(-9, 9), rng.randint(-9, 9), rng.randint(0, 3)))
        form = rng.choice(["ok", "ok", "short", "badlabel", "badcount", "extra"])
        if form == "short" and data:
            data = data[: rng.randrange(len(data))]
        elif form == "badlabel" and labs:
            labs[rng.randrange(len(labs))] = rng.choice(["X", "None", "IndexLocation", "m:2", "c"])
        elif form == "badcount" and labs:
            labs[rng.randrange(len(labs))] = rng.choice(["M:", "M:x", "M:2x", "M:-1"])
        elif form == "extra":
            data = data + [(1, 1, 1)]
        fdata = [tuple(float(v) for v in t) for t in data]
        try:
            un = lay._unpackLocations(list(labs), list(fdata), lay.DB_MINOR)
            outs = []
            for lab, loc in zip(labs, un):
                if loc is None:
                    outs.append("n")
                elif isinstance(loc, list):
                    outs.append("[m,[" + ",".join("[" + ",".join(str(int(v)) for v in sl) + "]" for sl in loc) + "]]")
                else:
                    outs.append(f"[{'c' if lab == 'C' else 'i'}," + ",".join(str(int(v)) for v in loc) + "]")
            real = "[" + ",".join(outs) + "]"
        except (StopIteration, ValueError, IndexError):
            real = "reject"
        ctx.count("unpackLocations stream: " + form + (" -> reject" if real == "reject" else " -> ok"))
        if any(" " in x for x in labs) or not all(labs):
            continue
        req.append("unpacklocs [" + ",".join(labs) + "] [" + ",".join("[" + ",".join(str(v) for v in t) + "]" for t in data) + "]")
        impl.append(real)
        cases.append({"fixture": "-", "op": "unpacklocs", "labels": labs, "data": data})
        ctx.case(("unpacklocs", tuple(labs), tuple(data)), nontrivial=bool(labs))
    # write / delete / load histories on ONE OPEN real file: addresses that share cycle and node and differ only by label;
    # every statepoint carries a parameter-borne marker (core keff) and a LAYOUT-borne one (x of the spent fuel pool's
    # free coordinate, stored in layout/location); loads go through the same long-lived object, and at the end through a
    # freshly opened one, which must agree
    from armi.reactor import grids

    with silence():
        o, r = load_fixture("smallest")
    sfp = [c for c in r if c is not r.core and isinstance(c.spatialLocator, grids.CoordinateLocation)]
    sfp = sfp[0] if sfp else None
    for h in range(ctx.pick(6, 50)):
        fn = f"hist-{h}.h5"
        pool = [(rng.randrange(2), rng.randrange(2), rng.choice(["", "", "EOL", "-shuffled"])) for _ in range(rng.randint(2, 4))]
        cy0, nd0 = pool[0][0], pool[0][1]
        pool += [(cy0, nd0, "-x"), (cy0, nd0, "")]           # label-only neighbours of the first address
        ops, out, expect = [], [], {}
        with silence():
            db = Database(fn, "w")
            db.open()
            db.writeInputsToDB(o.cs)

            def read(dbo, cy, nd_, lab):
                try:
                    rl = dbo.load(cy, nd_, cs=o.cs, bp=r.blueprints, statePointName=lab or None, allowMissing=True)
                except KeyError:
                    return "_"
                if (int(rl.p.cycle), int(rl.p.timeNode)) != (cy, nd_):
                    ctx.fail("statepoint-address-mismatch", "a statepoint loads with the cycle / node it was written under",
                             {"fixture": "smallest", "history": ops[:]}, observed=[int(rl.p.cycle), int(rl.p.timeNode)], expected=[cy, nd_])
                lsfp = [c for c in rl if c is not rl.core and isinstance(c.spatialLocator, grids.CoordinateLocation)]
                lid = int(lsfp[0].spatialLocator.indices[0]) if lsfp else 0
                return f"{int(rl.core.p.keff)}/{lid}"

            for k in range(rng.randint(5, 11)):
                cy, nd_, lab = rng.choice(pool) if rng.random() < 0.9 else (7, 7, "")
                name = dbmod.getH5GroupName(cy, nd_, lab or None)
                x = rng.random()
                if x < 0.45:
                    pid, lid = 1 + k + 20 * h, (1000 + 7 * k + h if sfp is not None else 0)
                    r.p.cycle, r.p.timeNode = cy, nd_
                    r.core.p.keff = float(pid)
                    if sfp is not None:
                        sfp.spatialLocator = grids.CoordinateLocation(float(lid), 4987.25, 6000.75, None)
                    ops.append(f"[w,{name},{pid},{lid}]")
                    try:
                        db.writeToDB(r, statePointName=lab or None)
                        out.append("ok")
                    except ValueError:
                        out.append("rej")
                    ctx.count("file history: write " + out[-1])
                elif x < 0.6:
                    ops.append(f"[d,{name}]")
                    try:
                        del db[(cy, nd_, lab or None)]
                        out.append("ok")
                    except KeyError:
                        out.append("rej")
                    ctx.count("file history: delete " + out[-1])
                else:
                    ops.append(f"[r,{name}]")
                    out.append(read(db, cy, nd_, lab))
                    ctx.count("file history: load " + ("absent" if out[-1] == "_" else "present") + " (long-lived object)")
            # the label-neighbours of the first address once more through the long-lived object (A, B, A), then every
            # address of the pool through a fresh one
            final = sorted(set(pool))
            for cy, nd_, lab in [(cy0, nd0, ""), (cy0, nd0, "-x"), (cy0, nd0, "")]:
                ops.append(f"[r,{dbmod.getH5GroupName(cy, nd_, lab or None)}]")
                out.append(read(db, cy, nd_, lab))
            db.close(True)
            with Database(fn, "r") as dbf:
                for cy, nd_, lab in final:
                    ops.append(f"[r,{dbmod.getH5GroupName(cy, nd_, lab or None)}]")
                    out.append(read(dbf, cy, nd_, lab))
                    ctx.count("file history: load through a freshly opened object")
        with contextlib.suppress(OSError):
            os.remove(fn)
        req.append("filehist [" + ",".join(ops) + "]")
        impl.append("[" + ",".join(out) + "]")
        cases.append({"fixture": "smallest", "op": "filehist", "history": ops})
        ctx.case(("filehist", tuple(ops)), nontrivial=True)
    # load order: _initComps -> _readParams -> _assignBlueprintsParams on files whose blueprints assign parameters and whose
    # saved values differ from them
    for fx in ctx.pick(["smallest", "c5g7"], ["smallest", "c5g7", "godiva", "axialExpansion"]):
        with silence():
            try:
                o, r, pdefs = bp_fixture(fx, random.Random(rng.randrange(2 ** 31)), os.path.join(os.getcwd(), f"bpm-{fx}"))
                for a in all_objects(r):
                    if isinstance(a, Assembly):
                        for p in pdefs:
                            v = fresh_value(rng, a.p[p.name], [a.p[p.name], p.default])
                            if v is not None and rng.random() < 0.7:
                                a.p[p.name] = v
                fn = f"bpm-{fx}.h5"
                write_db(o, r, fn)
            except Exception as e:  # noqa: BLE001
                ctx.count(f"load-order correspondence: {fx} not built ({type(e).__name__})")
                continue
            with Database(fn, "r") as db:
                h5group = db.h5db[dbmod.getH5GroupName(int(r.p.cycle), int(r.p.timeNode))]
                L = lay.Layout((db.versionMajor, db.versionMinor), h5group=h5group)
                comps, grouped = L._initComps(o.cs.caseTitle, r.blueprints)
                for ctype, clist in grouped.items():
                    db._readParams(h5group, ctype, clist, allowMissing=True)
                watch = []
                for comp, _sn, _nk, _loc in comps:
                    for base in (Block, Assembly):
                        if isinstance(comp, base):
                            names = [q.name for q in base.pDefs.inCategory(parameters.Category.assignInBlueprints)]
                            watch.append((comp, names, [comp.p.get(nm, None) for nm in names]))
                nkeys = len(grouped)
                Database._assignBlueprintsParams(r.blueprints, grouped)
                changed = sum(1 for comp, names, before in watch if [comp.p.get(nm, None) for nm in names] != before)
            os.remove(fn)
        tm = {}
        for t in L.type:
            tm.setdefault(str(t), len(tm))
        req.append("assignbp [" + ",".join(str(tm[str(t)]) for t in L.type) + "] [1000000,1000001]")
        impl.append(str(changed))
        cases.append({"fixture": fx, "op": "assignbp"})
        ctx.count("load-order correspondence: objects watched through _assignBlueprintsParams", len(watch))
        ctx.case(("assignbp", fx, len(L.type)), nontrivial=True)


# --------------------------------------------------------------------------- run
def plan(ctx):
    if ctx.thorough:
        return [("smallest", 40, 8), ("godiva", 20, 20), ("c5g7", 12, 60), ("axialExpansion", 4, 150), ("reference", 5, 250)]
    # quick tier: the edit round of the reference input runs on its blueprint-assigning copy (blueprint_param_stream)
    return [("smallest", 6, 8), ("godiva", 3, 20), ("c5g7", 3, 60), ("axialExpansion", 1, 120)]


@contextlib.contextmanager
def timed(ctx, name):
    import time

    t = time.time()
    try:
        yield
    finally:
        ctx.count(f"wall seconds (rounded up) in stream: {name}", int(time.time() - t) + 1)


def run(ctx):
    req, impl, cases = [], [], []
    rng = ctx.rng
    with common.scratch_dir():
        for fixture, rounds, nobj in plan(ctx):
          with timed(ctx, "edit rounds " + fixture):
              with silence():
                  o, r = load_fixture(fixture)
              ops = []
              schedule = list(range(rounds + 1))
              retries = 2
              while schedule:
                  rd = schedule.pop(0)
                  if rd == 0 and not ctx.thorough and nobj > 100:
                      continue        # quick tier: the large inputs are checked in their edited state only
                  if rd > 0:
                      with silence():
                          try:
                              n_before = len(ops)
                              mutate(rng, o, r, nobj, ops)
                              refresh_derived(r)
                              record_edit_states(ctx, fixture, r, ops[n_before:])
                          except Exception as e:  # noqa: BLE001 - the edits themselves left an inconsistent model
                              ctx.count(f"{fixture}: edited state invalid before saving ({type(e).__name__})")
                              o, r = load_fixture(fixture)
                              ops = []
                              if retries > 0:
                                  retries -= 1
                                  schedule.insert(0, rd)     # draw another edit set for this round
                              continue
                  with silence():
                      try:
                          fn, r2, nd = roundtrip_checks(ctx, fixture, o, r, list(ops), f"r{rd}", deep=(rd == rounds or (rd == 0 and nobj <= 60)))
                      except WriteRejected as e:
                          # the edited state cannot be written (write-time exception: allowed); start again from the input
                          ctx.count(f"{fixture}: state refused at write time ({e})")
                          if rd == 0:
                              ctx.fail("shipped-input-not-writable", "the unedited reactor built from a shipped input can be saved",
                                       {"fixture": fixture, "ops": []}, observed=f"{e.__cause__!r}"[:300])
                              break
                          o, r = load_fixture(fixture)
                          ops = []
                          if retries > 0 and rd > 0:
                              retries -= 1
                              schedule.insert(0, rd)
                          continue
                      except LoadFailed:
                          break
                      layout_correspondence(ctx, fixture, r, fn, r2, req, impl, cases)
                  os.remove(fn)
                  ctx.case((fixture, rd, len(ops)), nontrivial=True)
                  ctx.count(f"{fixture}: round trips")
                  ctx.count("edits applied: " + fixture, len(ops))
        if ctx.thorough:
            full_core_round(ctx, rng, req, impl, cases)
        with timed(ctx, "blueprint-assigned parameters"):
            blueprint_param_stream(ctx, rng)
        with timed(ctx, "every-parameter sweep"):
            for fx in ctx.pick(["smallest", "godiva", "c5g7"], ["smallest", "godiva", "c5g7", "axialExpansion", "reference"]):
                all_parameter_sweep(ctx, rng, fx)
        with timed(ctx, "multi-statepoint files"):
            multi_statepoint_stream(ctx, rng)
        with timed(ctx, "file / load-order model correspondence"):
            file_model_correspondence(ctx, rng, req, impl, cases)
        with timed(ctx, "excluded points"):
            excluded_points(ctx, req, impl, cases)
        with timed(ctx, "synthetic layouts"), silence():
            synthetic_layouts(ctx, req, impl, cases)
    for op in set(c["op"] for c in cases):
        ctx.count("model requests: " + op, sum(1 for c in cases if c["op"] == op))
    with timed(ctx, "Lean driver (all requests)"):
        model = lean_run("Layout", req)
    ctx.compare("Model/Layout.lean vs Layout / layout datasets / _unpackLocations / computeAncestors", cases, model, impl)
    ctx.evaluations += len(req)
    if req:
        ctx.samples.append({"request": req[0][:300], "model": model[0][:300], "impl": impl[0][:300]})
    ctx.rule = ("five shipped inputs (hex with pin lattices + SFP, smallest hex, Cartesian, theta-RZ, axial-expansion "
                "fixture) x rounds of seeded random edits (assignments to free parameters of sampled objects incl. "
                "per-block arrays of differing 1-d/2-d shape, temperatures, number densities, block heights, fractional "
                "free coordinates) -> writeToDB -> load -> full canonical dump compared; load twice and save-of-load on "
                "the first and last round; copies of the inputs whose blueprints assign nozzleType / hotChannelFactors / "
                "cr*Elevation per design + other values assigned after construction on random assemblies (loaded with the "
                "given and with the stored inputs); every persistent free parameter of every class changed on a random "
                "subset of its objects; sequences of 2-6 statepoints of one reactor in one file with rotations, pitch / "
                "height / material / Tinput / Thot / free-coordinate edits and assembly removals in between, every "
                "statepoint loaded (latest first) and compared with the state at its write, a loaded reactor saved into the "
                "same file, occupied addresses; Layout arrays, file layout datasets, _unpackLocations (incl. malformed), "
                "computeAncestors, both sort orders, group names, write/load histories, _assignBlueprintsParams vs the model. "
                "distinct = (fixture, round, #edits) states + (fixture, class, parameter) sweeps + statepoints + layout cases")


# --------------------------------------------------------------------------- search / replay
def search(ctx, disagreements, broken):
    """layout model disagreement: evaluate the whole-stack oracle on every fixture the disagreement names"""
    out = []
    fixtures = sorted(f for f in {d.case.get("fixture") for d in disagreements if isinstance(d.case, dict)} if f in FIXTURES) \
        or ["smallest", "c5g7", "godiva"]
    known = {f["key"] for f in common.load_findings()["finding"] if f["property"] == "C04"}
    sub = type(ctx)(ctx.prop, "quick", ctx.seed)
    with common.scratch_dir():
        for fx in fixtures:
            with silence():
                o, r = load_fixture(fx)
                ops = []
                for rd in range(3):
                    if rd:
                        mutate(sub.rng, o, r, 30, ops)
                        refresh_derived(r)
                    try:
                        roundtrip_checks(sub, fx, o, r, list(ops), f"s{rd}", deep=True)
                    except WriteRejected:
                        o, r = load_fixture(fx)
                        ops = []
                    except LoadFailed:
                        break
    opsd = {d.case.get("op") for d in disagreements if isinstance(d.case, dict)}
    with common.scratch_dir():
        if opsd & {"filehist", "groupname"}:
            multi_statepoint_stream(sub, sub.rng)       # the file model disagrees: several statepoints through one object
        if "assignbp" in opsd:
            blueprint_param_stream(sub, sub.rng)        # the load-order model disagrees: blueprint-assigned parameters
    seen = set()
    for f in sub.failures:
        if f.key not in known and f.key not in seen:
            seen.add(f.key)
            out.append(f)
    return out


def replay_multi(sub, fx, o, r, case, ops):
    """re-run a multi-statepoint history on ONE open Database object: the recorded edits applied slice by slice, every
    write / delete / load event in its recorded order; then every live address loaded through the same object in both
    orders and through a fresh one, each compared with the state at its (last) write"""
    from armi.bookkeeping.db import Database

    m = case["multi"]
    hist = m.get("history") or [["w", a, c] for a, c in zip(m.get("addresses", []), m.get("opsAt", []))]
    db = Database("replay-multi.h5", "w")
    db.open()
    db.writeInputsToDB(o.cs)
    dumps, done = {}, 0

    def check(dbo, key, stage):
        cy, nd_, lab = key
        rk = dbo.load(cy, nd_, cs=o.cs, bp=r.blueprints, statePointName=lab, allowMissing=True)
        judge(sub, fx, ops, compare(dumps[key], dump(rk), "replay"), stage)

    for kind, addr, cut in hist:
        key = (addr[0], addr[1], addr[2])
        cut = min(cut, len(ops))
        if cut > done:
            apply_ops(r, ops[done:cut], o)
            done = cut
        if kind == "w":
            r.p.cycle, r.p.timeNode = key[0], key[1]
            refresh_derived(r)
            dumps[key] = dump(r)
            db.writeToDB(r, statePointName=key[2])
        elif kind == "d":
            del db[key]
            dumps.pop(key, None)
        elif kind == "l" and key in dumps:
            check(db, key, case.get("stage", "replay"))
    keys = list(dumps)
    for key in keys[::-1] + keys:
        check(db, key, case.get("stage", "replay"))
    db.close(True)
    with Database("replay-multi.h5", "r") as dbr:
        for key in keys:
            check(dbr, key, case.get("stage", "replay"))


def replay(ctx, payload):
    case = payload.get("case", {})
    fx = case.get("fixture")
    if fx not in FIXTURES:
        return None
    sub = type(ctx)(ctx.prop, "quick", ctx.seed)
    with common.scratch_dir(), silence():
        if "bpSeed" in case:
            o, r, _ = bp_fixture(fx, random.Random(case["bpSeed"]), os.path.join(os.getcwd(), "bp-replay"))
        else:
            o, r = load_fixture(fx)
        ops = [op if op[0] != "swapAssemblies" else [op[0], op[1], op[2], o] for op in case.get("ops", [])]
        if "multi" in case:
            replay_multi(sub, fx, o, r, case, ops)
        else:
            apply_ops(r, ops, o)
            refresh_derived(r)
            with contextlib.suppress(LoadFailed, WriteRejected):
                roundtrip_checks(sub, fx, o, r, case.get("ops", []), "replay", deep=True, from_file="bpSeed" in case)
    hit = [f for f in sub.failures if f.key == payload.get("key")]
    return hit[0].to_json() if hit else None
