"""C05 - every parameter value shape survives database encoding and decoding.

Theorems: lean/ArmiVerif/Props/C05.lean over Model/Pack.lean (+ regenerated Gen/PackConsts.lean).
Tie: generated per-object value lists -> the REAL Database._writeParams -> a real HDF5 dataset + attrs
in a real file -> the REAL Database._readParams, compared with the model's prediction
(accepted / rejected / skipped / unreadable, the chosen strategy with its attrs, and the read-back
values); flag sets through the real FlagSerializer._packImpl -> HDF5 -> _unpackImpl with a
reordered / extended reader class. Implementation-side oracle (independent of the model):
read-back == documented normalisation of the original, or a write-time exception.
"""
import contextlib
import itertools
import json
import logging
import os
import struct

import numpy as np

from harness import common
from harness.common import Failure, lean_run

PROP_MODULES = ["ArmiVerif.Props.C05"]
PARTIAL = ("numpy dtype promotion, 'inhomogeneous shape raises', h5py's refusal of unicode arrays and HDF5 storage "
           "are parameters of the model (validated by the correspondence, not proved); Python nesting is modelled "
           "to depth 2 (deeper structure only through n-d arrays); the main theorem is stated on the modelled "
           "domain (one dtype per parameter, well-formed arrays) with the sentinel / NaN guards explicit")
ASSUMPTIONS = [
    "numpy promotion table `promote` = np.array([a, b]).dtype (checked exhaustively over the 12 modelled dtypes each run)",
    "np.array of differently shaped sequences raises ValueError; h5py has no conversion path for '<U' arrays; "
    "HDF5 stores and returns datasets and attrs unchanged (observed on every generated case)",
    "Python set iteration order in FlagSerializer._unpackImpl (order in which missing flags are added) is a "
    "parameter; comparison is at the level of flag names that are on",
]

GEN_PATH = os.path.join(common.LEAN, "ArmiVerif", "Gen", "PackConsts.lean")

DTS = ["b", "i8", "i16", "i32", "i64", "u8", "u16", "u32", "u64", "f32", "f64", "str"]
NPT = {"b": np.bool_, "i8": np.int8, "i16": np.int16, "i32": np.int32, "i64": np.int64, "u8": np.uint8,
       "u16": np.uint16, "u32": np.uint32, "u64": np.uint64, "f32": np.float32, "f64": np.float64, "str": np.str_}


# --------------------------------------------------------------------------- regenerate Gen/PackConsts.lean
def _type_key(t):
    table = {int: "pyint", float: "pyfloat", str: "pystr", bool: "pybool", np.bool_: "npbool", np.str_: "npstr",
             np.int8: "i8", np.int16: "i16", np.int32: "i32", np.int64: "i64", np.uint8: "u8", np.uint16: "u16",
             np.uint32: "u32", np.uint64: "u64", np.float32: "f32", np.float64: "f64"}
    for k, v in table.items():
        if t is k:
            return v
    # aliases (np.uint is np.uint64 on this platform)
    for k, v in table.items():
        try:
            if np.dtype(t) == np.dtype(k) and k not in (int, float, str, bool):
                return v
        except TypeError:
            pass
    return "other_" + getattr(t, "__name__", str(t))


def lean_str(s):
    return '"' + s.replace("\\", "\\\\").replace('"', '\\"') + '"'


def regenerate(ctx):
    from armi.bookkeeping.db import layout

    order = ["pyint", "i8", "i16", "i32", "i64", "u8", "u16", "u32", "u64"]
    ints, nans, strs = {}, [], []
    for t, v in layout.NONE_MAP.items():
        k = _type_key(t)
        if isinstance(v, str):
            strs.append((k, v))
        elif isinstance(v, (float, np.floating)):
            if v != v:
                nans.append(k)
            else:
                strs.append((k, repr(float(v))))  # a non-NaN float sentinel: not representable -> breaks the proofs
        else:
            ints[k] = int(v)
    int_items = [(k, ints[k]) for k in order if k in ints] + sorted((k, v) for k, v in ints.items() if k not in order)
    nans = sorted(set(nans), key=lambda k: (k != "pyfloat", k))
    names = {type(None): "NoneType"}
    labels = []
    for t, lab in layout.LOCATION_TYPE_LABELS.items():
        labels.append((names.get(t, t.__name__), lab))
    out = ["/-",
           "REGENERATED on every run by harness/c05.py `regenerate` from armi/bookkeeping/db/layout.py",
           "(NONE_MAP, LOCATION_TYPE_LABELS, DB_MAJOR/DB_MINOR). Data only — do not edit by hand.",
           "-/", "namespace ArmiVerif.Gen.PackConsts", "",
           f"def dbMajor : Nat := {int(layout.DB_MAJOR)}", f"def dbMinor : Nat := {int(layout.DB_MINOR)}", "",
           "/-- NONE_MAP entries whose sentinel is an integer: (type key, sentinel) -/",
           "def noneMapInt : List (String × Int) := ["]
    out.append(",\n".join(f"  ({lean_str(k)}, {v})" for k, v in int_items) + "]")
    out += ["", "/-- NONE_MAP entries whose sentinel is NaN -/",
            "def noneMapNaN : List String := [" + ", ".join(lean_str(k) for k in nans) + "]", "",
            "/-- NONE_MAP entries whose sentinel is a string -/",
            "def noneMapStr : List (String × String) := [" + ", ".join(f"({lean_str(k)}, {lean_str(v)})" for k, v in strs) + "]",
            "", "/-- LOCATION_TYPE_LABELS: (location class, label) -/",
            "def locLabels : List (String × String) := ["]
    out.append(",\n".join(f"  ({lean_str(k)}, {lean_str(v)})" for k, v in labels) + "]")
    out += ["", "end ArmiVerif.Gen.PackConsts", ""]
    text = "\n".join(out)
    old = open(GEN_PATH).read() if os.path.exists(GEN_PATH) else None
    if old != text:
        with common.lake_lock():
            tmp = GEN_PATH + f".tmp{os.getpid()}"
            with open(tmp, "w") as f:
                f.write(text)
            os.replace(tmp, GEN_PATH)
        ctx.say("C05: Gen/PackConsts.lean regenerated (layout.py constants changed)")
    return ["ArmiVerif.Props.C05"]


# --------------------------------------------------------------------------- abstract entries <-> python / wire
# entry := ('n',) | ('s', np, dt, v) | ('a', dt, shape, data) | ('l', tup, dt, xs) | ('m', tup, dt, rows) | ('d', [(k, v)])
# scalar payload v: int | float | bool | str (python values; floats may be nan/inf)

def fcode(x):
    x = float(x)
    if x != x:
        return "nan"
    return str(struct.unpack("<q", struct.pack("<d", x))[0])


def sv_wire(dt, v):
    if dt == "b":
        return "bT" if v else "bF"
    if dt == "str":
        return "s" + str(v).encode("utf-8").hex()
    if dt in ("f32", "f64"):
        return "f" + fcode(v)
    return "i" + str(int(v))


def wire_entry(e):
    t = e[0]
    if t == "n":
        return "[n]"
    if t == "s":
        return f"[s,{'T' if e[1] else 'F'},{e[2]},{sv_wire(e[2], e[3])}]"
    if t == "a":
        return f"[a,{e[1]},[{','.join(map(str, e[2]))}],[{','.join(sv_wire(e[1], v) for v in e[3])}]]"
    if t == "l":
        return f"[l,{'T' if e[1] else 'F'},{e[2]},[{','.join(sv_wire(e[2], v) for v in e[3])}]]"
    if t == "m":
        rows = ",".join("[" + ",".join(sv_wire(e[2], v) for v in r) + "]" for r in e[3])
        return f"[m,{'T' if e[1] else 'F'},{e[2]},[{rows}]]"
    if t == "d":
        return "[d,[" + ",".join(f"[{k.encode('utf-8').hex()},{fcode(v)}]" for k, v in e[1]) + "]]"
    raise ValueError(e)


def wire(entries):
    return "[" + ",".join(wire_entry(e) for e in entries) + "]"


def py_scalar(np_, dt, v):
    if np_:
        return NPT[dt](v)
    return v


def noncontig(a, k):
    """the same logical array (shape, values, dtype) in another MEMORY layout: 0 C-contiguous, 1 Fortran order,
    2 a strided view (every second row of a larger buffer), 3 a swapaxes(0, 1) view of a contiguous buffer"""
    a = np.asarray(a)
    if a.ndim == 0 or a.size == 0 or k % 4 == 0:
        return a
    k = k % 4
    if k == 1 and a.ndim >= 2:
        return np.asfortranarray(a)
    if k == 3 and a.ndim >= 2:
        return np.ascontiguousarray(a.swapaxes(0, 1)).swapaxes(0, 1)
    big = np.empty((2 * a.shape[0],) + a.shape[1:], dtype=a.dtype)
    big[::2] = a
    big[1::2] = a[::-1]
    return big[::2]


def to_py(e):
    t = e[0]
    if t == "n":
        return None
    if t == "s":
        return py_scalar(e[1], e[2], e[3])
    if t == "a":
        a = np.array(list(e[3]), dtype=NPT[e[1]] if e[1] != "str" else None).reshape(tuple(e[2]))
        # memory layout is derived from the entry itself (deterministic, replayable): C / Fortran / strided / swapaxes
        return noncontig(a, len(e[3]) + sum(e[2]) + len(e[2]))
    if t == "l":
        return tuple(e[3]) if e[1] else list(e[3])
    if t == "m":
        return tuple(tuple(r) for r in e[3]) if e[1] else [list(r) for r in e[3]]
    if t == "d":
        return {k: v for k, v in e[1]}
    raise ValueError(e)


def entries_json(entries):
    return json.loads(json.dumps(entries, default=lambda o: repr(o)))


def entries_from_json(js):
    out = []
    for e in js:
        t = e[0]
        if t == "d":
            out.append(("d", [(k, v if (isinstance(v, int) and not isinstance(v, bool)) else float(v)) for k, v in e[1]]))
        elif t == "a":
            out.append(("a", e[1], tuple(e[2]), _vals(e[1], e[3])))
        elif t == "l":
            out.append(("l", e[1], e[2], _vals(e[2], e[3])))
        elif t == "m":
            out.append(("m", e[1], e[2], [_vals(e[2], r) for r in e[3]]))
        elif t == "s":
            out.append(("s", e[1], e[2], _vals(e[2], [e[3]])[0]))
        else:
            out.append(("n",))
    return out


def _vals(dt, vs):
    if dt in ("f32", "f64"):
        return [float(v) for v in vs]       # json: NaN/Infinity literals are accepted by python's json
    return list(vs)


# --------------------------------------------------------------------------- canonical form of what was read back
def kind_of(x):
    if isinstance(x, (bool, np.bool_)):
        return "b"
    if isinstance(x, (int, np.integer)):
        return "i"
    if isinstance(x, (float, np.floating)):
        return "f"
    if isinstance(x, (str, np.str_, bytes)):
        return "s"
    return "?"


def sv_canon(x):
    k = kind_of(x)
    if k == "b":
        return "bT" if bool(x) else "bF"
    if k == "i":
        return "i" + str(int(x))
    if k == "f":
        return "f" + fcode(x)
    if k == "s":
        return "s" + str(x).encode("utf-8").hex()
    return "?" + repr(x)


def nest_shape_leaves(v):
    """(shape, flat leaves) of a nested python list/tuple, without numpy; ValueError if ragged"""
    if isinstance(v, np.ndarray):
        return tuple(v.shape), (v.ravel().tolist() if v.dtype.kind != "O" else list(v.ravel()))
    if not isinstance(v, (list, tuple)):
        return (), [v]
    if len(v) == 0:
        return (0,), []
    subs = [nest_shape_leaves(x) for x in v]
    if len({sh for sh, _ in subs}) != 1:
        raise ValueError("ragged")
    return (len(v),) + subs[0][0], [x for _, ls in subs for x in ls]


def canon_out(v):
    """canonical line fragment of one read-back per-object value (container kind not distinguished;
    an array without elements has no observable kind or trailing shape after tolist())"""
    if v is None:
        return "N"
    if isinstance(v, dict):
        return "[d,[" + ",".join(f"[{str(k).encode('utf-8').hex()},f{fcode(x)}]" for k, x in v.items()) + "]]"
    if isinstance(v, (np.ndarray, list, tuple)):
        try:
            shape, flat = nest_shape_leaves(v)
        except ValueError:
            return "?ragged" + repr(v)
        if not flat:
            return "[a,-,[0],[]]"
        if isinstance(v, np.ndarray):
            k = {"b": "b", "i": "i", "u": "i", "f": "f", "U": "s", "S": "s"}.get(v.dtype.kind, "?")
        else:
            k = kind_of(flat[0])
        return f"[a,{k},[{','.join(map(str, shape))}],[{','.join(sv_canon(x) for x in flat)}]]"
    return f"[s,{kind_of(v)},{sv_canon(v)}]"


_KNOWN_CACHE = {}


def report(ctx, key, clause, case, observed=None, expected=None):
    """ctx.fail, except that a LISTED known finding is reported the first three times it is seen and counted afterwards:
    the run keeps at most 200 failures (common.Ctx.fail) and the mixed-kind stream alone produces hundreds of known
    promotions in the thorough tier, which must not crowd out a new failure of a later stream (flags, direct pack)"""
    if "k" not in _KNOWN_CACHE:
        try:
            _KNOWN_CACHE["k"] = {f["key"] for f in common.load_findings()["finding"] if f["property"] == "C05"}
        except Exception:  # noqa: BLE001
            _KNOWN_CACHE["k"] = set()
    if key in _KNOWN_CACHE["k"]:
        if not hasattr(ctx, "_c05_known_seen"):
            ctx._c05_known_seen = {}
        ctx._c05_known_seen[key] = ctx._c05_known_seen.get(key, 0) + 1
        if ctx._c05_known_seen[key] > 3:
            ctx.count(f"known finding seen again (not re-reported): {key}")
            return
    ctx.fail(key, clause, case, observed, expected)


# --------------------------------------------------------------------------- the real stack
class Stack:
    """fake composites with a real ParameterCollection, written/read by the real Database methods"""

    def __init__(self):
        from armi.bookkeeping.db.database import Database
        from armi.reactor import parameters
        from armi.reactor.parameters import ParameterCollection

        pDefs = parameters.ParameterDefinitionCollection()
        with pDefs.createBuilder() as pb:
            pb.defParam("p", "units", "verification parameter", parameters.ParamLocation.AVERAGE, default=None)

        class VerifParams(ParameterCollection):
            pass

        VerifParams.pDefs = pDefs

        class VObj:
            def __init__(self):
                self.p = VerifParams()

        VObj.pDefs = pDefs
        self.VObj, self.Database = VObj, Database
        self.n = 0
        self.last_dtype = None

    def roundtrip(self, h5file, values):
        """-> (outcome, strategy, readback list | None, error text)"""
        self.n += 1
        g = h5file.create_group(f"c{self.n}")
        comps = [self.VObj() for _ in values]
        for c, v in zip(comps, values):
            c.p["p"] = v
        try:
            with common.quiet():
                self.Database._writeParams(self.Database, g, comps)
        except Exception as e:  # noqa: BLE001 - any exception at write time is a rejection
            return "reject", None, None, f"{type(e).__name__}: {str(e)[:120]}"
        grp = g["VObj"]
        if "p" not in grp:
            return "skip", None, None, ""
        ds = grp["p"]
        self.last_dtype = ds.dtype
        at = dict(ds.attrs)
        if not at.get("specialFormatting", False):
            strat = "plain:[" + ",".join(map(str, ds.shape)) + "]"
        elif at.get("jagged", False):
            sh = np.asarray(at["shapes"])
            shs = ("ints[" + ",".join(str(int(x)) for x in sh) + "]") if (sh.ndim == 1 and sh.size) else \
                "[" + ",".join("[" + ",".join(str(int(x)) for x in row) + "]" for row in sh) + "]"
            strat = ("jagged:[" + ",".join(str(int(x)) for x in np.asarray(at["offsets"]).ravel()) + "]:" + shs + ":["
                     + ",".join(str(int(x)) for x in np.asarray(at["noneLocations"]).ravel()) + "]")
        elif at.get("dict", False):
            strat = "dict:[" + ",".join(bytes(k).hex() for k in np.asarray(at["keys"]).ravel()) + "]"
        elif at.get("nones", False):
            strat = "sentinel"
        else:
            strat = "special-unknown"
        comps2 = [self.VObj() for _ in values]
        try:
            with common.quiet():
                self.Database._readParams(g, "VObj", comps2)
        except Exception as e:  # noqa: BLE001
            return "readfail", strat, None, f"{type(e).__name__}: {str(e)[:120]}"
        return "ok", strat, [c.p["p"] for c in comps2], ""


def impl_line(res):
    outcome, strat, back, _ = res
    if outcome in ("reject", "skip"):
        return outcome
    if outcome == "readfail":
        return "readfail " + strat
    return "ok " + strat + " [" + ",".join(canon_out(v) for v in back) + "]"


# --------------------------------------------------------------------------- implementation-side oracle
def _is_nan(x):
    return isinstance(x, (float, np.floating)) and x != x


def norm_value(v):
    """documented normalisation of a value -> (kind, shape, tuple of leaves) | None (unset) | ('dict', items).
    sequences come back as arrays; an empty entry comes back unset; NaN is the unset marker for reals."""
    if v is None:
        return None
    if isinstance(v, dict):
        return ("dict", tuple(sorted((str(k), _leaf(x)) for k, x in v.items() if not _is_nan(x))))
    if isinstance(v, (np.ndarray, list, tuple)):
        if isinstance(v, np.ndarray) and v.dtype.kind == "O":
            return ("object", repr(v))
        try:
            shape, flat = nest_shape_leaves(v)
        except ValueError:
            return ("ragged-nest", repr(v))
        if not flat:
            return None
        kinds = {kind_of(x) for x in flat}
        if isinstance(v, np.ndarray):
            k = {"b": "b", "i": "i", "u": "i", "f": "f", "U": "s"}.get(v.dtype.kind, "?")
        else:
            k = kinds.pop() if len(kinds) == 1 else "mixed:" + "".join(sorted(kinds))
        if len(flat) == 1 and _is_nan(flat[0]):
            return None
        return (k, tuple(shape), tuple(_leaf(x) for x in flat))
    if _is_nan(v):
        return None
    return (kind_of(v), (), (_leaf(v),))


def _leaf(x):
    if _is_nan(x):
        return "nan"
    if isinstance(x, (bool, np.bool_)):
        return bool(x)
    if isinstance(x, (int, np.integer)):
        return int(x)
    if isinstance(x, (float, np.floating)):
        return fcode(x)
    return str(x)


def same_value(orig, back):
    """does the read-back value equal the normalised original? A scalar and a one-element array are the
    same value (JaggedArray documents shape (1,) for scalar entries); kind of empty arrays is not compared."""
    a, b = norm_value(orig), norm_value(back)
    if a == b:
        return True
    if a is None or b is None:
        return False
    if a[0] == "dict" or b[0] == "dict":
        return False
    if a[0] in ("ragged-nest", "object") or b[0] in ("ragged-nest", "object"):
        return False
    ka, sa, la = a
    kb, sb, lb = b
    if la != lb or (ka != kb and la):
        # bool leaves compare equal to ints in python; kinds were compared above
        return False
    if [type(x) for x in la] != [type(x) for x in lb]:
        return False
    if sa == sb:
        return True
    return {sa, sb} == {(), (1,)}


def classify_failure(entries, values=None, back=None):
    """key naming the input class of an accepted-but-unfaithful case"""
    key = _classify_failure(entries)
    if key == "float-truncated-in-mixed-column-with-none":
        # that key is for a change of VALUE; if what came back is numerically equal it is the kind-only promotion
        lost = False
        if values is not None and back is not None and len(values) == len(back):
            for o, b in zip(values, back):
                if isinstance(o, (float, np.floating)) and o == o and b is not None and not isinstance(b, (list, dict, np.ndarray)):
                    lost = lost or float(b) != float(o)
        else:
            lost = True
        return key if lost else "mixed-kinds-promoted"
    return key


def _classify_failure(entries):
    if any(x.endswith("\x00") for x in _text_leaves(entries)):
        return "string-trailing-nul-stripped"
    kinds = set()
    forms = set()
    has_none = any(e[0] == "n" for e in entries)
    for e in entries:
        if e[0] in ("s", "a"):
            kinds.add(_class(e[2] if e[0] == "s" else e[1]))
            forms.add("scalar" if e[0] == "s" else "array")
        elif e[0] in ("l", "m"):
            kinds.add(_class(e[2]))
            forms.add("array")
        elif e[0] == "d":
            forms.add("dict")
    widths = {(e[2] if e[0] in ("s", "l", "m") else e[1]) for e in entries if e[0] in ("s", "a", "l", "m")}
    if forms == {"scalar"} and has_none and kinds == {"i", "f"}:
        scal = [e for e in entries if e[0] == "s"]
        if _class(scal[0][2]) == "i" and any(_class(e[2]) == "f" and isinstance(e[3], float) and e[3] == e[3]
                                             and e[3] not in (float("inf"), float("-inf")) and e[3] != int(e[3]) for e in scal):
            # int first, a None present, a fractional float later: the first value's type is forced on all -> 3.5 reads back 3
            return "float-truncated-in-mixed-column-with-none"
    if len(kinds) > 1 or (len(widths) > 1 and "dict" not in forms):
        return "mixed-kinds-promoted"
    scal_only = forms == {"scalar"}
    if scal_only and has_none:
        for e in entries:
            if e[0] == "s" and e[2] in SENT and not isinstance(e[3], bool) and int(e[3]) == SENT[e[2]]:
                return "sentinel-collision-int"
        if len(widths) > 1:
            return "mixed-widths-with-none"
    if forms == {"scalar", "array"} or forms == {"array"}:
        ragged_nest = any(e[0] == "m" and len({len(r) for r in e[3]}) > 1 for e in entries)
        if ragged_nest:
            return "jagged-nested-ragged-list"
        for e in entries:
            if e[0] == "s" and e[2] == "b" and e[1]:
                return "jagged-drops-numpy-bool-scalar"
            if e[0] == "s" and e[2] == "str":
                return "jagged-drops-str-scalar"
    if "dict" in forms and len(forms) > 1:
        return "dict-mixed-with-other-forms"
    return "roundtrip-" + "+".join(sorted(forms) or ["none"]) + ("+none" if has_none else "")


def _class(dt):
    return "b" if dt == "b" else "s" if dt == "str" else "f" if dt in ("f32", "f64") else "i"


SENT = {"i8": -126, "i16": -32766, "i32": -2 ** 31 + 2, "i64": -2 ** 63 + 2,
        "u8": 253, "u16": 65533, "u32": 2 ** 32 - 3, "u64": 2 ** 64 - 3}


def oracle(ctx, entries, values, res, stream):
    """property clauses on the real objects: accepted => reads back the normalised original"""
    outcome, strat, back, err = res
    if outcome == "reject":
        ctx.count(f"{stream}: rejected at write time")
        return None
    case = {"entries": entries_json(entries)}
    if outcome == "skip":
        ctx.count(f"{stream}: nothing written (all unset)")
        if all(norm_value(v) is None for v in values):
            return None
        return Failure(classify_failure(entries), "an accepted collection reads back with the same values",
                       case, observed="dataset not written", expected="values preserved")
    if outcome == "readfail":
        return Failure(classify_failure(entries),
                       "a collection that cannot be represented is rejected at WRITE time (it was written, then reading raised)",
                       case, observed=err, expected="write-time rejection or faithful read-back")
    ctx.count(f"{stream}: accepted via {strat.split(':')[0]}")
    if len(back) != len(values):
        return Failure(classify_failure(entries), "one value per object", case, observed=len(back), expected=len(values))
    for i, (o, b) in enumerate(zip(values, back)):
        if not same_value(o, b):
            return Failure(classify_failure(entries, values, back),
                           "accepted => same values, shapes, numeric kinds and unset positions (up to the documented normalisations)",
                           case, observed={"index": i, "read": repr(b)[:200]}, expected=repr(o)[:200])
    return None


# --------------------------------------------------------------------------- generators
INT_RANGE = {"i8": (-128, 127), "i16": (-2 ** 15, 2 ** 15 - 1), "i32": (-2 ** 31, 2 ** 31 - 1), "i64": (-2 ** 63, 2 ** 63 - 1),
             "u8": (0, 255), "u16": (0, 2 ** 16 - 1), "u32": (0, 2 ** 32 - 1), "u64": (0, 2 ** 64 - 1)}
FLOATS64 = [0.0, -0.0, 1.5, -2.25, 1e300, 5e-324, float("inf"), float("-inf"), float("nan"), 3.141592653589793, 1.0, 2.0]
FLOATS32 = [0.0, 1.5, -2.25, float("inf"), float("nan"), 0.15625, 3.0e38, 1.0, 2.0]
STRS = ["", "a", "bc", "long string", "<!None!>", "x y", "Z9"]
KEYS = ["a", "b", "c", "dd", "e1", "", "B"]


def gen_leaf(rng, dt):
    if dt == "b":
        return rng.random() < 0.5
    if dt == "str":
        return rng.choice(STRS)
    if dt == "f64":
        return rng.choice(FLOATS64) if rng.random() < 0.7 else common.dyadic(rng, -64, 64, 6)
    if dt == "f32":
        return float(np.float32(rng.choice(FLOATS32))) if rng.random() < 0.7 else common.dyadic(rng, -64, 64, 6)
    lo, hi = INT_RANGE[dt]
    while True:
        r = rng.random()
        v = rng.randint(max(lo, -9), min(hi, 9)) if r < 0.6 else rng.choice([lo, hi, lo + 1, hi - 1, lo + 3, hi - 3]) if r < 0.8 \
            else rng.randint(lo, hi)
        if v != SENT[dt]:      # the sentinel itself is an excluded point (run separately)
            return v


SCALAR_TYPES = [(False, "i64"), (False, "f64"), (False, "b"), (False, "str"), (True, "i8"), (True, "i16"), (True, "i32"),
                (True, "i64"), (True, "u8"), (True, "u16"), (True, "u32"), (True, "u64"), (True, "f32"), (True, "f64"), (True, "b")]


def gen_shape(rng, nd, allow_zero):
    return tuple(rng.randint(0 if allow_zero and rng.random() < 0.15 else 1, 3) for _ in range(nd))


def gen_arraylike(rng, np_, dt, shape, form):
    n = int(np.prod(shape)) if shape else 1
    data = [gen_leaf(rng, dt) for _ in range(n)]
    pyish = dt in ("i64", "f64", "b", "str")
    if form == "nd" or not pyish or len(shape) not in (1, 2) or (len(shape) == 2 and 0 in shape):
        return ("a", dt, tuple(shape), data)
    tup = form == "tuple"
    if len(shape) == 1:
        return ("l", tup, dt, data)
    return ("m", tup, dt, [data[i * shape[1]:(i + 1) * shape[1]] for i in range(shape[0])])


def gen_case(rng):
    """one in-domain parameter: a single leaf dtype; form drawn from the strategy space"""
    np_, dt = rng.choice(SCALAR_TYPES)
    form = rng.choice(["scalar", "scalar", "fixed", "ragged", "ragged", "mixed", "dict", "nested", "tuples"])
    n = rng.randint(1, 6)
    none_p = rng.choice([0, 0, 0.2, 0.2, 0.5, 0.5, 0.8, 1.0])
    ents = []
    if form == "dict" and rng.random() < 0.5:
        # equal-length dicts with DIFFERENT keys (disjoint / one shared / permuted order), optionally an empty one:
        # the key attribute must be the union over ALL objects, not the keys of the first
        n = max(n, 2)
        k = rng.randint(1, 3)
        mode = rng.choice(["disjoint", "one-shared", "same-keys-other-order", "mixed"])
        pool = list(KEYS)
        rng.shuffle(pool)
        shared = pool[0]
        for i in range(n):
            if mode == "disjoint":
                ks = [pool[(i * k + j) % len(pool)] for j in range(k)]
            elif mode == "one-shared":
                ks = [shared] + [pool[1 + (i * (k - 1) + j) % (len(pool) - 1)] for j in range(k - 1)]
            elif mode == "same-keys-other-order":
                ks = pool[:k]
                ks = ks[i % k:] + ks[:i % k]
            else:
                ks = rng.sample(KEYS, k)
            ks = list(dict.fromkeys(ks))
            ents.append(("d", [(q, gen_leaf(rng, "f64") if rng.random() < 0.9 else float(rng.randint(-3, 3))) for q in ks]))
        if rng.random() < 0.25:
            ents[rng.randrange(len(ents))] = ("d", [])
        return ents
    if form == "dict":
        for _ in range(n):
            if rng.random() < none_p * 0.3:
                ents.append(("n",))
                continue
            ks = rng.sample(KEYS, rng.randint(0, 4))
            ents.append(("d", [(k, gen_leaf(rng, "f64")) for k in ks]))
        return ents
    nd = rng.choice([0, 1, 1, 2, 2, 3])
    fixed = gen_shape(rng, nd, False)
    container = rng.choice(["nd", "nd", "list", "list", "tuple"]) if form != "tuples" else "tuple"
    for _ in range(n):
        if rng.random() < none_p:
            ents.append(("n",))
        elif form == "scalar":
            ents.append(("s", np_, dt, gen_leaf(rng, dt)))
        elif form in ("fixed", "tuples"):
            sh = fixed if (form == "fixed" or rng.random() < 0.7) else gen_shape(rng, max(nd, 1), True)
            ents.append(gen_arraylike(rng, np_, dt, sh if (nd > 0 or form == "fixed") else (2,), container))
        elif form == "ragged":
            sh = gen_shape(rng, max(nd, 1) if rng.random() < 0.85 else rng.randint(1, 3), True)
            ents.append(gen_arraylike(rng, np_, dt, sh, rng.choice(["nd", container])))
        elif form == "mixed":
            if rng.random() < 0.4:
                ents.append(("s", np_, dt, gen_leaf(rng, dt)))
            else:
                ents.append(gen_arraylike(rng, np_, dt, gen_shape(rng, 1, True), rng.choice(["nd", "list"])))
        else:  # nested python lists, possibly ragged inside
            rows = [[gen_leaf(rng, dt) for _ in range(rng.randint(1, 3))] for _ in range(rng.randint(1, 3))]
            if rng.random() < 0.5:
                m = len(rows[0])
                rows = [r[:m] + [gen_leaf(rng, dt) for _ in range(m - len(r))] for r in rows]
            if dt in ("i64", "f64", "b", "str") and not (np_ and dt != "i64" and dt != "f64"):
                ents.append(("m", rng.random() < 0.2, dt, rows))
            else:
                ents.append(("a", dt, (len(rows[0]),), rows[0]))
    return ents


def _text_leaves(ents):
    for e in ents:
        if e[0] == "s" and isinstance(e[3], str):
            yield e[3]
        elif (e[0] == "a" and e[1] == "str") or (e[0] == "l" and e[2] == "str"):
            yield from (x for x in e[3] if isinstance(x, str))
        elif e[0] == "m" and e[2] == "str":
            yield from (x for r in e[3] for x in r if isinstance(x, str))
        elif e[0] == "d":
            yield from (k for k, _ in e[1])


def _exotic_text(x):
    return any(ord(ch) > 127 or ch == "\x00" for ch in x)


EXOTIC_STRS = ["é", "naïve", "日本", "Ω1", "a\u00a0b", "ab\x00", "a\x00b", "\x00", "tab\tx", "  lead", "trail  ", "x" * 300,
               "@/c1/VObj/p", "<!None!>", "", "nan", "None"]


def gen_text(rng):
    """string-valued parameters beyond plain ASCII words (oracle only): non-ASCII characters (h5py byte strings refuse
    them), NUL characters, leading / trailing blanks, long strings, strings that look like the attribute link marker or
    the None marker; as scalars, as fixed-shape arrays, as dict keys; with and without None"""
    form = rng.choice(["scalars", "scalars", "scalars+none", "arrays", "dictkeys", "np scalars"])
    pool = EXOTIC_STRS + STRS
    n = rng.randint(1, 5)
    if form == "dictkeys":
        out = []
        for _ in range(n):
            ks = rng.sample(pool, rng.randint(0, 3))
            out.append(("d", [(k, float(rng.randint(-4, 4)) + 0.5) for k in ks]))
        return out
    if form == "arrays":
        m = rng.randint(1, 3)
        return [("a", "str", (m,), [rng.choice(pool) for _ in range(m)]) for _ in range(n)]
    out = [("s", form == "np scalars", "str", rng.choice(pool)) for _ in range(n)]
    if form == "scalars+none":
        out.insert(rng.randrange(len(out) + 1), ("n",))
    return out


# --------------------------------------------------------------------------- numeric kinds drawn per object (C05-c)
NUM_KINDS = [(False, "b"), (False, "i64"), (True, "i8"), (True, "i32"), (True, "u8"), (True, "u16"), (True, "i64"),
             (False, "f64"), (True, "f32"), (True, "f64")]
FRACTIONS = [0.5, 1.5, 2.25, -0.75, 0.125, 3.0, -2.5, 7.875]


def _rank(dt):
    return 0 if dt == "b" else 2 if dt in ("f32", "f64") else 1


def kind_leaf(rng, dt):
    if dt == "b":
        return rng.random() < 0.5
    if dt in ("f32", "f64"):
        return rng.choice(FRACTIONS)          # exactly representable in float32 as well
    return rng.randint(0 if dt.startswith("u") else -9, 9)


def _kind_entry(rng, np_, dt, shape):
    """one object's value of numeric kind dt: python list (python kinds) or numpy array (numpy kinds) of that shape"""
    n = int(np.prod(shape)) if shape else 1
    vals = [kind_leaf(rng, dt) for _ in range(n)]
    if not shape:
        return ("s", np_, dt, vals[0])
    if np_ or len(shape) > 1:
        return ("a", dt, tuple(shape), vals)
    return ("l", False, dt, vals)


def gen_kinds(rng):
    """every container shape the packer accepts - scalars, fixed-shape, ragged (1-d, 2-d, with scalars, with None and
    empty entries), dict of numbers - with the NUMERIC KIND OF EACH OBJECT'S ENTRY DRAWN INDEPENDENTLY (bool, python int,
    numpy ints of several widths, python float, float32/64); mostly with the narrowest kind first (an integer-typed first
    entry, non-integral reals later), sometimes reversed or shuffled. Oracle only: values must read back numerically
    exact, shapes and None positions unchanged (the KIND may be promoted: listed finding mixed-kinds-promoted)."""
    form = rng.choice(["ragged", "ragged", "ragged+none", "fixed", "fixed2d", "ragged2d", "scalars", "scalar+ragged", "dict", "ragged+none"])
    n = rng.randint(2, 6)
    kinds = [rng.choice(NUM_KINDS) for _ in range(n)]
    if all(_rank(k[1]) == _rank(kinds[0][1]) for k in kinds):
        kinds[-1] = rng.choice([(False, "f64"), (True, "f32")]) if _rank(kinds[0][1]) < 2 else (False, "i64")
    x = rng.random()
    if x < 0.7:
        kinds.sort(key=lambda k: _rank(k[1]))                 # narrowest first
    elif x < 0.85:
        kinds.sort(key=lambda k: -_rank(k[1]))
    ents = []
    if form == "dict":
        keys = ["a", "b", "c"]
        for np_, dt in kinds:
            ks = rng.sample(keys, rng.randint(1, 3))
            ents.append(("d", [(k, kind_leaf(rng, dt)) for k in ks]))
        return ents
    m = rng.randint(1, 3)
    for i, (np_, dt) in enumerate(kinds):
        if form == "scalars":
            shape = ()
        elif form == "fixed":
            shape = (m,)
        elif form == "fixed2d":
            shape = (m, 2)
        elif form == "ragged2d":
            shape = (1 + (i + m) % 3, 2)
        elif form == "scalar+ragged":
            shape = () if rng.random() < 0.4 else (1 + (i + m) % 3,)
        else:
            shape = (1 + (i + m) % 4,)
        ents.append(_kind_entry(rng, np_, dt, shape))
    if form == "ragged+none":
        for _ in range(rng.randint(1, 2)):
            ents.insert(rng.randrange(0 if rng.random() < 0.3 else 1, len(ents) + 1), ("n",) if rng.random() < 0.7 else ("l", False, "i64", []))
    return ents


def _numeric(v):
    """value -> None (unset / empty) | ('dict', {key: number}) | (shape, [numbers])  for the numeric comparison"""
    if v is None:
        return None
    if isinstance(v, dict):
        return ("dict", {str(k): (None if _is_nan(x) else float(x)) for k, x in v.items() if not _is_nan(x)})
    a = np.asarray(v)
    if a.dtype.kind == "O":
        return ("object", repr(v))
    if a.size == 0:
        return None
    if a.size == 1 and a.dtype.kind == "f" and np.isnan(a.ravel()[0]):
        return None
    shape = tuple(a.shape)
    if shape in ((), (1,)):
        shape = ()                                # a scalar and a one-element array are the same value (JaggedArray)
    return (shape, [float(x) for x in a.ravel().tolist()])


def numeric_mismatch(values, back):
    """index of the first object whose read-back value is not NUMERICALLY the original (shape, positions of unset
    entries, every number exactly; NaN = NaN), None when all agree"""
    if len(values) != len(back):
        return 0
    for i, (o, b) in enumerate(zip(values, back)):
        x, y = _numeric(o), _numeric(b)
        if x is None or y is None:
            if x is not y:
                return i
            continue
        if x[0] != y[0]:
            return i
        if x[0] == "dict":
            if x[1] != y[1]:
                return i
            continue
        if len(x[1]) != len(y[1]) or any(not (p == q or (p != p and q != q)) for p, q in zip(x[1], y[1])):
            return i
    return None


DT_OF_NUMPY = {"bool": "b", "int8": "i8", "int16": "i16", "int32": "i32", "int64": "i64", "uint8": "u8", "uint16": "u16",
               "uint32": "u32", "uint64": "u64", "float32": "f32", "float64": "f64"}


def in_model_domain(ents):
    """one leaf dtype (python/numpy flavour irrelevant except for scalars), python containers only of python
    leaf kinds, dict only with dict/None, arrays well-formed"""
    dts = {(e[2] if e[0] in ("s", "l", "m") else e[1]) for e in ents if e[0] in ("s", "a", "l", "m")}
    if len(dts) > 1:
        return False
    if any(_exotic_text(x) for x in _text_leaves(ents)):
        return False            # non-ASCII / NUL characters: h5py's fixed-width byte strings are a parameter (oracle only)
    if any(e[0] == "d" for e in ents) and any(e[0] not in ("d", "n") for e in ents):
        return False
    for e in ents:
        if e[0] == "m" and len(e[3]) == 0:
            return False
        if e[0] == "m" and any(len(r) == 0 for r in e[3]):
            return False
        if e[0] == "d" and len({k for k, _ in e[1]}) != len(e[1]):
            return False
    return True


def gen_mixed(rng):
    """outside the modelled domain: several kinds / widths / forms in one parameter (oracle only)"""
    base = gen_case(rng)
    extra = gen_case(rng)
    k = rng.randint(1, max(1, len(extra)))
    out = base + extra[:k]
    rng.shuffle(out)
    return out[:7]


EXCLUDED_POINTS = [
    # (name, entries): inputs the theorems exclude by an explicit hypothesis, run on the real code for the record
    ("int64 value equal to the None sentinel", [("s", False, "i64", -2 ** 63 + 2), ("n",), ("s", False, "i64", 4)]),
    ("uint8 value equal to the None sentinel", [("s", True, "u8", 253), ("n",), ("s", True, "u8", 2)]),
    ("int/str mixture", [("s", False, "i64", 1), ("s", False, "str", "a"), ("s", False, "i64", 2)]),
    ("int/float mixture", [("s", False, "i64", 1), ("s", False, "f64", 2.5)]),
    ("int first, None, fractional float (truncated before fix 045c8d0)", [("s", False, "i64", 3), ("n",), ("s", False, "f64", 3.5)]),
    ("float first, None, int: kind change only", [("s", False, "f64", 3.5), ("n",), ("s", False, "i64", 3)]),
    ("two-level ragged python lists of different outer length (refused since fix 49d3d18)",
     [("m", False, "i64", [[1, 2], [3]]), ("m", False, "i64", [[4], [5, 6], [7]])]),
    ("numpy bool scalar among ragged arrays (refused since fix 8558ef4)", [("s", True, "b", True), ("l", False, "b", [True, False])]),
    ("str scalar among ragged arrays", [("s", False, "str", "a"), ("l", False, "str", ["b", "c"])]),
    ("str scalar next to an empty list (refused since fix 8558ef4)", [("n",), ("l", False, "str", []), ("s", False, "str", "x y"), ("n",)]),
    ("uint8 + None (F6a, fixed)", [("s", True, "u8", 5), ("n",), ("s", True, "u8", 2)]),
    ("numpy int scalar among ragged (F6b, fixed)", [("s", True, "i64", 3), ("l", False, "i64", [1, 2]), ("l", False, "i64", [4, 5, 6])]),
    ("bool + None", [("s", False, "b", True), ("n",)]),
    ("str + None", [("s", False, "str", "a"), ("n",), ("s", False, "str", "bcd")]),
    ("dict + None", [("d", [("a", 1.0)]), ("n",)]),
    ("dict among ragged lists (refused since fix 8558ef4)", [("d", [("a", 1.0)]), ("l", False, "f64", [1.0, 2.0]), ("l", False, "f64", [3.0])]),
    ("dict with NaN value", [("d", [("a", 1.0), ("b", float("nan"))]), ("d", [("a", 2.0)])]),
    ("empty among ragged", [("l", False, "i64", [1, 2]), ("l", False, "i64", []), ("l", False, "i64", [3])]),
    ("float NaN + None", [("s", False, "f64", 1.0), ("s", False, "f64", float("nan")), ("n",)]),
    ("float32 + None", [("s", True, "f32", 1.5), ("n",)]),
    ("str ending in a NUL character", [("s", False, "str", "ab\x00"), ("s", False, "str", "c")]),
    ("dict key ending in a NUL character", [("d", [("a\x00", 1.0)]), ("d", [("b", 2.0)])]),
]


# --------------------------------------------------------------------------- flags
def mk_flag_class(names, explicit=None):
    from armi.utils.flags import Flag, auto

    attrs = {n: auto() for n in names}
    if explicit:
        attrs.update(explicit)
    return type("VF", (Flag,), attrs)


def mk_flag_class_mixed(rng, names):
    """a class whose REGISTRATION order differs from its BIT order: some fields get explicit powers of two
    (declared before or after auto() fields); the autos fill the remaining low powers, so the value set is
    still {2^0..2^(n-1)} (the invariant `Canon`), but `_nameToValue` order is not value order"""
    from armi.utils.flags import Flag, auto

    n = len(names)
    k = rng.randint(1, max(1, n // 2))
    powers = rng.sample(range(n), k)
    chosen = rng.sample(names, k)
    attrs = {}
    for nm in names:
        attrs[nm] = (1 << powers[chosen.index(nm)]) if nm in chosen else auto()
    return type("VF", (Flag,), attrs)


def flag_fields_wire(cls):
    return "[" + ",".join(f"[{k.encode().hex()},{v}]" for k, v in cls._nameToValue.items()) + "]"


def run_flags(ctx, h5file):
    from armi.bookkeeping.db.database import Database
    from armi.reactor.composites import FlagSerializer

    rng = ctx.rng
    req, impl, cases = [], [], []
    ntrial = ctx.pick(250, 2500)
    for trial in range(ntrial):
        n = rng.choice([1, 2, 7, 8, 9, 15, 16, 17, 24, 33, 40, 64, 65]) if rng.random() < 0.5 else rng.randint(1, 40)
        names = [f"F{i}" for i in range(n)]
        if rng.random() < 0.3:
            rng.shuffle(names)
        wmixed = rng.random() < 0.4
        W = mk_flag_class_mixed(rng, names) if wmixed else mk_flag_class(names)
        vals = [rng.getrandbits(n) if rng.random() < 0.85 else rng.choice([0, (1 << n) - 1, 1 << (n - 1)])
                for _ in range(rng.randint(1, 5))]
        rnames = list(names)
        mode = rng.choice(["same", "reorder", "extend", "reorder+extend", "missing", "prefix", "reader-knows-a-prefix"])
        if "reorder" in mode:
            rng.shuffle(rnames)
        if "extend" in mode:
            extra = [f"X{i}" for i in range(rng.randint(1, 10))]
            pos = rng.randint(0, len(rnames))
            rnames = rnames[:pos] + extra + rnames[pos:]
        if mode == "prefix":
            rnames = rnames + [f"X{i}" for i in range(rng.randint(1, 9))]
        if mode == "reader-knows-a-prefix" and n >= 3 and not wmixed and names == sorted(names, key=lambda x: int(x[1:])):
            # the file's flag order = the reader's flags followed by SEVERAL flags the reader does not define (plugin
            # flags registered after the framework's): they are added to the reader and must keep their meaning
            rnames = names[: rng.randint(1, n - 2)]
            vals = [v | (1 << (n - 1)) | (1 << rng.randrange(len(rnames), n)) for v in vals]
            ctx.count("flags: reader knows a strict prefix of the writer's flags (>= 2 unknown flags after them)")
        if mode == "missing":
            rng.shuffle(rnames)
            rnames = [x for x in rnames if rng.random() > 0.3] + ["X0"]
        rmixed = rng.random() < 0.4
        if mode == "extend" and rng.random() < 0.5:
            # the reader class is built small and then grown by Flag.extend(): explicit next power first, then autos
            from armi.utils.flags import auto
            cut = rng.randint(1, len(rnames))
            R = mk_flag_class_mixed(rng, rnames[:cut]) if rmixed else mk_flag_class(rnames[:cut])
            rest = rnames[cut:]
            if rest:
                free = 1
                while free in R._valuesTaken:
                    free *= 2
                ext = {rest[0]: free}
                ext.update({x: auto() for x in rest[1:]})
                R.extend(ext)
            mode = "extend-call"
        else:
            R = mk_flag_class_mixed(rng, rnames) if rmixed else mk_flag_class(rnames)
        wire_r, auto_r = flag_fields_wire(R), R._autoAt
        data = [W(v) for v in vals]
        line = f"flags {flag_fields_wire(W)} {W._autoAt} {wire_r} {auto_r} [{','.join(map(str, vals))}]"
        case = {"writer": dict(W._nameToValue), "reader": dict(R._nameToValue), "values": [str(v) for v in vals], "mode": mode}
        if wmixed or rmixed:
            ctx.count("flags: registration order differs from bit order (explicit powers of two mixed with auto())")
        try:
            packed, attrs = FlagSerializer._packImpl(data, W)
            g = h5file.create_group(f"flags{trial}")
            ds = g.create_dataset("flags", data=packed, compression="gzip")
            Database._writeAttrs(ds, g, attrs)
            data2 = ds[:]
            attrs2 = Database._resolveAttrs(ds.attrs, g)
            with common.quiet():
                out = FlagSerializer._unpackImpl(data2, FlagSerializer.version, attrs2, R)
        except Exception as e:  # noqa: BLE001
            ctx.fail("flags-roundtrip-raises", "flag sets written by a class read back through an extended/reordered class",
                     case, observed=f"{type(e).__name__}: {e}"[:200])
            req.append(line); impl.append("raised"); cases.append(case)
            continue
        rows = "[" + ",".join("[" + ",".join(str(int(b)) for b in row) + "]" for row in packed) + "]"
        order = "[" + ",".join(str(s).encode().hex() for s in attrs2["flag_order"]) + "]"
        on = "[" + ",".join("[" + ",".join(sorted(k.encode().hex() for k in o._flagsOn())) + "]" for o in out) + "]"
        req.append(line); cases.append(case)
        impl.append(f"{rows} {order} {len(R._nameToValue)} {on}")
        # oracle: meaning preserved, nothing else switched on
        for d, o in zip(data, out):
            if d._flagsOn() != o._flagsOn():
                ctx.fail("flags-meaning-changed", "a flag set keeps its meaning under extension / reordering of the flag class",
                         case, observed=sorted(o._flagsOn()), expected=sorted(d._flagsOn()))
        if not set(names) <= set(R._nameToValue):
            ctx.fail("flags-missing-not-added", "flags unknown to the reader are added to it", case)
        ctx.case(("flags", n, mode, tuple(vals)), nontrivial=True,
                 sample={"flags": case, "on": [sorted(o._flagsOn())[:5] for o in out]} if trial == 3 else None)
        ctx.count(f"flags reader mode: {mode}")
        # bytes codec on its own (all widths)
        w = W.width()
        for v in vals[:2]:
            b = W(v).to_bytes()
            req.append(f"tobytes {v} {w}"); impl.append("[" + ",".join(str(x) for x in b) + "]"); cases.append(("tobytes", str(v), w))
            if int(W.from_bytes(b)) != v or len(b) != w:
                ctx.fail("flags-bytes-roundtrip", "from_bytes(to_bytes(f)) == f with width ceil(nfields/8)",
                         {"value": str(v), "nfields": n}, observed=[int(W.from_bytes(b)), len(b)])
            req.append(f"frombytes [{','.join(str(x) for x in b)}]"); impl.append(str(int(W.from_bytes(b)))); cases.append(("frombytes", str(v)))
        # _remapBits on a random injective mapping
        m = list(range(n + rng.randint(0, 5)))
        rng.shuffle(m)
        mp = {i: m[i] for i in range(n)}
        v = vals[0]
        got = FlagSerializer._remapBits(v, mp)
        req.append(f"remap {v} [{','.join(str(mp[i]) for i in range(n))}]"); impl.append(str(got)); cases.append(("remap", str(v), n))
        for i in range(n):
            if bool(got >> mp[i] & 1) != bool(v >> i & 1):
                ctx.fail("flags-remap-bits", "bit m(i) of the remapped field equals bit i of the input", {"v": str(v), "map": mp})
                break
        if bin(got).count("1") != bin(v).count("1"):
            ctx.fail("flags-remap-bits", "no extra bits are set by the remap", {"v": str(v), "map": mp})
    # overflow: a value with a bit beyond the defined fields cannot be packed
    W = mk_flag_class(["A", "B", "C"])
    for v, w in ((255, 1), (256, 1), (65535, 2), (65536, 2), (0, 0), (1, 0)):
        try:
            b = int(v).to_bytes(w, "little")
            s = "[" + ",".join(str(x) for x in b) + "]"
        except OverflowError:
            s = "reject"
        req.append(f"tobytes {v} {w}"); impl.append(s); cases.append(("tobytes", v, w))
    # excluded point: explicit, non-consecutive integer values (field k of the sorted list is not 2^k)
    try:
        W = mk_flag_class(["A"], {"B": 4})
        R = mk_flag_class(["B", "A"])
        packed, attrs = FlagSerializer._packImpl([W(4), W(5)], W)
        with common.quiet():
            out = FlagSerializer._unpackImpl(packed, "1", attrs, R)
        ok = [sorted(o._flagsOn()) for o in out] == [["B"], ["A", "B"]]
        ctx.count("excluded point: explicit non-consecutive flag values " + ("kept their meaning" if ok else "changed meaning"))
        if not ok:
            ctx.fail("flags-explicit-nonconsecutive-values", "flag sets keep their meaning under reordering",
                     {"writer": {"A": 1, "B": 4}, "reader": ["B", "A"], "values": [4, 5]}, observed=[sorted(o._flagsOn()) for o in out])
    except Exception as e:  # noqa: BLE001
        ctx.count("excluded point: explicit non-consecutive flag values raise on read")
        ctx.fail("flags-explicit-nonconsecutive-values", "flag sets keep their meaning under reordering",
                 {"writer": {"A": 1, "B": 4}, "reader": ["B", "A"], "values": [4, 5]}, observed=f"{type(e).__name__}: {e}"[:160])
    model = lean_run("Pack", req)
    ctx.compare("Model/Pack.lean flags vs FlagSerializer/Flag", cases, model, impl)
    ctx.evaluations += len(req)
    ctx.samples.append({"request": req[0][:300], "model": model[0][:300], "impl": impl[0][:300]})


# --------------------------------------------------------------------------- packSpecialData called directly
def run_direct_pack(ctx, h5file):
    """fixed-shape arrays with None between them, every integer width and float64: this goes through the
    array branch of replaceNonesWithNonsense / the `ndim > 1` branch of replaceNonsenseWithNones, which
    _writeParams itself never reaches (it sends array+None lists to JaggedArray). Oracle only."""
    from armi.bookkeeping.db import database as dbm

    rng = ctx.rng
    n_ok = 0
    req, impl, cases = [], [], []
    for dt in ["i8", "i16", "i32", "i64", "u8", "u16", "u32", "u64", "f64", "f32", "b"]:
        for trial in range(ctx.pick(6, 60)):
            shape = rng.choice([(2,), (3,), (2, 2), (1, 3), (2, 1, 2)])
            n = rng.randint(2, 5)
            nones = set(rng.sample(range(n), rng.randint(1, n - 1)))
            size = int(np.prod(shape))
            vals = [None if i in nones else [gen_leaf(rng, dt) for _ in range(size)] for i in range(n)]
            as_list = dt == "i64" and len(shape) == 1 and rng.random() < 0.4
            obj = np.empty(n, dtype=object)
            for i, v in enumerate(vals):
                if v is not None:
                    obj[i] = list(v) if as_list else noncontig(np.array(v, dtype=NPT[dt]).reshape(shape), i + trial)
            case = {"direct": True, "dtype": dt, "shape": list(shape), "values": json.loads(json.dumps(vals)), "list": as_list}
            req.append(f"directarr {dt} {size} [" + ",".join("N" if v is None else "[" + ",".join(sv_wire(dt, x) for x in v) + "]"
                                                           for v in vals) + "]")
            cases.append(case)
            try:
                data, attrs = dbm.packSpecialData(obj, "p")
                g = h5file.create_group(f"direct_{dt}_{trial}")
                ds = g.create_dataset("p", data=data, compression="gzip")
                dbm.Database._writeAttrs(ds, g, attrs)
            except Exception:  # noqa: BLE001
                ctx.count(f"direct packSpecialData: rejected at write time ({dt})")
                ctx.case(("direct", dt, trial, "reject"), nontrivial=True)
                impl.append("reject")
                continue
            f = _direct_oracle(ds, g, vals, case, dt)
            impl.append(_direct_impl_line(ds, g))
            ctx.case(("direct", dt, trial, json.dumps(case["values"])), nontrivial=True)
            if f is not None:
                report(ctx, f.key, f.clause, f.case, f.observed, f.expected)
            else:
                n_ok += 1
    ctx.count("direct packSpecialData array+None round trips held", n_ok)
    model = lean_run("Pack", req)
    ctx.compare("Model/Pack.lean replaceNonesArr/readRowArr vs packSpecialData/unpackSpecialData (arrays + None)", cases, model, impl)
    ctx.evaluations += len(req)


def _direct_impl_line(ds, g):
    from armi.bookkeeping.db import database as dbm

    try:
        back = dbm.unpackSpecialData(ds[:], dbm.Database._resolveAttrs(ds.attrs, g), "p")
    except Exception:  # noqa: BLE001
        return "readfail"
    out = []
    for b in back:
        if b is None:
            out.append("N")
        elif getattr(b, "dtype", None) is not None and b.dtype.kind == "O":
            out.append("[p,[" + ",".join("N" if x is None else sv_canon(x) for x in b.ravel()) + "]]")
        else:
            out.append("[" + ",".join(sv_canon(x) for x in np.asarray(b).ravel().tolist()) + "]")
    return "[" + ",".join(out) + "]"


def _direct_oracle(ds, g, vals, case, dt):
    from armi.bookkeeping.db import database as dbm

    try:
        data2 = ds[:]
        attrs2 = dbm.Database._resolveAttrs(ds.attrs, g)
        back = dbm.unpackSpecialData(data2, attrs2, "p")
    except Exception as e:  # noqa: BLE001
        return Failure("array-sentinel-unreadable", "accepted at write time => readable", case, observed=f"{type(e).__name__}: {e}"[:160])
    if len(back) != len(vals):
        return Failure("array-sentinel-roundtrip", "one value per object", case, observed=len(back), expected=len(vals))
    for i, (o, b) in enumerate(zip(vals, back)):
        if o is None:
            if b is not None:
                return Failure("array-sentinel-roundtrip", "an unset entry reads back unset", case,
                               observed={"index": i, "read": repr(b)[:120]}, expected=None)
            continue
        if b is None:
            if all(_is_nan(x) for x in o):
                continue        # an all-NaN real array is the unset marker itself
            return Failure("array-sentinel-roundtrip", "a genuine value does not become None", case,
                           observed={"index": i, "read": None}, expected=o)
        bl = list(np.asarray(b, dtype=object).ravel())
        if len(bl) != len(o):
            return Failure("array-sentinel-roundtrip", "same shape", case, observed={"index": i, "read": repr(b)[:120]}, expected=o)
        for x, y in zip(o, bl):
            if _is_nan(x):
                ok = y is None or _is_nan(y)
            else:
                ok = y is not None and kind_of(y) == kind_of(x) and _leaf(y) == _leaf(x)
            if not ok:
                return Failure("array-sentinel-roundtrip", "same values, numeric kind and None positions", case,
                               observed={"index": i, "read": repr(b)[:120]}, expected=o)
        if tuple(np.shape(b)) != tuple(case["shape"]):
            return Failure("array-sentinel-roundtrip", "same shape", case, observed=list(np.shape(b)), expected=case["shape"])
    return None


# --------------------------------------------------------------------------- replaceNonesWithNonsense on its own
def _obj_array(vals):
    a = np.empty(len(vals), dtype=object)
    for i, x in enumerate(vals):
        a[i] = x
    return a


def _replace_line(vals):
    from armi.bookkeeping.db.layout import replaceNonesWithNonsense

    try:
        r = replaceNonesWithNonsense(_obj_array(vals), "p")
    except Exception as e:  # noqa: BLE001
        return "reject", type(e).__name__
    k = r.dtype.kind
    name = "str" if k == "U" else "b" if k == "b" else f"{k}{r.dtype.itemsize * 8}"
    return "ok " + name + " [" + ",".join(sv_canon(x) for x in r.tolist()) + "]", ""


# directed columns with a None whose value types differ (outside the one-dtype model): what the code does with them,
# at the level of replaceNonesWithNonsense and through _writeParams/_readParams. The expected column is the behaviour
# of the tree this check was written against; a change in EITHER direction (accept <-> refuse, other dtype, other
# values) is reported as a broken correspondence and then judged by the oracle (a refusal is allowed by the property,
# a changed value is not).
def _directed_table():
    i8, u8, f32, i32, u64 = np.int8, np.uint8, np.float32, np.int32, np.uint64
    S64, NaN = "i-9223372036854775806", "fnan"
    return [
        (["a", None, "bc"], "ok str [s61,s3c214e6f6e65213e,s6263]", "reject"),
        ([f32(1.5), None], "reject", "reject"),
        ([i8(3), None, i8(-5)], "ok i8 [i3,i-126,i-5]", "ok sentinel [[s,i,i3],N,[s,i,i-5]]"),
        ([u8(3), None, u8(200)], "ok u8 [i3,i253,i200]", "ok sentinel [[s,i,i3],N,[s,i,i200]]"),
        ([True, None, False], "reject", "reject"),
        ([np.bool_(True), None], "reject", "reject"),
        ([3, None, True], f"ok i64 [i3,{S64},i1]", "ok sentinel [[s,i,i3],N,[s,i,i1]]"),
        ([3, None, "a"], "reject", "reject"),
        ([3, None, 3.5], f"ok f64 [f{fcode(3.0)},{NaN},f{fcode(3.5)}]", f"ok sentinel [[s,f,f{fcode(3.0)}],N,[s,f,f{fcode(3.5)}]]"),
        ([3.5, None, 3], f"ok f64 [f{fcode(3.5)},{NaN},f{fcode(3.0)}]", f"ok sentinel [[s,f,f{fcode(3.5)}],N,[s,f,f{fcode(3.0)}]]"),
        ([i32(3), None, 7], f"ok i64 [i3,{S64},i7]", "ok sentinel [[s,i,i3],N,[s,i,i7]]"),
        ([0, None, 0.96875], f"ok f64 [f{fcode(0.0)},{NaN},f{fcode(0.96875)}]", f"ok sentinel [[s,f,f{fcode(0.0)}],N,[s,f,f{fcode(0.96875)}]]"),
        ([None, None], f"ok f64 [{NaN},{NaN}]", "skip"),
    ]


def run_replace_nones(ctx, h5file):
    """(a) the model's `replaceNones` vs the real replaceNonesWithNonsense for one-type scalar columns with Nones (every
    scalar type, incl. the ones it refuses); (b) the directed mixed-type table, directly and through _writeParams"""
    rng = ctx.rng
    req, impl, cases = [], [], []
    for np_, dt in SCALAR_TYPES:
        for trial in range(ctx.pick(6, 40)):
            n = rng.randint(1, 5)
            ents = [("n",) if rng.random() < 0.4 else ("s", np_, dt, gen_leaf(rng, dt)) for _ in range(n)]
            if trial == 0:
                ents = [("s", np_, dt, gen_leaf(rng, dt)), ("n",)]
            if trial == 1:
                ents = [("n",), ("n",)]
            vals = [to_py(e) for e in ents]
            line, _ = _replace_line(vals)
            req.append("replnones " + wire(ents)); impl.append(line); cases.append({"entries": entries_json(ents), "op": "replnones"})
            ctx.case(("replnones", wire(ents)), nontrivial=True)
            ctx.count("replaceNonesWithNonsense (one type): " + line.split(" ")[0])
    model = lean_run("Pack", req)
    ctx.compare("Model/Pack.lean replaceNones vs layout.replaceNonesWithNonsense", cases, model, impl)
    ctx.evaluations += len(req)
    stack = Stack()
    sub = h5file.require_group("directed_columns")
    for vals, exp_direct, exp_write in _directed_table():
        got_direct, _ = _replace_line(vals)
        res = stack.roundtrip(sub, list(vals))
        got_write = impl_line(res)
        if got_write.startswith("ok "):
            got_write = "ok " + got_write.split(" ")[1].split(":")[0] + " " + got_write.split(" ", 2)[2]
        case = {"directed": repr(vals)}
        if got_direct != exp_direct:
            ctx.disagree("directed behaviour table vs replaceNonesWithNonsense", case, exp_direct, got_direct)
        if got_write != exp_write:
            ctx.disagree("directed behaviour table vs _writeParams/_readParams", case, exp_write, got_write)
        # oracle, independent of the table: accepted => every value numerically equal, None exactly where it was
        if res[0] == "ok":
            for o, b in zip(vals, res[2]):
                ok = (b is None) if o is None else (b is not None and not isinstance(b, (list, np.ndarray, dict))
                                                    and (str(b) == str(o) if isinstance(o, str) else float(b) == float(o)))
                if not ok:
                    ctx.fail("value-changed-in-mixed-column-with-none",
                             "accepted => same values and unset positions (kind promotion aside)", {"directed": repr(vals)},
                             observed=repr(res[2])[:200], expected=repr(vals)[:200])
                    break
        ctx.case(("directed", repr(vals)), nontrivial=True)
        ctx.count("directed mixed-type columns with None: " + got_write.split(" ")[0])


# --------------------------------------------------------------------------- numpy layer validation
def run_numpy_layer(ctx):
    req, impl, cases = [], [], []
    one = {"b": True, "str": "a"}
    for a in DTS:
        for b in DTS:
            xa = NPT[a](one.get(a, 1)) if a != "str" else "a"
            xb = NPT[b](one.get(b, 1)) if b != "str" else "a"
            d = np.array([xa, xb]).dtype
            k = {"b": "b", "i": "i", "u": "i", "f": "f", "U": "s"}[d.kind]
            bits = 0 if k == "s" else d.itemsize * 8
            req.append(f"promote {a} {b}"); impl.append(f"{k}{bits}"); cases.append(("promote", a, b))
            # the jagged path promotes a list of numpy scalars the same way
            d2 = np.array([np.array([xa])[0], np.array([xb])[0]]).dtype
            if d2 != d:
                ctx.disagree("numpy promotion of scalars vs arrays", ("promote", a, b), str(d), str(d2))
    # read-side sentinel test against np.iinfo
    for dt in DTS:
        if dt in INT_RANGE:
            info = np.iinfo(NPT[dt])
            for v in (info.min, info.min + 2, info.max - 2, info.max, 0, SENT[dt]):
                from armi.bookkeeping.db.layout import replaceNonsenseWithNones
                r = replaceNonsenseWithNones(np.array([v, 1], dtype=NPT[dt]), "p")
                req.append(f"readisnone {dt} i{v}"); impl.append("T" if r[0] is None else "F"); cases.append(("readisnone", dt, v))
    model = lean_run("Pack", req)
    ctx.compare("Model/Pack.lean promote/readIsNone vs numpy/layout", cases, model, impl)
    ctx.evaluations += len(req)
    ctx.count("numpy promotion pairs (exhaustive over modelled dtypes)", len(DTS) ** 2)


# --------------------------------------------------------------------------- main
def run_values(ctx, h5file):
    rng = ctx.rng
    stack = Stack()
    n_in = ctx.pick(3500, 40000)
    n_mixed = ctx.pick(600, 8000)
    req, impl, cases = [], [], []
    corpus = [ents for _, ents in EXCLUDED_POINTS]
    # exhaustive: every list of length <= 3 over a 9-element alphabet of int64 values of all forms
    alphabet = [("n",), ("s", False, "i64", 3), ("s", True, "i64", -7), ("l", False, "i64", [1, 2]), ("l", False, "i64", []),
                ("a", "i64", (2, 2), [1, 2, 3, 4]), ("a", "i64", (1,), [5]), ("l", True, "i64", [8, 9]),
                ("m", False, "i64", [[1], [2, 3]])]
    for k in (1, 2, 3):
        for combo in itertools.product(alphabet, repeat=k):
            corpus.append(list(combo))
    ctx.count("exhaustive lists of length <= 3 over the 9-element alphabet", len(corpus) - len(EXCLUDED_POINTS))
    # exhaustive: every list of length <= 3 over a 6-element alphabet of dicts (same length / different keys,
    # shared key, other key order, differing lengths, empty)
    dicts = [("d", [("a", 1.0)]), ("d", [("b", 2.0)]), ("d", [("a", 3.0), ("b", 4.0)]), ("d", [("b", 5.0), ("a", 6.0)]),
             ("d", []), ("d", [("c", 7.0), ("a", 8.5)])]
    n0 = len(corpus)
    for k in (1, 2, 3):
        for combo in itertools.product(dicts, repeat=k):
            corpus.append(list(combo))
    ctx.count("exhaustive dict lists of length <= 3 over the 6-element dict alphabet", len(corpus) - n0)
    for i in range(n_in + len(corpus)):
        ents = corpus[i] if i < len(corpus) else gen_case(rng)
        if not ents:
            continue
        values = [to_py(e) for e in ents]
        res = stack.roundtrip(h5file, values)
        stream = "excluded-point" if i < len(corpus) else "in-domain"
        f = oracle(ctx, ents, values, res, stream)
        if f is not None:
            report(ctx, f.key, f.clause, f.case, f.observed, f.expected)
        if in_model_domain(ents):
            w = wire(ents)
            req.append("write " + w); impl.append(impl_line(res)); cases.append({"entries": entries_json(ents)})
            ctx.case(w, nontrivial=len(ents) > 0, sample={"entries": w[:200], "impl": impl[-1][:200]} if i in (20, 21) else None)
        else:
            ctx.case(wire(ents), nontrivial=True)
    for i in range(n_mixed):
        ents = gen_mixed(rng)
        values = [to_py(e) for e in ents]
        res = stack.roundtrip(h5file, values)
        if res[0] == "ok" and not any("str" in (e[1:3]) for e in ents if e[0] in ("s", "a", "l", "m")):
            try:
                bad = numeric_mismatch(values, res[2])
            except (TypeError, ValueError):
                bad = None
            if bad is not None and _classify_failure(ents) == "mixed-kinds-promoted":
                # the listed finding is a change of KIND; a changed NUMBER (beyond int -> nearest double) is not
                report(ctx, "value-changed-in-mixed-kind-column", "accepted => same values (a promoted numeric kind is the listed "
                       "finding; the number must be the one that was stored), shapes and unset positions", {"entries": entries_json(ents)},
                       observed={"index": bad, "read": repr(res[2][bad])[:200]}, expected=repr(values[bad])[:200])
                ctx.case(wire(ents), nontrivial=True)
                continue
        f = oracle(ctx, ents, values, res, "mixed (oracle only)")
        if f is not None:
            report(ctx, f.key, f.clause, f.case, f.observed, f.expected)
        ctx.case(wire(ents), nontrivial=True)
    # C05-c: numeric kind of each object's entry drawn independently, narrowest first; numerically exact read-back, and
    # (correspondence) the dtype of the stored dataset = the model's promotion of the entries' dtypes
    kreq, kimpl, kcases = [], [], []
    directed = [
        [("l", False, "i64", [1, 2, 3]), ("l", False, "f64", [0.5, 1.5]), ("n",), ("l", False, "f64", [2.25])],
        [("l", False, "f64", [0.5, 1.5]), ("l", False, "i64", [1, 2, 3]), ("n",)],
        [("s", False, "i64", 3), ("l", False, "f64", [0.5, 1.5])],
        [("l", False, "b", [True, False]), ("l", False, "i64", [4]), ("l", False, "f64", [2.5, 0.5, 1.5])],
        [("a", "i64", (1, 2), [1, 2]), ("a", "f64", (2, 2), [0.5, 1.5, 2.25, -0.75]), ("n",)],
        [("a", "i8", (2,), [1, 2]), ("a", "f32", (3,), [0.5, 1.5, 2.25])],
        [("l", False, "i64", [1, 2]), ("l", False, "f64", [0.5, 1.5])],                       # fixed shape, int first
        [("d", [("a", 1), ("b", 2)]), ("d", [("a", 0.5)])],
        # kept directed cases: a transposed / Fortran-ordered 2-d entry in the jagged path (layout derived from the entry)
        [("a", "f64", (2, 3), [1.0, 2.0, 3.0, 4.0, 5.0, 6.0]), ("a", "f64", (3, 2), [1.5, 2.5, 3.5, 4.5, 5.5, 6.5]), ("n",)],
        [("a", "i64", (3, 2), [1, 2, 3, 4, 5, 6]), ("a", "i64", (2, 2), [7, 8, 9, 10])],
    ]
    for i in range(ctx.pick(700, 8000) + len(directed)):
        ents = directed[i] if i < len(directed) else gen_kinds(rng)
        if not ents:
            continue
        values = [to_py(e) for e in ents]
        res = stack.roundtrip(h5file, values)
        case = {"entries": entries_json(ents)}
        if res[0] == "ok":
            bad = numeric_mismatch(values, res[2])
            if bad is not None:
                report(ctx, "value-changed-in-mixed-kind-column", "accepted => same values (a promoted numeric KIND is the listed "
                       "finding; the NUMBER must be the one that was stored), shapes and unset positions", case,
                       observed={"index": bad, "read": repr(res[2][bad])[:200]}, expected=repr(values[bad])[:200])
                ctx.case(("kinds", repr(ents)), nontrivial=True)
                continue
        f = oracle(ctx, ents, values, res, "numeric kind per object (oracle only)")
        if f is not None:
            # accepted and numerically exact (checked above): what differs is the numeric KIND only (ints next to reals, ints
            # in a dict whose missing keys are NaN-filled) - the listed promotion finding
            key = "mixed-kinds-promoted" if res[0] == "ok" else f.key
            report(ctx, key, f.clause, f.case, f.observed, f.expected)
        ctx.case(("kinds", repr(ents)), nontrivial=True)
        # dtype of the stored dataset vs the model (writeParam on the same entries): jagged and plain strategies
        if res[0] == "ok" and res[1] and res[1].split(":")[0] in ("jagged", "plain") and not any(e[0] == "d" for e in ents):
            kreq.append("storeddt " + wire(ents))
            kimpl.append(DT_OF_NUMPY.get(str(stack.last_dtype), str(stack.last_dtype)))
            kcases.append(case)
    if kreq:
        kmodel = lean_run("Pack", kreq)
        ctx.compare("Model/Pack.lean dtype of the stored dataset (promoteAll) vs the real dataset", kcases, kmodel, kimpl)
        ctx.count("stored-dtype correspondence cases (numeric kind per object)", len(kreq))
    for i in range(ctx.pick(400, 5000)):
        ents = gen_text(rng)
        if not ents:
            continue
        values = [to_py(e) for e in ents]
        res = stack.roundtrip(h5file, values)
        f = oracle(ctx, ents, values, res, "text (oracle only)")
        if f is not None:
            report(ctx, f.key, f.clause, f.case, f.observed, f.expected)
        ctx.case(("text", repr(ents)), nontrivial=True)
    # the hypotheses of the main theorem (write_read_decided: domainOf, noSentinelB) evaluated BY THE MODEL on every value
    # list of the correspondence stream, in the same driver process
    both = lean_run("Pack", req + ["domain " + q.split(" ", 1)[1] for q in req])
    model, dom = both[: len(req)], both[len(req):]
    nd = ctx.compare("Model/Pack.lean writeParam/readParam vs Database._writeParams/_readParams", cases, model, impl)
    for m, dm, im in zip(model, dom, impl):
        hyp = "dict list (dict_roundtrip)" if dm == "dict" else "outside (mixed scalar flavours / dtypes)" if dm == "out" else \
            ("EntryWF + NoSentinel hold" if dm.endswith(" T") else "EntryWF holds, a value equals the None sentinel next to a None")
        ctx.count(f"main theorem hypotheses: {hyp}; real outcome {im.split(' ')[0]}")
        if dm.startswith("wf") and m == "ood":
            raise common.Infra("in_domain_decided contradicted by the executable model (driver bug)")
        if dm.startswith("wf") and dm.endswith(" T") and im.startswith("ok"):
            ctx.count("value lists accepted by the real writer under the hypotheses of write_read_decided")
    for m in model:
        ctx.count("model outcome: " + m.split(" ")[0] + (" " + m.split(" ")[1].split(":")[0] if m.startswith(("ok", "readfail")) else ""))
    if any(m == "ood" for m in model):
        raise common.Infra("the generator produced a case outside the model's domain (harness bug)")
    ctx.evaluations += 0
    if model:
        ctx.samples.append({"request": req[-1][:300], "model": model[-1][:300], "impl": impl[-1][:300]})
    return nd


@contextlib.contextmanager
def silence():
    """armi's runLog writes rejected writes to the original stdout; the check's output must stay clean"""
    prev = logging.root.manager.disable
    logging.disable(logging.CRITICAL)
    try:
        yield
    finally:
        logging.disable(prev)


def run(ctx):
    import h5py

    run_numpy_layer(ctx)
    with common.scratch_dir() as d, silence():
        with h5py.File(os.path.join(d, "c05.h5"), "w") as f:
            run_values(ctx, f)
            run_direct_pack(ctx, f)
            run_replace_nones(ctx, f)
            run_flags(ctx, f)
    ctx.rule = ("type-directed generated per-object value lists (one leaf dtype per parameter in the correspondence "
                "stream: 15 python/numpy scalar types; forms scalar / fixed-shape 0-d..3-d / ragged / scalar+array / "
                "nested python lists / tuples / dict; None density 0..100 %; extremes, NaN, inf, empty strings, key "
                "overlaps) through the real _writeParams -> HDF5 file -> _readParams; a mixed-kind stream judged by the "
                "oracle only; flag sets over generated writer/reader Flag classes (same / reordered / extended / missing "
                "/ prefix) through _packImpl -> HDF5 -> _unpackImpl; numpy promotion table exhaustively. distinct = "
                "distinct wire forms of the value lists / flag cases")


# --------------------------------------------------------------------------- search / replay
def _oracle_on(entries):
    import h5py

    class _C:  # minimal ctx for oracle()
        def count(self, *a, **k):
            pass

    with common.scratch_dir() as d, silence():
        with h5py.File(os.path.join(d, "s.h5"), "w") as f:
            st = Stack()
            values = [to_py(e) for e in entries]
            res = st.roundtrip(f, values)
            return oracle(_C(), entries, values, res, "search")


def search(ctx, disagreements, broken):
    """look for an input on which the real code stores something that reads back different:
    the disagreeing cases themselves, their sub-lists and None-placements; for a broken table
    obligation every dtype with a None in each position."""
    import h5py

    out = []
    cands = []
    for d in disagreements:
        c = d.case
        if isinstance(c, dict) and "entries" in c:
            ents = entries_from_json(c["entries"])
            cands.append(ents)
            for i in range(len(ents)):
                cands.append(ents[:i] + ents[i + 1:])
                cands.append(ents[:i] + [("n",)] + ents[i + 1:])
        elif isinstance(c, dict) and "writer" in c:
            continue
    # systematic neighbourhood: every scalar type with and without None, small arrays, ragged pairs
    rng = ctx.rng
    for np_, dt in SCALAR_TYPES:
        a, b = gen_leaf(rng, dt), gen_leaf(rng, dt)
        cands += [[("s", np_, dt, a), ("n",), ("s", np_, dt, b)], [("n",), ("s", np_, dt, a)],
                  [("s", np_, dt, a), ("s", np_, dt, b)]]
        if dt != "str":
            cands += [[("a", dt, (2,), [a, b]), ("a", dt, (1,), [a])], [("a", dt, (2,), [a, b]), ("n",)],
                      [("s", np_, dt, a), ("a", dt, (2,), [a, b])]]
    cands.append([("d", [("a", 1.0)]), ("d", [("b", 2.0)])])
    for _ in range(300):
        cands.append(gen_case(rng))
    known = {f["key"] for f in common.load_findings()["finding"] if f["property"] == "C05"}
    seen = set()
    with common.scratch_dir() as d, silence():
        with h5py.File(os.path.join(d, "s.h5"), "w") as f:
            st = Stack()

            class _C:
                def count(self, *a, **k):
                    pass

            for ents in cands:
                if not ents:
                    continue
                values = [to_py(e) for e in ents]
                fl = oracle(_C(), ents, values, st.roundtrip(f, values), "search")
                if fl is not None and fl.key not in seen and fl.key not in known:
                    seen.add(fl.key)
                    out.append(fl)
    # flags: disagreements there are re-judged by the flag oracle in run_flags (ctx.fail), nothing to add
    return out


def replay(ctx, payload):
    case = payload.get("case", {})
    if isinstance(case, dict) and "entries" in case:
        fl = _oracle_on(entries_from_json(case["entries"]))
        return fl.to_json() if fl is not None else None
    sub = type(ctx)(ctx.prop, "quick", ctx.seed)
    run(sub)
    hit = [f for f in sub.failures if f.key == payload.get("key")]
    return hit[0].to_json() if hit else None
