"""C06 - database snapshots are isolated, complete, queryable and survive aborted runs.

Theorems: lean/ArmiVerif/Props/C06.lean over lean/ArmiVerif/Model/SnapStore.lean (+ Schedule.lean).
Tie (1) histories: a real `Database` on real HDF5 files in a scratch directory with the smallest test
reactor; random sequences of mutate / set time / write[label] / load / listing / history / merge /
split / close replayed on the real object and on the stateful Lean model; every answer compared.
Tie (2) moved objects: reference reactor, two assemblies swapped between writes, histories of blocks
and assemblies whose values encode their serial numbers.
Tie (1b) parameters without a dataset in early snapshots: in forked children (the class-level `assigned` flags die with them),
parameters nothing has assigned yet become assigned at random steps (or never / after the last write); histories over random
subsets of steps x parameters through Database.getHistory/getHistories, DatabaseInterface.getHistory/getHistories (timeSteps
explicit and None) and HistoryTrackerInterface.getBlockHistoryVal (with and without preloadBlockHistoryVals) vs
`SnapStore.writeP/dbHistory/dbiHistory/blockHistoryVal`; the absence of the dataset is verified on the file.
Tie (1c) histories by location: five assemblies swapped / taken out / put back between writes; location-based histories for
several objects in orders that differ from the stored row order (Database.getHistoriesByLocation / getHistoryByLocation,
DatabaseInterface.getHistories / getHistory byLocation=True) and identity-based ones for the same lists vs
`SnapStore.locHistories / dbHistoryByLoc / dbiHistoryByLoc / dbHistory`.
Labelled snapshots: every (cycle, node, label) through every route that takes a label (Database.load, hasTimeStep,
DatabaseInterface.loadState, Operator.loadState, a read-only Database and db.loadOperator on the closed file, a history over a
labelled step) in the histories of tie (1); the EOL and the plain snapshot of the last node of every completed real run.
Tie (4) restart runs: a completed run restarted from its database at every later (cycle, node) vs `fileAfterRun` with
`opened = restartStore`.
Tie (3) crash points (also on generated stacks: bystanders, flags, orders, with and without main): a real `Operator` with the real main + database interfaces and a fault
injecting interface at EVERY stack position aborting at EVERY one of its hook calls (every
hook x cycle x node) of several run shapes inside `with o:` - by an ordinary exception and by
BaseExceptions that are not Exceptions (sys.exit / SystemExit, KeyboardInterrupt); the .h5 left in the working directory
is opened with h5py and `Database("r")` and compared with `SnapStore.fileAfterCrash`.
Oracle: the property's clauses evaluated on the real files against a plain Python shadow record.
"""
import logging
import os

from harness import common, c15
from harness.common import Failure, lean_run

PROP_MODULES = ["ArmiVerif.Props.C06"]
PARTIAL = ("PROVED on the model: write_refuses_overwrite, write_then_load, write_isolated(_seq), listing_exact, "
           "listing_sorted_by_name, name_order_iff / name_le_imp / name_injective / parse_name for all c,n<100 (decided "
           "counter-example at 100), listing_sorted (genTimeSteps = written steps in chronological order), name_fresh, "
           "history_spec + history_live, histories over selected steps x parameters with parameters that have NO dataset in early "
           "snapshots (writeP_storedValue: value-or-default whether or not the class-level assigned flag was set at the write; "
           "dbHistory_value / dbHistoryAll_value / dbiHistory_now / dbiHistory_past / blockHistoryVal_written; "
           "history_value_or_default over every sequence of assignments, clock changes and writes), "
           "histories BY LOCATION (dbHistoryByLoc_value / _empty, writePL_location_value: the row of a location holds what the object "
           "that sat there had; the batched call for several objects: mem_locRows, locGroup_lookup / _value / _empty, locRows_find, "
           "locHistories_lookup = the per-location history whatever the order of the request and of the stored rows), "
           "merge_exact (start step present or absent), split_exact (attribute renumbered too), "
           "split_refused_unchanged / splitValid_iff / split_some_valid, "
           "db_between, crash_file_spec (for a restart run with the hypothesis that the merged history holds no error snapshot of the "
           "failing node), crash_before_open, complete_run_spec, restartStore_spec + restart_run_spec (a completed restart run holds "
           "exactly the earlier steps of the reload database, unchanged, then its own nodes and EOL). "
           "CORRESPONDENCE ONLY: that getHistories reports steps in first-occurrence order (order of the returned dict), "
           "the content of a refused split/merge, which interface opens the database (parameter `opener`). "
           "OUTSIDE THE MODEL: HDF5 storage, file-system atomicity of safeMove, a failure inside the writer itself, process "
           "kills (only Python exceptions); the followed state is one numeric parameter per object (full reactor round trip: C04)")
ASSUMPTIONS = [
    "a snapshot is represented by (r.p.cycle, r.p.timeNode, one parameter value per followed object); the full-reactor "
    "round trip is property C04",
    "the fault-injecting interface stamps core.p.keff with its call counter before failing, which is how 'the state at "
    "the failure' is recognised in the error snapshot",
]

BLOCK, CORE = 1, 2   # model serial numbers of the two followed objects of the smallest reactor
logging.raiseExceptions = False


def load_small(custom=None):
    from armi.reactor.tests.test_reactors import loadTestReactor
    from armi.tests import TEST_ROOT
    cs = {"reloadDBName": "none.h5", "detailAssemLocationsBOL": []}
    cs.update(custom or {})
    with common.quiet():
        return loadTestReactor(os.path.join(TEST_ROOT, "smallestTestReactor"), inputFileName="armiRunSmallest.yaml",
                               customSettings=cs)


def gname(c, n, label=""):
    return "c{:0>2}n{:0>2}{}".format(c, n, label or "")


def group_summary(h5, names=None, objs=("HexBlock/power", "Core/keff"), ids=(BLOCK, CORE)):
    import re
    pat = re.compile(r"^c(\d\d)n(\d\d).*$")
    out = []
    for k in sorted(h5.keys()):
        if not (len(k) > 1 and k[0] == "c" and k[1].isdigit()):
            continue
        g = h5[k]
        vals = []
        for path, i in zip(objs, ids):
            vals.append(f"[{i},{int(g[path][()][0])}]" if path in g else f"[{i},_]")
        out.append(f"{k}:{int(g.attrs['cycle'])}:{int(g.attrs['timeNode'])}:{int(g['Reactor/cycle'][()][0])}:"
                   f"{int(g['Reactor/timeNode'][()][0])}:[{','.join(vals)}]")
    return "[" + ",".join(out) + "]"


def tf(b):
    return "T" if b else "F"


# --------------------------------------------------------------------------- (1) histories
class RealHistory:
    """One history on a real Database; every op returns the canonical answer string."""

    def __init__(self, o, r, tag):
        self.o, self.r, self.tag = o, r, tag
        self.b = r.core[0][0]
        self.db, self.dbi = None, None
        self.fname = f"h{tag}.h5"
        self.nmerge = 0
        self.shadow = {}     # group name -> dict(c, n, label, ac, an, p, k)   (the oracle's own record)
        self.closed = False

    def state(self):
        return int(self.r.p.cycle), int(self.r.p.timeNode), int(self.b.p.power), int(self.r.core.p.keff)

    def op(self, ctx, op):
        from armi.bookkeeping.db import Database
        kind = op[0]
        try:
            if kind == "open":
                self.dbi = self.o.getInterface("database")
                if self.dbi is not None:
                    # through the database interface (what a run does): the routes that load by label go through it
                    self.dbi.initDB(fName=self.fname)
                    self.db = self.dbi.database
                else:
                    self.db = Database(self.fname, "w")
                    self.db.open()
                    self.db.writeInputsToDB(self.o.cs)
                return "ok"
            if kind == "set":
                _, c, n, p, k = op
                self.r.p.cycle, self.r.p.timeNode = c, n
                self.b.p.power, self.r.core.p.keff = float(p), float(k)
                return "ok"
            if kind == "write":
                label = op[1]
                c, n, p, k = self.state()
                nm = gname(c, n, label)
                try:
                    self.db.writeToDB(self.r, label or None)
                except Exception:  # noqa
                    if nm not in self.shadow:
                        ctx.fail("write-refused-without-reason", "a write to a fresh (cycle,node,label) succeeds",
                                 {"ops": self.trace}, observed=nm)
                    return "reject"
                if nm in self.shadow:
                    ctx.fail("overwrite-accepted", "a second write to the same (cycle,node,label) is refused",
                             {"ops": self.trace}, observed=nm)
                self.shadow[nm] = dict(c=c, n=n, label=label, ac=c, an=n, p=p, k=k)
                return "ok"
            if kind == "delete":
                # del db[(cycle, node, label)]: exactly that snapshot goes
                _, c, n, label = op
                nm = gname(c, n, label)
                try:
                    del self.db[(c, n, label or None)]
                except KeyError:
                    if nm in self.shadow:
                        ctx.fail("delete-of-written-snapshot-fails", "a written snapshot can be deleted by its (cycle, node, label)",
                                 {"ops": self.trace}, observed=nm)
                    return "reject"
                left = sorted(k for k in self.db.h5db.keys() if k[0] == "c" and k[1].isdigit())
                want = sorted(k for k in self.shadow if k != nm)
                if nm not in self.shadow or left != want:
                    ctx.fail("delete-exact", "deleting (cycle, node, label) removes exactly that snapshot: every other one - also the other "
                             "labels of the same node - stays", {"ops": self.trace, "deleted": nm}, observed=left, expected=want)
                self.shadow = {k: v for k, v in self.shadow.items() if k in left}
                return "ok"
            if kind == "has":
                # Database.hasTimeStep(cycle, node, statePointName): one snapshot per (cycle, node, LABEL)
                _, c, n, label = op
                got = bool(self.db.hasTimeStep(c, n, label) if label else self.db.hasTimeStep(c, n))
                if got != (gname(c, n, label) in self.shadow):
                    ctx.fail("hasTimeStep-per-label", "a snapshot is reported present exactly if that (cycle, node, label) was written",
                             {"ops": self.trace}, observed=got, expected=not got)
                return tf(got)
            if kind == "load":
                # every public route that takes a label must return THAT snapshot: Database.load, DatabaseInterface.loadState,
                # Operator.loadState, a read-only Database on the closed file, db.loadOperator on the closed file
                _, c, n, label = op[:4]
                route = op[4] if len(op) > 4 else "db"
                if self.closed and route in ("db", "dbi", "op"):
                    route = "readonly"
                if not self.closed and route in ("readonly", "loadOperator"):
                    route = "db"
                if route in ("dbi", "op") and self.dbi is None:
                    route = "db"
                nm = gname(c, n, label)
                ctx.count(f"load route: {route}" + (" (labelled)" if label else ""))
                try:
                    with common.quiet():
                        if route == "db":
                            r2 = self.db.load(c, n, statePointName=label or None, cs=self.o.cs, bp=self.r.blueprints,
                                              allowMissing=True)
                        elif route in ("dbi", "op"):
                            try:
                                if route == "dbi":
                                    self.dbi.loadState(c, n, timeStepName=label)
                                else:
                                    self.o.loadState(c, n, label)
                                r2 = self.o.r
                            finally:
                                self.o.reattach(self.r, self.o.cs)      # the history goes on with its own reactor
                            if r2 is self.r:
                                raise RuntimeError("loadState did not attach a loaded reactor")
                        elif route == "readonly":
                            with Database(self.fname, "r") as d2:
                                if bool(d2.hasTimeStep(c, n, label) if label else d2.hasTimeStep(c, n)) != (nm in self.shadow):
                                    ctx.fail("hasTimeStep-per-label", "a snapshot is reported present exactly if that (cycle, node, label) "
                                             "was written", {"ops": self.trace, "route": route}, observed=nm)
                                r2 = d2.load(c, n, statePointName=label or None, cs=self.o.cs, bp=self.r.blueprints, allowMissing=True)
                        else:
                            from armi.bookkeeping.db import loadOperator
                            r2 = loadOperator(self.fname, c, n, statePointName=label or None, allowMissing=True).r
                except Exception as e:  # noqa
                    if nm in self.shadow:
                        ctx.fail("load-of-written-snapshot-fails", "every written snapshot loads (through every route that takes a label)",
                                 {"ops": self.trace, "route": route}, observed=[nm, repr(e)[:200]])
                    if not self.closed and self.db.h5db is None:
                        self.broken = True     # the failed load closed the database under the history: stop this history
                    return "reject"
                got = (int(r2.p.cycle), int(r2.p.timeNode), int(r2.core[0][0].p.power), int(r2.core.p.keff))
                sh = self.shadow.get(nm)
                if sh is None or got != (sh["c"], sh["n"], sh["p"], sh["k"]):
                    other = [k for k, v in self.shadow.items() if k != nm and got == (v["c"], v["n"], v["p"], v["k"])]
                    ctx.fail("load-returns-state-at-write" if not other or not label else "load-labelled-snapshot-returns-another-snapshot",
                             "loading a snapshot (cycle, node, label) returns the state as of THAT write, whatever happened later and "
                             "whatever other snapshots the same node has", {"ops": self.trace, "route": route, "snapshot": nm,
                                                                           "state_of": other}, observed=got, expected=sh)
                return f"{got[0]} {got[1]} [[{BLOCK},{got[2]}],[{CORE},{got[3]}]]"
            if kind == "steps":
                got = list(self.db.genTimeSteps())
                if all(v["c"] < 100 and v["n"] < 100 for v in self.shadow.values()):
                    exp2 = [(v["c"], v["n"]) for v in sorted(self.shadow.values(), key=lambda v: (v["c"], v["n"], v["label"]))]
                    if [tuple(x) for x in got] != exp2:
                        ctx.fail("listing-exact-sorted", "every written snapshot and nothing else is listed, in chronological order",
                                 {"ops": self.trace}, observed=got, expected=exp2)
                return "[" + ",".join(f"({c},{n})" for c, n in got) + "]"
            if kind == "history":
                who = op[1]
                obj, par = (self.b, "power") if who == BLOCK else (self.r.core, "keff")
                h = self.db.getHistory(obj, [par, "flux"] if who == BLOCK else [par])
                got = [(k, int(v)) for k, v in h[par].items()]
                # oracle: value of each LISTED step (the last snapshot written for that node in name order wins), then the live step
                def expect(keyf):
                    e = {}
                    for nm in sorted(self.shadow):
                        v = self.shadow[nm]
                        e[keyf(v)] = v["p"] if who == BLOCK else v["k"]
                    cur = self.state()
                    if e and (cur[0], cur[1]) not in e:
                        e[(cur[0], cur[1])] = cur[2] if who == BLOCK else cur[3]
                    return e
                exp = expect(lambda v: (v["c"], v["n"]))
                if dict(got) != exp:
                    stale = expect(lambda v: (v.get("oc", v["ac"]), v["an"]))   # keyed by the cycle before a split
                    key = ("history-after-split-keyed-by-old-cycle" if dict(got) == stale else "history-value-per-step")
                    ctx.fail(key, "a history returns for each (listed) step the value the object had at that step",
                             {"ops": self.trace}, observed=got, expected=sorted(exp.items()))
                if who == BLOCK and (any(v != 0.0 for v in h["flux"].values()) or list(h["flux"].keys()) != list(h[par].keys())):
                    ctx.fail("history-default-when-unset", "an unset parameter reads as its default in a history, at every step listed",
                             {"ops": self.trace}, observed=sorted(dict(h["flux"]).items()), expected=[(k, 0.0) for k in h[par].keys()])
                return "[" + ",".join(f"({k[0]},{k[1]}):{v}" for k, v in got) + "]"
            if kind == "histlabel":
                # a history over explicitly named steps, one of them a LABELLED snapshot (c, n, label)
                _, who, c, n, label = op
                obj, par = (self.b, "power") if who == BLOCK else (self.r.core, "keff")
                nm = gname(c, n, label)
                try:
                    h = self.db.getHistory(obj, [par], [(c, n, label)] if label else [(c, n)])
                except KeyError:
                    if nm in self.shadow:
                        ctx.fail("history-of-written-labelled-step-raises", "a history over written steps is answered", {"ops": self.trace}, observed=nm)
                    return "reject"
                sh = self.shadow.get(nm)
                got = h[par].get((c, n))
                want = None if sh is None else (sh["p"] if who == BLOCK else sh["k"])
                if sh is not None and (sh["ac"], sh["an"]) == (c, n) and (got is None or int(got) != want):
                    ctx.fail("history-labelled-step-value", "a history over a labelled step returns the value of THAT snapshot",
                             {"ops": self.trace, "snapshot": nm}, observed=got, expected=want)
                return "_" if got is None else str(int(got))
            if kind == "merge":
                _, sc, sn = op
                self.nmerge += 1
                dst = Database(f"m{self.tag}_{self.nmerge}.h5", "w")
                dst.open()
                try:
                    dst.mergeHistory(self.db, sc, sn)
                    summ = group_summary(dst.h5db)
                    names = [k for k in sorted(dst.h5db.keys()) if k.startswith("c")]
                finally:
                    dst.close(True)
                    os.remove(f"m{self.tag}_{self.nmerge}.h5")
                before = [nm for nm in sorted(self.shadow) if (self.shadow[nm]["c"], self.shadow[nm]["n"]) < (sc, sn)]
                present = any((v["c"], v["n"]) == (sc, sn) for v in self.shadow.values())
                later = any((v["c"], v["n"]) > (sc, sn) for v in self.shadow.values())
                if names != before:
                    key = "merge-exact" if (present or not later) else "merge-absent-stop-step"
                    ctx.fail(key, "merging history up to a restart point copies exactly the earlier steps",
                             {"ops": self.trace, "stop": [sc, sn]}, observed=names, expected=before)
                else:
                    want = "[" + ",".join(self._line(nm) for nm in before) + "]"
                    if summ != want:
                        ctx.fail("merge-content-unchanged", "merged steps are copied unchanged", {"ops": self.trace},
                                 observed=summ, expected=want)
                return f"work=F success=F open=T {summ}"
            if kind == "split":
                keep = [tuple(x) for x in op[1]]
                try:
                    self.db.splitDatabase(keep, "-bak")
                except Exception:  # noqa
                    # oracle: a refused request must leave the database as it was
                    try:
                        left = sorted(k for k in self.db.h5db.keys() if k[0] == "c" and k[1].isdigit())
                    except Exception as e:  # noqa
                        left = repr(e)
                    if left != sorted(self.shadow):
                        self.broken = True     # the real object is no longer what the history describes: stop this history
                        ctx.fail("split-refused-but-database-emptied", "every written snapshot stays listed when a split request is refused",
                                 {"ops": self.trace}, observed=left, expected=sorted(self.shadow))
                    return "reject"
                mn = min(c for c, _ in keep)
                new = {}
                for c, n in keep:
                    v = dict(self.shadow[gname(c, n)])
                    v.update(c=c - mn, ac=c - mn, oc=v["ac"], label="")
                    new[gname(c - mn, n)] = v
                self.shadow = new
                want = "[" + ",".join(self._line(nm) for nm in sorted(new)) + "]"
                got = group_summary(self.db.h5db)
                if got != want:
                    ctx.fail("split-exact", "splitting keeps exactly the requested steps, unchanged (cycles renumbered)",
                             {"ops": self.trace}, observed=got, expected=want)
                bak = f"h{self.tag}-bak.h5"
                if os.path.exists(bak):
                    os.remove(bak)
                return "ok"
            if kind == "close":
                self.db.close(op[1])
                self.closed = True
                return "ok"
            if kind == "file":
                import h5py
                if self.db is None:
                    return "none"
                if self.closed:
                    with h5py.File(self.fname, "r") as f:
                        summ, succ = group_summary(f), bool(f.attrs["successfulCompletion"])
                    with Database(self.fname, "r") as d2:
                        lst = [tuple(x) for x in d2.genTimeSteps()]
                    if len(lst) != len(self.shadow):
                        ctx.fail("listing-exact-sorted", "the closed file lists every written snapshot", {"ops": self.trace}, observed=lst)
                    return f"work=T success={tf(succ)} open=F {summ}"
                inwork = os.path.exists(self.fname)
                return f"work={tf(inwork)} success={tf(bool(self.db.h5db.attrs['successfulCompletion']))} open=T {group_summary(self.db.h5db)}"
        except AssertionError:
            return "reject"
        raise common.Infra(f"unknown op {op}")

    def _line(self, nm):
        v = self.shadow[nm]
        return f"{nm}:{v['ac']}:{v['an']}:{v['c']}:{v['n']}:[[{BLOCK},{v['p']}],[{CORE},{v['k']}]]"


def op_request(op):
    k = op[0]
    if k == "open":
        return "open"
    if k == "set":
        return f"set {op[1]} {op[2]} [[{BLOCK},{op[3]}],[{CORE},{op[4]}]]"
    if k == "write":
        return f"write {op[1] or '-'}"
    if k == "load":
        return f"load {op[1]} {op[2]} {op[3] or '-'}"
    if k == "has":
        return f"has {op[1]} {op[2]} {op[3] or '-'}"
    if k == "delete":
        return f"delete {op[1]} {op[2]} {op[3] or '-'}"
    if k == "histlabel":
        return f"histlabel {op[1]} {op[2]} {op[3]} {op[4] or '-'}"
    if k == "steps":
        return "steps"
    if k == "history":
        return f"history {op[1]} 0"
    if k == "merge":
        return f"merge {op[1]} {op[2]}"
    if k == "split":
        return "split " + c15.nested(op[1])
    if k == "close":
        return f"close {tf(op[1])}"
    if k == "file":
        return "file"
    raise common.Infra(str(op))


def _labelled_routes():
    """A node with an unlabelled AND labelled snapshots of DIFFERENT states (as cNNnMM / cNNnMMEOL of every completed run), a node
    with ONLY a labelled snapshot; every (cycle, node, label) through every route that takes a label, before and after close."""
    ops = [("open",), ("set", 0, 0, 1, 1), ("write", ""), ("set", 0, 1, 2, 2), ("write", ""), ("set", 0, 1, 5, 6), ("write", "EOL"),
           ("set", 0, 1, 7, 8), ("write", "error"), ("set", 0, 2, 9, 10), ("write", "x1"), ("set", 1, 0, 11, 12)]
    for route in ("db", "dbi", "op"):
        for (c, n, lab) in ((0, 1, ""), (0, 1, "EOL"), (0, 1, "error"), (0, 2, "x1"), (0, 2, ""), (0, 0, "EOL"), (0, 0, "")):
            ops.append(("load", c, n, lab, route))
    for (c, n, lab) in ((0, 1, ""), (0, 1, "EOL"), (0, 1, "error"), (0, 1, "x1"), (0, 2, "x1"), (0, 2, ""), (0, 0, "EOL")):
        ops.append(("has", c, n, lab))
        ops.append(("histlabel", BLOCK if (n + len(lab)) % 2 else CORE, c, n, lab))
    ops += [("steps",), ("close", True), ("file",)]
    for route in ("readonly", "loadOperator"):
        for (c, n, lab) in ((0, 1, ""), (0, 1, "EOL"), (0, 1, "error"), (0, 2, "x1"), (0, 2, "")):
            ops.append(("load", c, n, lab, route))
    return ops


def _delete_by_label():
    """Deleting one of several snapshots of a node: only the (cycle, node, label) named goes."""
    ops = [("open",), ("set", 0, 0, 1, 1), ("write", ""), ("set", 0, 1, 2, 2), ("write", ""), ("set", 0, 1, 5, 6), ("write", "EOL"),
           ("set", 0, 1, 7, 8), ("write", "x1"), ("set", 0, 2, 9, 9),
           ("delete", 0, 1, "EOL"), ("steps",), ("load", 0, 1, ""), ("load", 0, 1, "x1", "dbi"), ("load", 0, 1, "EOL", "op"),
           ("delete", 0, 1, "EOL"), ("delete", 0, 1, ""), ("steps",), ("has", 0, 1, ""), ("has", 0, 1, "x1"), ("load", 0, 1, "x1", "op"),
           ("load", 0, 1, "", "dbi"), ("history", BLOCK), ("delete", 0, 5, ""), ("file",), ("close", True), ("file",),
           ("load", 0, 1, "x1", "readonly"), ("load", 0, 1, "", "readonly")]
    return ops


def _digit_labels():
    """Labels that begin with a digit (or look like a piece of a group name) next to plain snapshots over uneven cycles: the listing
    stays the written (cycle, node) pairs in chronological order; merge / split / hasTimeStep / load / history go by exact name."""
    ops = [("open",)]
    val = 0
    for (c, n, labs) in ((0, 0, ["", "2ndPass"]), (0, 1, ["", "1", "007x"]), (0, 2, ["12"]), (1, 0, ["", "n01", "0"]), (1, 1, ["", "c01n02"]),
                         (2, 0, ["", "-2"])):
        for lab in labs:
            val += 3
            ops += [("set", c, n, val, val + 1), ("write", lab)]
    ops += [("steps",), ("file",), ("merge", 0, 2), ("merge", 1, 0), ("merge", 1, 1), ("merge", 0, 1), ("merge", 2, 0), ("merge", 3, 0)]
    for (c, n, lab) in ((0, 1, "1"), (0, 1, "007x"), (0, 1, ""), (0, 2, "12"), (0, 2, ""), (0, 12, ""), (0, 11, ""), (1, 0, "n01"), (1, 0, "0"),
                        (1, 1, "c01n02"), (10, 0, ""), (0, 10, "07x")):
        ops += [("has", c, n, lab), ("load", c, n, lab, "db" if (c + n) % 2 else "dbi"), ("histlabel", BLOCK, c, n, lab)]
    ops += [("history", BLOCK), ("history", CORE), ("delete", 0, 1, "1"), ("steps",), ("split", [[0, 1], [1, 1], [2, 0]]), ("steps",), ("file",),
            ("history", BLOCK), ("close", True), ("file",), ("load", 0, 1, "", "readonly")]
    return ops


FIXED = [
    _labelled_routes(),
    _digit_labels(),
    _delete_by_label(),
    # (former F13, repaired) stop step absent from the source, later steps present: only the earlier steps are copied
    [("open",), ("set", 0, 0, 1, 1), ("write", ""), ("set", 0, 2, 2, 2), ("write", ""), ("set", 1, 0, 3, 3), ("write", ""),
     ("merge", 0, 1), ("merge", 0, 2), ("merge", 1, 0), ("merge", 2, 0), ("steps",), ("close", True), ("file",)],
    # F14: labelled snapshot of the same node written after a further change
    [("open",), ("set", 0, 0, 1, 1), ("write", ""), ("set", 0, 1, 2, 2), ("write", ""), ("set", 0, 1, 5, 6), ("write", "EOL"),
     ("history", BLOCK), ("history", CORE), ("load", 0, 1, ""), ("load", 0, 1, "EOL"), ("steps",), ("split", [[0, 1]]),
     ("file",), ("close", False), ("file",)],
    # (repaired) split renumbers cycles in the names, in Reactor/cycle and in the group attributes: histories keyed by listed steps
    [("open",), ("set", 1, 0, 1, 1), ("write", ""), ("set", 1, 1, 2, 2), ("write", ""), ("set", 2, 0, 3, 3), ("write", ""),
     ("split", [[1, 0], [1, 1]]), ("steps",), ("load", 0, 1, ""), ("history", BLOCK), ("history", CORE), ("close", True), ("file",)],
    # (repaired) refused splits - absent step, empty, repeated, labelled-only step - leave the database as it was
    [("open",), ("set", 0, 0, 1, 1), ("write", ""), ("set", 0, 1, 2, 2), ("write", ""), ("set", 0, 2, 3, 3), ("write", "EOL"),
     ("split", [[0, 5]]), ("steps",), ("split", []), ("split", [[0, 1], [0, 1]]), ("split", [[0, 2]]), ("file",), ("load", 0, 1, ""),
     ("history", BLOCK), ("split", [[0, 1]]), ("file",), ("close", True), ("file",)],
    # unsorted keepTimeSteps: the least kept cycle is the minimum, not the first one named
    [("open",), ("set", 0, 1, 1, 1), ("write", ""), ("set", 1, 0, 2, 2), ("write", ""), ("set", 2, 1, 3, 3), ("write", ""),
     ("split", [[2, 1], [1, 0]]), ("steps",), ("load", 1, 1, ""), ("load", 0, 0, ""), ("history", BLOCK), ("file",), ("close", True), ("file",)],
    # a labelled and an unlabelled snapshot of one node, then a merge past them (listing and groups must stay aligned)
    [("open",), ("set", 0, 0, 1, 1), ("write", ""), ("set", 0, 1, 2, 2), ("write", ""), ("set", 0, 1, 4, 4), ("write", "EOL"),
     ("set", 0, 2, 5, 5), ("write", ""), ("set", 1, 0, 6, 6), ("write", ""), ("merge", 0, 2), ("merge", 1, 0), ("merge", 0, 1),
     ("steps",), ("close", True), ("file",)],
    # uneven cycles and restart points past the last node a cycle has while later cycles exist: tuple order, not component-wise
    [("open",)] + [op for (c, n) in [(0, 0), (0, 1), (0, 2), (0, 3), (1, 0), (1, 1), (2, 0), (2, 1), (2, 2)]
                   for op in (("set", c, n, 10 * c + n + 1, 7), ("write", ""))]
    + [("merge", 1, 2), ("merge", 0, 4), ("merge", 1, 0), ("merge", 2, 1), ("merge", 0, 9), ("merge", 1, 5), ("merge", 3, 0),
       ("merge", 0, 0), ("steps",), ("close", True)],
    # naming bound: cycle 100 sorts before cycle 99 and is not listed
    [("open",), ("set", 99, 0, 1, 1), ("write", ""), ("set", 100, 0, 2, 2), ("write", ""), ("set", 5, 100, 3, 3), ("write", ""),
     ("steps",), ("file",), ("close", True)],
]


def gen_label(rng):
    """A state-point label: the usual ones, or free text from an alphabet with leading digits, dashes, 'n', 'c' - text that a greedy
    name pattern could absorb into the cycle / node digits of cXXnYY<label>."""
    if rng.random() < 0.5:
        return rng.choice(["EOL", "error", "x1"])
    if rng.random() < 0.4:
        return rng.choice(["2ndPass", "1", "007x", "12", "0", "n01", "c01n02", "-2", "9n9", "3-c"])
    lab = "".join(rng.choice("0123456789nc-xE") for _ in range(rng.randint(1, 5)))
    return lab if lab != "-" else "-0"      # a lone "-" is how the driver protocol spells the empty label


def gen_history(rng):
    ops = [("open",)]
    big = rng.random() < 0.15
    written, labelled = [], []
    c, n = 0, 0
    val = 0
    for _ in range(rng.randint(6, 22)):
        x = rng.random()
        if x < 0.22:
            val += rng.randint(1, 9)
            if rng.random() < 0.7:
                if rng.random() < 0.6:
                    n += 1
                else:
                    c, n = c + 1, 0
                if big and rng.random() < 0.3:
                    c = rng.randint(0, 99)
                    n = rng.randint(0, 99)
            ops.append(("set", c, n, val, val * 3 + 1))
        elif x < 0.5:
            label = "" if rng.random() < 0.55 else gen_label(rng)
            ops.append(("write", label))
            if label == "":
                written.append((c, n))
            else:
                labelled.append((c, n, label))
        elif x < 0.62:
            if written and rng.random() < 0.8:
                cc, nn = rng.choice(written)
            else:
                cc, nn = rng.randint(0, 3), rng.randint(0, 3)
            lab = "" if rng.random() < 0.5 else gen_label(rng)
            if labelled and rng.random() < 0.45:      # a labelled snapshot that exists (its node may also have an unlabelled one)
                cc, nn, lab = rng.choice(labelled)
                if rng.random() < 0.3:
                    lab = ""
            x3 = rng.random()
            if x3 < 0.7:
                ops.append(("load", cc, nn, lab, rng.choice(["db", "dbi", "op", "dbi", "op"])))
            elif x3 < 0.82:
                ops.append(("has", cc, nn, lab))
            elif x3 < 0.88:
                ops.append(("delete", cc, nn, lab))
                if lab == "" and (cc, nn) in written and not big:
                    written.remove((cc, nn))
                labelled = [z for z in labelled if z != (cc, nn, lab)]
            else:
                ops.append(("histlabel", rng.choice([BLOCK, CORE]), cc, nn, lab))
        elif x < 0.7:
            ops.append(("steps",))
        elif x < 0.82:
            ops.append(("history", rng.choice([BLOCK, CORE])))
        elif x < 0.92:
            x2 = rng.random()
            if written and x2 < 0.45:
                sc, sn = rng.choice(written)
            elif written and x2 < 0.85:
                # an absent start step just past (or well past) the last node some cycle has, or in the cycle after the last
                sc = rng.choice(sorted({w[0] for w in written}) + [max(w[0] for w in written) + 1])
                last = max([w[1] for w in written if w[0] == sc] or [-1])
                sn = last + rng.choice([1, 1, 2, 5])
            else:
                sc, sn = rng.randint(0, 3), rng.randint(0, 4)
            ops.append(("merge", sc, sn))
        elif x < 0.96 and written:
            keep = sorted(set(rng.sample(written, rng.randint(1, min(3, len(written))))))
            rng.shuffle(keep)
            ops.append(("split", [list(k) for k in keep]))
            mn = min(k[0] for k in keep)
            written = [(k[0] - mn, k[1]) for k in keep]
            labelled = []
            # keep the reactor's clock ahead of every kept step so that later writes are fresh
        else:
            ops.append(("file",))
    ops += [("steps",), ("close", rng.random() < 0.5), ("file",)]
    # the closed file: a read-only Database and db.loadOperator, by label
    for (cc, nn) in rng.sample(written, min(2, len(written))) if written else []:
        for lab in rng.sample(["", "EOL", "error", "x1"], 2):
            ops.append(("load", cc, nn, lab, rng.choice(["readonly", "readonly", "loadOperator"])))
    return ops


def section_histories(ctx):
    n = ctx.pick(26, 700)
    hists = FIXED + [gen_history(ctx.rng) for _ in range(n)]
    reqs, impl, cases = [], [], []
    with common.scratch_dir():
        o, r = load_small({"db": True})      # with the database interface: loadState routes need it
        for hi, ops in enumerate(hists):
            real = RealHistory(o, r, hi)
            real.trace = []
            reqs.append("reset"); impl.append("ok"); cases.append({"history": hi, "op": "reset"})
            for op in [ops[0], ("set", 0, 0, 0, 0)] + list(ops[1:]):
                real.trace = real.trace + [list(op)]
                try:
                    ans = real.op(ctx, op)
                except common.Infra:
                    raise
                reqs.append(op_request(op)); impl.append(ans); cases.append({"history": hi, "ops": real.trace})
                ctx.count("history op " + op[0] + (" (refused)" if ans == "reject" else ""))
                if getattr(real, "broken", False):
                    break   # a refused split leaves the real object unusable (file moved); stop this history
            if real.db is not None and not real.closed:
                try:
                    real.db.close(False)
                except Exception:  # noqa
                    pass
            for fn in os.listdir("."):
                if fn.endswith(".h5"):
                    os.remove(fn)
            ctx.case(("history", hi, len(ops)), sample={"ops": [list(x) for x in ops[:8]], "answers": impl[-3:]} if hi in (1, 5) else None)
    model = lean_run("SnapStore", reqs)
    ctx.compare("SnapStore (stateful) vs Database on HDF5", cases, model, impl)
    ctx.evaluations += len(reqs)
    ctx.traces += len(hists)
    ctx.count("F14: labelled snapshot supplies the history value of its node (observed, within the property)", 1)


# --------------------------------------------------------------------------- (1b) parameters whose dataset is absent from early snapshots
def _fresh_params(obj, rng, k, exclude=()):
    """k parameter definitions of obj's type that NOTHING in this process has assigned yet (class-level flag NEVER), stored in
    the database, with a plain setter and an integral numeric default; non-zero defaults preferred."""
    from armi.reactor.parameters.parameterDefinitions import NEVER
    dims = set(getattr(obj, "DIMENSION_NAMES", ()) or ())
    cand = [pd for pd in obj.p.paramDefs
            if pd.assigned == NEVER and pd.saveToDB and pd.serializer is None and pd.name not in dims and pd.name not in exclude
            and isinstance(pd.default, (int, float)) and not isinstance(pd.default, bool) and float(pd.default).is_integer()
            and abs(pd.default) < 1e9 and "setter" not in pd._setter.__code__.co_freevars]
    cand.sort(key=lambda pd: pd.name)
    nz = [pd for pd in cand if pd.default != 0]
    out = []
    while len(out) < k and cand:
        src = nz if (nz and rng.random() < 0.6) else cand
        pd = rng.choice(src)
        cand.remove(pd)
        if pd in nz:
            nz.remove(pd)
        out.append(pd)
    return out, len(cand) + len(out)


def absent_history(job):
    """ONE history, run in a forked child (the class-level `assigned` flags it sets die with the child): parameters become
    assigned at random steps (or never), every step is written, histories are requested over subsets of steps x parameters
    through Database.getHistory / getHistories, DatabaseInterface.getHistory / getHistories and
    HistoryTrackerInterface.getBlockHistoryVal. Returns request/answer streams per object type, oracle failures, counts."""
    import copy, random
    seed, hi = job
    rng = random.Random(seed)
    res = {"streams": [], "fails": [], "counts": {}, "infra": None, "canon": None, "sample": None}

    def count(k, n=1):
        res["counts"][k] = res["counts"].get(k, 0) + n
    case0 = {"absent_history": [seed, hi]}
    try:
        with common.quiet():
            o, r = load_small({"db": True})
            for loc in ((1, 0, 0), (0, 1, 0)):
                a = copy.deepcopy(r.core[0]); a.makeUnique()
                r.core.add(a, r.core.spatialGrid[loc])
        dbi, hti = o.getInterface("database"), o.getInterface("history")
        if dbi is None or hti is None:
            res["infra"] = "default stack lacks the database / history interface"
            return res
        dbi.initDB(fName=f"abs{hi}.h5")
        db = dbi.database
        objs = {"HexBlock": [b for a in r.core for b in a], "HexAssembly": list(r.core), "Core": [r.core]}
        control = {"HexBlock": "power", "HexAssembly": "chargeTime", "Core": "keff"}
        T = rng.randint(3, 6)
        times, c, n = [], rng.randint(0, 1), rng.randint(0, 1)
        for _ in range(T):
            times.append((c, n))
            if rng.random() < 0.65:
                n += rng.choice([1, 1, 2])
            else:
                c, n = c + 1, rng.choice([0, 0, 1])
        # ---- parameters: per type, fresh ones (each with the step at which it FIRST gets assigned, or never) + a control
        params, pid = {}, 0        # type -> list of dict(id, name, default, first)
        for tname, k in (("HexBlock", rng.randint(2, 3)), ("HexAssembly", rng.randint(1, 2)), ("Core", rng.randint(1, 2))):
            own_control = tname == "HexAssembly"       # Core.add / removeAssembly assign chargeTime themselves: use a fresh parameter
            if own_control:
                k += 1
            # not the parameters armi assigns by itself while writing / moving (probed: DatabaseInterface.writeDBEveryNode stamps
            # core.p.minutesSinceStart, Core.removeAssembly the discharge time, Core.add the charge time)
            pds, poolsize = _fresh_params(objs[tname][0], rng, k, exclude=tuple(control.values()) + (
                "minutesSinceStart", "dischargeTime", "chargeTime", "timeOfStart"))
            if len(pds) < k:
                res["infra"] = f"no never-assigned {tname} parameters left in this process ({poolsize})"
                return res
            if hi == 0:
                count(f"absent: never-assigned {tname} parameters to choose from (first history)", poolsize)
            lst = []
            pid += 1
            if own_control:
                lst.append({"id": pid, "name": pds[0].name, "default": int(pds[0].default), "first": 0, "control": True})
                pds = pds[1:]
            else:
                lst.append({"id": pid, "name": control[tname], "default": int(objs[tname][0].p.paramDefs[control[tname]].default or 0),
                            "first": 0, "control": True})
            for pd in pds:
                pid += 1
                first = rng.choice(list(range(T)) + list(range(1, T)) + [None, "after"])
                lst.append({"id": pid, "name": pd.name, "default": int(pd.default), "first": first, "control": False})
            params[tname] = lst
        reqs = {t: ["reset", "preset [" + ",".join(f"[{q['id']},{q['default']}]" for q in params[t]) + "]"] for t in objs}
        impl = {t: ["ok", "ok"] for t in objs}
        cases = {t: [dict(case0, type=t, op="reset")] * 2 for t in objs}
        trace = []

        def emit(t, req, ans, extra=None):
            reqs[t].append(req); impl[t].append(ans); cases[t].append(dict(case0, type=t, trace=list(trace), **(extra or {})))

        live = {}          # (serial, pid) -> value, for assigned (object, parameter) pairs      [shadow]
        snaps = {}         # (c, n) -> {(serial, pid): value-or-default}, and which pids had become assigned   [shadow]
        flagged = set()    # pids whose definition has been assigned on some object
        written = []
        val = 10

        def cur(sn, q):
            return live.get((sn, q["id"]), q["default"])

        def assign_some(t, q, everyone=False):
            nonlocal val
            chosen = [x for x in objs[t] if everyone or rng.random() < 0.5] or [rng.choice(objs[t])]
            for x in chosen:
                val += rng.randint(1, 7)
                x.p[q["name"]] = float(val)
                live[(int(x.p.serialNum), q["id"])] = val
                flagged.add(q["id"])
                emit(t, f"passign {int(x.p.serialNum)} {q['id']} {val}", "ok")
                trace.append(["assign", t, int(x.p.serialNum), q["name"], val])

        def set_time(step):
            r.p.cycle, r.p.timeNode = step
            for t in objs:
                emit(t, f"ptime {step[0]} {step[1]}", "ok")
            trace.append(["time", step[0], step[1]])

        def fmt(h, plist):
            out, seen = [], set()
            for q in plist:
                if q["id"] in seen or q["name"] not in h:
                    continue
                seen.add(q["id"])
                out.append(f"{q['id']}:[" + ",".join(f"({k[0]},{k[1]}):{int(v)}" for k, v in h[q["name"]].items()) + "]")
            return ";".join(out)

        def judge(kind, t, x, plist, steps, h, now_req):
            sn = int(x.p.serialNum)
            now = (int(r.p.cycle), int(r.p.timeNode))
            for q in plist:
                for st in steps:
                    if st == now and now_req and (kind.startswith("dbi") or st not in snaps):
                        # the CURRENT step: DatabaseInterface.getHistory/getHistories report the live value ("knows how to return
                        # the current value as well"), getBlockHistoryVal does when the step is not written yet
                        want, absent = cur(sn, q), False
                    elif st in snaps:
                        want, absent = snaps[st]["v"][(sn, q["id"])], q["id"] not in snaps[st]["flagged"]
                    else:
                        continue
                    got = h.get(q["name"], {}).get(st, "missing") if h is not None else "raised"
                    count("absent: (step, parameter) pairs judged" + (" - dataset absent in that snapshot" if absent else ""))
                    if got in ("missing", "raised") or int(got) != want or float(got) != float(want):
                        res["fails"].append((
                            "history-default-when-dataset-absent" if absent else "history-value-at-selected-step",
                            "a parameter history returns for each requested step the value the object had at that step, or the "
                            "DEFAULT if it was unset - also when nobody had assigned that parameter yet when the step was written "
                            "(no dataset in that snapshot; loading it yields the default)",
                            dict(case0, via=kind, type=t, serial=sn, parameter=q["name"], default=q["default"], step=list(st),
                                 requested_steps=[list(z) for z in steps], dataset_absent_in_that_snapshot=absent, trace=list(trace)),
                            None if got in ("missing", "raised") else float(got), want))
                        return

        def resync():
            """armi itself may assign followed parameters (a move stamps discharge / charge times): the followed state is what the
            objects hold now. Returns True if that cannot be represented."""
            from armi.reactor.parameters.parameterDefinitions import NEVER
            for t in objs:
                for x in objs[t]:
                    for q in params[t]:
                        pd_ = x.p.paramDefs[q["name"]]
                        actual, sn_ = x.p[q["name"]], int(x.p.serialNum)
                        if pd_.assigned != NEVER and (float(actual) != float(cur(sn_, q)) or q["id"] not in flagged):
                            if not float(actual).is_integer():
                                res["infra"] = f"armi left a non-integral value in followed parameter {t}.{q['name']}"
                                return True
                            live[(sn_, q["id"])] = int(actual)
                            flagged.add(q["id"])
                            emit(t, f"passign {sn_} {q['id']} {int(actual)}", "ok")
                            trace.append(["assigned-by-armi", t, sn_, q["name"], int(actual)])
            return False

        def query(kind=None, force_now=False):
            now = (int(r.p.cycle), int(r.p.timeNode))
            kind = kind or rng.choice(["dbhist", "dbhists", "dbihist", "dbihists", "blockval", "dbhist", "dbihist", "preload", "dbhistall", "dbihistall"])
            t = "HexBlock" if kind in ("blockval", "preload") else rng.choice(list(objs))
            plist = rng.sample(params[t], rng.randint(1, len(params[t])))
            if rng.random() < 0.7:       # always some never-yet-stored parameter in the request when there is one
                late = [q for q in params[t] if q["id"] not in snaps[written[0]]["flagged"]]
                if late and not any(q in plist for q in late):
                    plist.append(rng.choice(late))
            steps = rng.sample(written, rng.randint(1, len(written)))
            if rng.random() < 0.6 and written[0] not in steps:
                steps.insert(rng.randint(0, len(steps)), written[0])
            bad = rng.random() < 0.04
            if bad:
                steps.insert(rng.randint(0, len(steps)), (7, 7))       # a step that was never written: KeyError
            names, ids, sarg = [q["name"] for q in plist], common.intlist([q["id"] for q in plist]), None
            if kind == "blockval":
                x, q = rng.choice(objs[t]), plist[0]
                ts = rng.choice(written + [now])
                try:
                    with common.quiet():
                        v = hti.getBlockHistoryVal(x.getName(), q["name"], ts)
                    ans = str(int(v))
                except KeyError:
                    v, ans = None, "reject"
                emit(t, f"pblock {int(x.p.serialNum)} {q['id']} {ts[0]} {ts[1]}", ans, {"query": [kind, q["name"], list(ts)]})
                judge(kind, t, x, [q], [ts], None if v is None else {q["name"]: {ts: v}}, True)
                count("absent: query getBlockHistoryVal" + (" of the current, unwritten step" if ts not in snaps else ""))
                return
            if kind == "preload":
                # HistoryTrackerInterface.preloadBlockHistoryVals(names, keys, timesteps), then getBlockHistoryVal answers from the
                # preloaded histories: "the same results should be given if this method is not called"
                xs = rng.sample(objs[t], rng.randint(1, len(objs[t])))
                steps = [st for st in steps if st != (7, 7)]
                with common.quiet():
                    hti.preloadBlockHistoryVals([x.getName() for x in xs], names, list(steps))
                try:
                    for x in xs:
                        for q in plist:
                            for ts in steps:
                                if ts == now and ts in snaps:
                                    continue      # the current step, already written and possibly changed since: not judged
                                try:
                                    with common.quiet():
                                        v = hti.getBlockHistoryVal(x.getName(), q["name"], ts)
                                    ans = str(int(v))
                                except KeyError:
                                    v, ans = None, "reject"
                                emit(t, f"pblock {int(x.p.serialNum)} {q['id']} {ts[0]} {ts[1]}", ans, {"query": [kind, q["name"], list(ts)]})
                                judge(kind, t, x, [q], [ts], None if v is None else {q["name"]: {ts: v}}, True)
                finally:
                    hti.unloadBlockHistoryVals()
                count("absent: query getBlockHistoryVal after preloadBlockHistoryVals")
                return
            if kind.endswith("all"):
                # timeSteps=None: the FULL history (every written step, in order; through the interface also the current step)
                x, via_dbi = rng.choice(objs[t]), kind.startswith("dbi")
                with common.quiet():
                    h = (dbi if via_dbi else db).getHistory(x, names)
                emit(t, f"{'pdbiall' if via_dbi else 'pdball'} {int(x.p.serialNum)} {ids}", fmt(h, plist), {"query": [kind, names]})
                judge(kind, t, x, plist, list(written) + ([now] if via_dbi and now not in written else []), h, via_dbi)
                for q in plist:
                    if sorted(k for k in h[q["name"]].keys() if k in snaps) != sorted(written):      # (the ORDER is compared with the model only)
                        res["fails"].append(("history-full-lists-every-step", "a full history holds every written step",
                                             dict(case0, via=kind, type=t, parameter=q["name"], trace=list(trace)),
                                             [list(k) for k in h[q["name"]].keys()], [list(k) for k in sorted(written)]))
                        break
                count(f"absent: query {kind} (timeSteps=None)")
                return
            many = kind.endswith("s")
            xs = rng.sample(objs[t], rng.randint(1, len(objs[t]))) if many else [rng.choice(objs[t])]
            via_dbi = kind.startswith("dbi")
            now_req = via_dbi and (force_now or rng.random() < 0.5)
            if now_req and now not in steps:
                steps.insert(rng.randint(0, len(steps)), now)
            sarg = "[" + ",".join(f"[{a},{b}]" for a, b in steps) + "]"
            target = dbi if via_dbi else db
            try:
                with common.quiet():
                    if many:
                        hs = target.getHistories(xs, names, list(steps))
                    else:
                        hs = {xs[0]: target.getHistory(xs[0], names, list(steps))}
            except KeyError:
                hs = None
            for x in xs:
                h = None if hs is None else hs[x]
                emit(t, f"{'pdbi' if via_dbi else 'pdb'} {int(x.p.serialNum)} {ids} {sarg}", "reject" if h is None else fmt(h, plist),
                     {"query": [kind, names, [list(z) for z in steps]]})
                if not bad:
                    judge(kind, t, x, plist, steps, h, via_dbi and now in steps)
            count(f"absent: query {kind}" + (" (a step never written: refused)" if bad else ""))
            if hs is None and not bad:
                res["fails"].append(("history-request-raises", "a history over written steps and defined parameters is answered",
                                     dict(case0, via=kind, type=t, parameters=names, steps=[list(z) for z in steps], trace=list(trace)),
                                     "KeyError", None))

        import h5py  # noqa
        move_at = rng.randint(1, T - 1) if rng.random() < 0.6 else None
        layouts_seen = set()
        for ti, step in enumerate(times):
            set_time(step)
            for t in objs:
                for q in params[t]:
                    if q["control"]:
                        assign_some(t, q, everyone=(ti == 0))
                    elif q["first"] not in (None, "after") and q["first"] <= ti and (q["first"] == ti or rng.random() < 0.6):
                        assign_some(t, q)
            if ti == move_at:
                # two assemblies trade places between two writes: the layout order (row of each object in every dataset) changes,
                # identities do not
                a1, a2 = rng.sample(list(r.core), 2)
                loc1, loc2 = tuple(a1.spatialLocator.indices), tuple(a2.spatialLocator.indices)
                with common.quiet():
                    r.core.removeAssembly(a1, discharge=False)
                    r.core.removeAssembly(a2, discharge=False)
                    r.core.add(a1, r.core.spatialGrid[loc2])
                    r.core.add(a2, r.core.spatialGrid[loc1])
                trace.append(["swap", int(a1.p.serialNum), int(a2.p.serialNum)])
                count("absent: two assemblies swapped between writes")
                if resync():
                    return res
            if written and rng.random() < 0.35:
                query()                     # the current step is not written yet
            with common.quiet():
                if rng.random() < 0.5:
                    dbi.writeDBEveryNode()
                else:
                    db.writeToDB(r)
            trace.append(["write", step[0], step[1]])
            if resync():            # (what the writer itself assigned, if anything, is part of the state that was written)
                return res
            g = db.h5db[gname(*step)]
            ltype = [x.decode() if isinstance(x, bytes) else str(x) for x in g["layout/type"][()]]
            lser = [int(x) for x in g["layout/serialNum"][()]]
            snaps[step] = {"v": {}, "flagged": set(flagged)}
            for t in objs:
                layout = [sn for sn, ty in zip(lser, ltype) if ty == t]
                for x in objs[t]:
                    for q in params[t]:
                        snaps[step]["v"][(int(x.p.serialNum), q["id"])] = cur(int(x.p.serialNum), q)
                emit(t, f"pwrite {common.intlist(layout)}", "ok")
                layouts_seen.add((t, tuple(layout)))
                # the precondition of this scenario class, verified on the file: no dataset for a parameter nobody has assigned yet
                stored = [q["id"] for q in params[t] if q["name"] in g[t]]
                emit(t, f"pstored {step[0]} {step[1]}", common.intlist(sorted(stored)), {"stored": stored})
                for q in params[t]:
                    if q["id"] not in flagged:
                        if q["id"] in stored:
                            res["infra"] = f"parameter {t}.{q['name']} was expected to be never-assigned but has a dataset"
                            return res
                        count("absent: dataset verified absent from a snapshot (parameter not yet assigned anywhere)")
            written.append(step)
            if ti >= 1 and rng.random() < 0.6:
                query()
        for t in objs:       # after the last write: the state moves on (the current step is written, its live values differ), and
            for q in params[t]:          # some parameters get assigned only now
                if q["first"] == "after" or q["control"]:
                    assign_some(t, q, everyone=q["control"])
        if rng.random() < 0.5:
            nxt = (times[-1][0], times[-1][1] + 1)
            set_time(nxt)
        for _ in range(rng.randint(3, 5)):
            query()
        query("dbihistall")                       # through the interface the current step always carries the live value
        query("dbihist", force_now=True)
        query(rng.choice(["dbihists", "blockval", "dbhistall"]), force_now=True)
        # ---- what LOADING the earliest snapshot yields (the reference the property names) for every followed (object, parameter)
        with common.quiet():
            r2 = db.load(written[0][0], written[0][1], cs=o.cs, bp=r.blueprints, allowMissing=True)
        byser = {int(x.p.serialNum): x for x in [r2.core] + list(r2.core) + [b for a in r2.core for b in a]}
        for t in objs:
            for x in objs[t]:
                for q in params[t]:
                    sn = int(x.p.serialNum)
                    got, want = float(byser[sn].p[q["name"]]), snaps[written[0]]["v"][(sn, q["id"])]
                    if got != float(want):
                        res["fails"].append(("load-yields-default-for-unstored-parameter", "loading a snapshot returns the state as of that write "
                                             "(a parameter unset then reads as its default)", dict(case0, type=t, serial=sn, parameter=q["name"],
                                                                                                   step=list(written[0])), got, want))
        db.close(True)
        if len({l for (t, l) in layouts_seen if t == "HexBlock"}) > 1:
            count("absent: history whose snapshots list the blocks in different orders")
        for t in objs:
            res["streams"].append((reqs[t], impl[t], cases[t]))
        res["canon"] = ("absent", hi, T, sum(len(v) for v in params.values()))
        res["sample"] = {"steps": [list(z) for z in times], "parameters": {t: [(q["name"], q["default"], q["first"]) for q in params[t]] for t in params}}
    except common.Infra as e:
        res["infra"] = str(e)
    except Exception as e:  # noqa
        import traceback
        res["fails"].append(("history-stream-raises", "writes and history requests over written steps succeed",
                             dict(case0, trace=locals().get("trace", [])[-30:]), traceback.format_exc()[-900:], None))
    finally:
        for fn in os.listdir("."):
            if fn.endswith(".h5"):
                try:
                    os.remove(fn)
                except OSError:
                    pass
    return res


def run_absent_jobs(jobs):
    """Every history in a freshly forked child (maxtasksperchild=1): the parent's parameter definitions stay untouched, so every
    history finds the same never-assigned parameters."""
    import multiprocessing as mp, tempfile, shutil
    base = tempfile.mkdtemp(prefix="c06abs-")
    try:
        n = max(1, min(4, int(os.environ.get("VERIF_JOBS", "4") or 4)))
        try:
            with mp.get_context("fork").Pool(n, initializer=_pool_init, initargs=(base,), maxtasksperchild=1) as pool:
                return pool.map(absent_history, jobs, chunksize=1)
        except (AssertionError, OSError, ImportError):
            # no child processes available (e.g. inside a daemonic worker): in this process - the parameters each history uses up
            # are then no longer fresh for the following ones, which pick others
            here = os.getcwd()
            os.chdir(base)
            try:
                return [absent_history(j) for j in jobs]
            finally:
                os.chdir(here)
    finally:
        shutil.rmtree(base, ignore_errors=True)


def section_absent(ctx, only=None):
    n = ctx.pick(10, 80)
    jobs = [(ctx.rng.getrandbits(48), hi) for hi in range(n)] if only is None else [tuple(only)]
    results = run_absent_jobs(jobs)
    reqs, impl, cases = [], [], []
    for job, res in zip(jobs, results):
        if res["infra"]:
            raise common.Infra("C06 absent-dataset stream: " + res["infra"])
        for (rq, im, cs) in res["streams"]:
            reqs += rq; impl += im; cases += cs
        for k, v in res["counts"].items():
            ctx.count(k, v)
        for (key, clause, case, obs, exp) in res["fails"]:
            ctx.fail(key, clause, case, observed=obs, expected=exp)
        if res["canon"]:
            ctx.case(res["canon"], sample=res["sample"] if job[1] == 0 else None)
    model = lean_run("SnapStore", reqs)
    ctx.compare("SnapStore.writeP/dbHistory/dbiHistory/blockHistoryVal vs Database/DatabaseInterface/HistoryTracker on HDF5", cases, model, impl)
    ctx.evaluations += len(reqs)
    ctx.traces += len(jobs)


# --------------------------------------------------------------------------- (1c) histories by LOCATION for several objects
def section_locations(ctx):
    """Five assemblies (one block each) on the smallest reactor; between writes assemblies are swapped, taken out of the core
    (their location stays EMPTY for some steps) and put back elsewhere. Location-based histories are requested for SEVERAL
    objects at once in orders that differ from the stored layout order (live child order after swaps, reversed, rotated,
    hand-picked) through Database.getHistoriesByLocation / getHistoryByLocation and DatabaseInterface.getHistories / getHistory
    (byLocation=True), and identity-based histories for the same lists. Oracle: every LOCATION gets, per step, the value of
    whatever object sat there at that step (no entry if it was empty); every OBJECT its own values, also after it moved."""
    import copy
    from armi.bookkeeping.db.layout import Layout
    rng = ctx.rng
    reqs, impl, cases = [], [], []
    nh = ctx.pick(6, 40)
    with common.scratch_dir():
        # ---- excluded point (known finding unless repaired): NONE of the requested locations is occupied at a requested step
        with common.quiet():
            o, r = load_small({"db": True})
            a2 = copy.deepcopy(r.core[0]); a2.makeUnique()
            r.core.add(a2, r.core.spatialGrid[1, 0, 0])
        a1 = r.core[0]
        dbi = o.getInterface("database"); dbi.initDB(fName="locx.h5"); db = dbi.database
        for n_, inside in ((0, True), (1, False), (2, True)):
            with common.quiet():
                if not inside:
                    r.core.removeAssembly(a2, discharge=False)
                elif n_:
                    r.core.add(a2, r.core.spatialGrid[1, 0, 0])
                r.p.cycle, r.p.timeNode = 0, n_
                a1.p.kInf, a2.p.kInf = float(10 * n_ + 1), float(10 * n_ + 2)
                db.writeToDB(r)
        xcase = {"location_history": "one object whose location (1,0,0) is empty at step (0,1)", "steps": [[0, 0], [0, 1], [0, 2]]}
        try:
            with common.quiet():
                h = db.getHistoryByLocation(a2, ["kInf"], [(0, 0), (0, 1), (0, 2)])
            got = {(int(k[0]), int(k[1])): int(v) for k, v in h["kInf"].items()}
            if got != {(0, 0): 2, (0, 2): 22}:
                ctx.fail("history-by-location-value", "every location gets, per step, the value of whatever object sat there (nothing if "
                         "it was empty)", xcase, observed=sorted(got.items()), expected=[((0, 0), 2), ((0, 2), 22)])
        except IndexError as e:
            ctx.fail("location-history-all-requested-locations-empty-raises", "a history over written steps is answered (a location that "
                     "was empty at a step has no entry there)", xcase, observed=repr(e)[:200], expected={(0, 0): 2, (0, 2): 22})
        db.close(True)
        os.remove("locx.h5")
        ctx.case(("location-history-excluded-point",))
        for hi in range(nh):
            with common.quiet():
                o, r = load_small({"db": True})
                spots = [(1, 0, 0), (0, 1, 0), (-1, 1, 0), (-1, 0, 0), (0, -1, 0), (1, -1, 0)]
                for loc in spots[:4]:
                    a = copy.deepcopy(r.core[0]); a.makeUnique()
                    r.core.add(a, r.core.spatialGrid[loc])
            dbi = o.getInterface("database")
            dbi.initDB(fName=f"loc{hi}.h5")
            db = dbi.database
            P = {"HexAssembly": [(1, "kInf"), (2, "maxPercentBu")], "HexBlock": [(1, "power"), (2, "flux")]}
            locid = {}

            def lid(t):
                t = tuple(int(x) for x in t)
                return locid.setdefault(t, len(locid) + 1)

            def objs_of(t):
                return list(r.core) if t == "HexAssembly" else [b for a in r.core for b in a]
            stream = {t: [("reset", "ok", {"op": "reset"}), ("preset [[1,0],[2,0]]", "ok", {"op": "preset"})] for t in P}
            trace, shadow, written, out = [], {}, [], []
            case0 = {"location_history": [ctx.seed, hi]}

            def emit(t, req, ans, extra=None):
                stream[t].append((req, ans, dict(case0, type=t, trace=list(trace), **(extra or {}))))

            T = rng.randint(3, 5)
            step = (rng.randint(0, 1), 0)
            for ti in range(T):
                # ---- moves between writes
                for _ in range(rng.randint(0, 2) if ti else 0):
                    x = rng.random()
                    inside = list(r.core)
                    with common.quiet():
                        if x < 0.55 and len(inside) >= 2:
                            a1, a2 = rng.sample(inside, 2)
                            l1, l2 = tuple(a1.spatialLocator.indices), tuple(a2.spatialLocator.indices)
                            r.core.removeAssembly(a1, discharge=False); r.core.removeAssembly(a2, discharge=False)
                            r.core.add(a1, r.core.spatialGrid[l2]); r.core.add(a2, r.core.spatialGrid[l1])
                            trace.append(["swap", int(a1.p.serialNum), int(a2.p.serialNum)])
                            ctx.count("locations: two assemblies swapped between writes")
                        elif x < 0.8 and len(inside) >= 3:
                            a1 = rng.choice(inside)
                            out.append(a1)
                            r.core.removeAssembly(a1, discharge=False)
                            trace.append(["take-out", int(a1.p.serialNum)])
                            ctx.count("locations: an assembly taken out (its location stays empty)")
                        elif out:
                            a1 = out.pop(rng.randrange(len(out)))
                            free = [l for l in [(0, 0, 0)] + spots if not any(tuple(a.spatialLocator.indices) == l for a in r.core)]
                            l_ = rng.choice(free)
                            r.core.add(a1, r.core.spatialGrid[l_])
                            trace.append(["put-back", int(a1.p.serialNum), list(l_)])
                            ctx.count("locations: an assembly put back at another free location")
                r.p.cycle, r.p.timeNode = step
                for t in P:
                    emit(t, f"ptime {step[0]} {step[1]}", "ok")
                    for x in objs_of(t):
                        for pid, name in P[t]:
                            v = int(x.p.serialNum) * 100 + ti * 10 + pid
                            x.p[name] = float(v)
                            emit(t, f"passign {int(x.p.serialNum)} {pid} {v}", "ok")
                with common.quiet():
                    db.writeToDB(r)
                trace.append(["write", step[0], step[1]])
                lay = Layout((db.versionMajor, db.versionMinor), h5group=db.h5db[gname(*step)])
                shadow[step] = {}
                for t in P:
                    rows = sorted((int(lay.indexInData[i]), int(lay.serialNum[i]), tuple(int(z) for z in lay.location[i]))
                                  for i in range(len(lay.type)) if lay.type[i] == t)
                    emit(t, f"pwritel {common.intlist([s_ for _, s_, _ in rows])} {common.intlist([lid(l) for _, _, l in rows])}", "ok")
                    shadow[step][t] = {tuple(int(z) for z in x.spatialLocator.getCompleteIndices()):
                                       (int(x.p.serialNum), {pid: int(x.p[name]) for pid, name in P[t]}) for x in objs_of(t)}
                    if [s_ for _, s_, _ in rows] != [int(x.p.serialNum) for x in objs_of(t)]:
                        ctx.count("locations: snapshot whose stored row order differs from the live child order")
                written.append(step)
                step = (step[0], step[1] + 1) if rng.random() < 0.6 else (step[0] + 1, 0)
                if ti == 0:
                    continue
                # ---- queries
                for _ in range(rng.randint(2, 4)):
                    t = rng.choice(list(P))
                    live = objs_of(t)
                    how = rng.choice(["live order", "reversed", "rotated", "hand-picked", "hand-picked", "single"])
                    if how == "live order":
                        comps = list(live)
                    elif how == "reversed":
                        comps = list(reversed(live))
                    elif how == "rotated":
                        k = rng.randint(1, len(live) - 1); comps = live[k:] + live[:k]
                    elif how == "single":
                        comps = [rng.choice(live)]
                    else:
                        comps = rng.sample(live, rng.randint(2, len(live)))
                    plist = rng.sample(P[t], rng.randint(1, 2))
                    names, ids = [n_ for _, n_ in plist], common.intlist([i_ for i_, _ in plist])
                    steps = None if rng.random() < 0.25 else rng.sample(written, rng.randint(1, len(written)))
                    route = rng.choice(["db-loc", "db-loc", "dbi-loc", "db-id"])
                    now = (int(r.p.cycle), int(r.p.timeNode))
                    sarg = "_" if steps is None else "[" + ",".join(f"[{a},{b}]" for a, b in steps) + "]"
                    qcase = {"query": [route, how, t, [int(x.p.serialNum) for x in comps], names, None if steps is None else [list(z) for z in steps]]}
                    try:
                        with common.quiet():
                            if route == "db-loc":
                                hs = (db.getHistoriesByLocation(comps, names, steps) if len(comps) > 1 or rng.random() < 0.5
                                      else {comps[0]: db.getHistoryByLocation(comps[0], names, steps)})
                            elif route == "dbi-loc":
                                hs = (dbi.getHistories(comps, names, None if steps is None else list(steps), byLocation=True)
                                      if len(comps) > 1 or rng.random() < 0.5
                                      else {comps[0]: dbi.getHistory(comps[0], names, None if steps is None else list(steps), byLocation=True)})
                            else:
                                hs = db.getHistories(comps, names, steps)
                    except Exception as e:  # noqa
                        asked_ = sorted(written) if steps is None else steps
                        locs_ = [tuple(int(z) for z in x.spatialLocator.getCompleteIndices()) for x in comps]
                        all_empty = route != "db-id" and any(not any(L_ in shadow[st_][t] for L_ in locs_) for st_ in asked_ if st_ in shadow)
                        ctx.fail("location-history-all-requested-locations-empty-raises" if all_empty else
                                 "location-history-raises" if route != "db-id" else "history-request-raises",
                                 "a history over written steps is answered (a location that was empty at a step has no entry there)",
                                 dict(case0, trace=list(trace), **qcase), observed=repr(e)[:300])
                        continue
                    ctx.count(f"locations: query {route}, {how}" + (", full history" if steps is None else ""))
                    asked = sorted(written) if steps is None else steps
                    if route == "db-id":
                        # the pseudo-parameter "location" of an identity-based history: where the OBJECT was at each step
                        with common.quiet():
                            hl = db.getHistories(comps, ["location"], steps)
                        for x in comps:
                            sn = int(x.p.serialNum)
                            for st_ in asked:
                                where = [L_ for L_, (s2, _) in shadow[st_][t].items() if s2 == sn]
                                got = hl[x]["location"].get(st_)
                                got = None if got is None else tuple(int(z) for z in got)
                                if got != (where[0] if where else None):
                                    ctx.fail("history-location-of-object-per-step", "the location history of an object gives, per step, where "
                                             "THAT object was (nothing for a step at which it was not in the core)",
                                             dict(case0, trace=list(trace), serial=sn, step=list(st_), **qcase),
                                             observed=got, expected=where[0] if where else None)
                                    break
                        ctx.count("locations: 'location' history of several objects")

                    def fmt(h):
                        return ";".join(f"{pid}:[" + ",".join(f"({int(k[0])},{int(k[1])}):{int(v)}" for k, v in h[name].items()) + "]"
                                        for pid, name in plist if name in h)
                    if route == "db-loc" and len(comps) > 1:
                        emit(t, f"plocs {common.intlist([lid(x.spatialLocator.getCompleteIndices()) for x in comps])} {ids} {sarg}",
                             " | ".join(f"{lid(x.spatialLocator.getCompleteIndices())}={fmt(hs[x])}" for x in comps), qcase)
                    for x in comps:
                        L = tuple(int(z) for z in x.spatialLocator.getCompleteIndices())
                        sn = int(x.p.serialNum)
                        if route == "db-loc" and len(comps) == 1:
                            emit(t, f"ploc {lid(L)} {ids} {sarg}", fmt(hs[x]), qcase)
                        elif route == "dbi-loc":
                            emit(t, f"plocdbi {lid(L)} {sn} {ids} {sarg}", fmt(hs[x]), qcase)
                        elif route == "db-id":
                            emit(t, f"pdb {sn} {ids} " + (sarg if steps is not None else "[" + ",".join(f"[{a},{b}]" for a, b in sorted(written)) + "]"),
                                 fmt(hs[x]), qcase)
                        for pid, name in plist:
                            for st_ in asked:
                                if route == "dbi-loc" and st_ == now:
                                    continue        # the current step carries the live value of the object passed
                                if route == "db-id":
                                    occ = [v for (s2, v) in shadow[st_][t].values() if s2 == sn]
                                    want = occ[0][pid] if occ else None
                                else:
                                    occ = shadow[st_][t].get(L)
                                    want = None if occ is None else occ[1][pid]
                                got = hs[x].get(name, {}).get(st_)
                                ctx.count("locations: (object, step, parameter) judged" + (" - location empty at that step" if want is None else ""))
                                if (got is None) != (want is None) or (got is not None and int(got) != want):
                                    by = "location" if route != "db-id" else "identity"
                                    ctx.fail("history-by-location-value" if by == "location" else "history-matched-by-identity-after-move",
                                             "a location-based history gives every location, per step, the value of whatever object sat there "
                                             "at that step (nothing if it was empty); an identity-based one every object its own values"
                                             , dict(case0, trace=list(trace), serial=sn, location=list(L), step=list(st_), parameter=name,
                                                    occupant=None if route == "db-id" or occ is None else occ[0], **qcase),
                                             observed=None if got is None else int(got), expected=want)
                                    break
                            if route == "dbi-loc" and (steps is None or now in steps):
                                got = hs[x].get(name, {}).get(now)
                                if got is None or int(got) != int(x.p[name]):
                                    ctx.fail("history-by-location-current-step", "through the interface the current step carries the live value",
                                             dict(case0, trace=list(trace), serial=sn, **qcase), observed=got, expected=int(x.p[name]))
            db.close(True)
            os.remove(f"loc{hi}.h5")
            for t in P:          # one model session per object type
                for (rq, an, cs_) in stream[t]:
                    reqs.append(rq); impl.append(an); cases.append(cs_)
            ctx.case(("location-history", hi, T, len(trace)), sample={"trace": trace[:12]} if hi == 0 else None)
    model = lean_run("SnapStore", reqs)
    ctx.compare("SnapStore.dbHistoryByLoc/locHistories/dbiHistoryByLoc vs Database.getHistoriesByLocation & co. on HDF5", cases, model, impl)
    ctx.evaluations += len(reqs)
    ctx.traces += nh


# --------------------------------------------------------------------------- (2) objects that move
def section_moves(ctx):
    """Histories of blocks and assemblies matched by identity after two assemblies swapped places."""
    from armi.bookkeeping.db import Database
    from armi.reactor.tests.test_reactors import loadTestReactor
    from armi.tests import TEST_ROOT
    from armi.reactor.flags import Flags

    rounds = ctx.pick(1, 6)
    reqs, impl, cases = [], [], []
    with common.scratch_dir():
        with common.quiet():
            o, r = loadTestReactor(TEST_ROOT)
        for rd in range(rounds):
            assems = r.core.getAssemblies()
            a1, a2 = ctx.rng.sample(assems, 2)
            others = ctx.rng.sample([a for a in assems if a not in (a1, a2)], 2)
            followed = [a1, a2] + others
            blocks = [b for a in followed for b in a][:12]
            db = Database(f"mv{rd}.h5", "w")
            db.open()
            reqs += ["reset", "open"]; impl += ["ok", "ok"]; cases += [{"moves": rd}] * 2
            steps = [(0, 0), (0, 1), (0, 2)]
            for si, (c, n) in enumerate(steps):
                r.p.cycle, r.p.timeNode = c, n
                for a in assems:
                    a.p.chargeTime = float(a.p.serialNum * 10 + si)
                    for b in a:
                        b.p.power = float(b.p.serialNum * 10 + si)
                objs = [(x.p.serialNum, x.p.serialNum * 10 + si) for x in followed + blocks]
                with common.quiet():
                    db.writeToDB(r)
                reqs.append(f"set {c} {n} " + "[" + ",".join(f"[{s},{v}]" for s, v in objs) + "]"); impl.append("ok")
                reqs.append("write -"); impl.append("ok"); cases += [{"moves": rd}] * 2
                if si == 0:   # the move: two assemblies trade places (locations change, identities do not)
                    l1, l2 = a1.spatialLocator, a2.spatialLocator
                    loc1, loc2 = tuple(l1.indices), tuple(l2.indices)
                    r.core.removeAssembly(a1, discharge=False)
                    r.core.removeAssembly(a2, discharge=False)
                    r.core.add(a1, r.core.spatialGrid[loc2])
                    r.core.add(a2, r.core.spatialGrid[loc1])
                    ctx.count("moves: assemblies swapped between writes")
            hb = db.getHistories(blocks, ["power"])
            ha = db.getHistories(followed, ["chargeTime"])
            for x, h, par in [(b, hb, "power") for b in blocks] + [(a, ha, "chargeTime") for a in followed]:
                got = [(k, int(v)) for k, v in h[x][par].items()]
                exp = [((c, n), x.p.serialNum * 10 + si) for si, (c, n) in enumerate(steps)]
                if got != exp:
                    ctx.fail("history-matched-by-identity-after-move", "a history returns each object's OWN value at every step, also after it moved",
                             {"round": rd, "serial": int(x.p.serialNum), "type": type(x).__name__}, observed=got, expected=exp)
                reqs.append(f"history {x.p.serialNum} 0")
                impl.append("[" + ",".join(f"({k[0]},{k[1]}):{v}" for k, v in got) + "]")
                cases.append({"moves": rd, "serial": int(x.p.serialNum)})
                ctx.case(("moved-history", rd, int(x.p.serialNum)))
            db.close(True)
            os.remove(f"mv{rd}.h5")
    model = lean_run("SnapStore", reqs)
    ctx.compare("SnapStore.history vs Database.getHistories after a move", cases, model, impl)


def section_context(ctx):
    """`with Database(name, "w") as db:` - the context-manager route to open / close: a block that ends normally leaves the file
    in the working directory marked successful, a block left by an exception (ordinary or not) leaves it marked NOT successful,
    with every snapshot written inside; a nested `with db:` does not close it early."""
    import h5py
    from armi.bookkeeping.db import Database

    class Boom(Exception):
        pass
    reqs, impl, cases = [], [], []
    with common.scratch_dir():
        o, r = load_small()
        b = r.core[0][0]
        k = 0
        for how in ("normal", "exception", "SystemExit", "KeyboardInterrupt", "nested", "nested-then-exception"):
            k += 1
            fn = f"cx{k}.h5"
            wrote = []
            raised = None

            def put(d, c, n, v):
                r.p.cycle, r.p.timeNode = c, n
                b.p.power, r.core.p.keff = float(v), float(v + 1)
                with common.quiet():
                    d.writeToDB(r)
                wrote.append((c, n, v))
            try:
                with Database(fn, "w") as d:
                    d.writeInputsToDB(o.cs)
                    put(d, 0, 0, 10 * k)
                    if how.startswith("nested"):
                        with d:
                            put(d, 0, 1, 10 * k + 1)
                        put(d, 0, 2, 10 * k + 2)          # still open after the inner block
                    if how.endswith("exception"):
                        raise Boom()
                    if how == "SystemExit":
                        raise SystemExit(3)
                    if how == "KeyboardInterrupt":
                        raise KeyboardInterrupt()
            except (Boom, SystemExit, KeyboardInterrupt) as e:
                raised = type(e).__name__
            case = {"context_manager": how}
            ok = raised is None
            if not os.path.exists(fn):
                ctx.fail("crash-file-missing" if not ok else "complete-run-file-missing", "the file is left in the working directory", case)
                continue
            with h5py.File(fn, "r") as f:
                summ, succ = group_summary(f), bool(f.attrs["successfulCompletion"])
            want = "[" + ",".join(f"{gname(c, n)}:{c}:{n}:{c}:{n}:[[{BLOCK},{v}],[{CORE},{v + 1}]]" for c, n, v in wrote) + "]"
            if succ != ok:
                ctx.fail("crash-file-marked-successful" if not ok else "complete-run-marked-successful",
                         "a database closed by an exception is marked not successfully completed, one closed normally successful",
                         case, observed=succ, expected=ok)
            if summ != want:
                ctx.fail("crash-file-snapshots", "the file holds every snapshot written before it was closed", case, observed=summ, expected=want)
            reqs += ["reset", "open"] + [x for c, n, v in wrote for x in (f"set {c} {n} [[{BLOCK},{v}],[{CORE},{v + 1}]]", "write -")] \
                + [f"close {tf(ok)}", "file"]
            impl += ["ok", "ok"] + ["ok"] * (2 * len(wrote)) + ["ok", f"work=T success={tf(succ)} open=F {summ}"]
            cases += [case] * (4 + 2 * len(wrote))
            ctx.case(("context-manager", how))
            ctx.count("context manager: block left " + ("normally" if ok else f"by {raised}"))
            os.remove(fn)
    model = lean_run("SnapStore", reqs)
    ctx.compare("SnapStore.close vs `with Database(...)`", cases, model, impl)


# --------------------------------------------------------------------------- (2b) identity across processes
def section_serials(ctx):
    """A database written by one process is loaded by a fresh one (serial counter restarted, as a new interpreter
    has it), new assemblies are built and added, the history is merged and a later node written: serial numbers of
    new objects continue after the largest loaded one, no two live objects share one, histories stay per object."""
    import copy
    from armi.bookkeeping.db import Database
    from armi.reactor.parameters import parameterCollections as pc

    reqs, impl, cases = [], [], []
    saved = pc.GLOBAL_SERIAL_NUM
    try:
        with common.scratch_dir():
            # ---- process A: a run that discarded objects (serials have gaps; the largest exceeds the count)
            pc.GLOBAL_SERIAL_NUM = 0
            o, r = load_small()
            for _ in range(ctx.rng.randint(1, 3)):
                copy.deepcopy(r.core[0])                       # built and thrown away
            extra = copy.deepcopy(r.core[0]); extra.makeUnique()
            r.core.add(extra, r.core.spatialGrid[1, 0, 0])

            def objs_of(rr):
                return list(rr.core) + [b for a in rr.core for b in a]

            def stamp(rr, step):
                for x in objs_of(rr):
                    if hasattr(x.p, "chargeTime"):
                        x.p.chargeTime = float(x.p.serialNum * 10 + step)
                    else:
                        x.p.power = float(x.p.serialNum * 10 + step)
            dba = Database("procA.h5", "w"); dba.open(); dba.writeInputsToDB(o.cs)
            reqs += ["reset", "open"]; impl += ["ok", "ok"]; cases += [{"serials": "A"}] * 2
            for step in (0, 1):
                r.p.cycle, r.p.timeNode = 0, step
                stamp(r, step)
                with common.quiet():
                    dba.writeToDB(r)
                reqs.append(f"set 0 {step} [" + ",".join(f"[{int(x.p.serialNum)},{int(x.p.serialNum) * 10 + step}]" for x in objs_of(r)) + "]")
                reqs.append("write -"); impl += ["ok", "ok"]; cases += [{"serials": "A", "step": step}] * 2
            dba.close(True)
            old_serials = sorted(int(x.p.serialNum) for x in [r, r.core] + r.core.getChildren(deep=True))
            ctx.count("serials: written with gaps (max - count)", old_serials[-1] - len(old_serials))
            # ---- process B: a fresh interpreter's counter, load, build new assemblies, merge, write, query
            pc.GLOBAL_SERIAL_NUM = 0
            with Database("procA.h5", "r") as src:
                with common.quiet():
                    r2 = src.load(0, 1, cs=o.cs, allowMissing=True)
                loaded = sorted(int(x.p.serialNum) for x in [r2, r2.core] + r2.core.getChildren(deep=True))
                if loaded != old_serials:
                    ctx.fail("serials-loaded-as-written", "loaded objects carry the serial numbers they were written with",
                             {"written": old_serials}, observed=loaded)
                if pc.GLOBAL_SERIAL_NUM < max(loaded):
                    ctx.fail("serial-counter-continues-after-load", "after a load the serial counter is at least the largest loaded serial number",
                             {"written": old_serials}, observed=int(pc.GLOBAL_SERIAL_NUM), expected=max(loaded))
                old_objs = objs_of(r2)
                new_objs = []
                for loc in ((0, 1, 0), (-1, 1, 0), (-1, 0, 0), (0, -1, 0)):
                    a = copy.deepcopy(r2.core[0]); a.makeUnique()
                    r2.core.add(a, r2.core.spatialGrid[loc])
                    new_objs += [a] + list(a)
                live = [int(x.p.serialNum) for x in [r2, r2.core] + r2.core.getChildren(deep=True)]
                if len(set(live)) != len(live):
                    dup = sorted({v for v in live if live.count(v) > 1})
                    ctx.fail("serials-unique-after-load-and-create", "no two live objects share a serial number (objects created after a load "
                             "must not reuse a loaded serial)", {"written": old_serials}, observed=dup)
                dbb = Database("procB.h5", "w"); dbb.open(); dbb.writeInputsToDB(o.cs)
                dbb.mergeHistory(src, 0, 2)
                r2.p.cycle, r2.p.timeNode = 0, 2
                stamp(r2, 2)
                with common.quiet():
                    dbb.writeToDB(r2)
                reqs.append("set 0 2 [" + ",".join(f"[{int(x.p.serialNum)},{int(x.p.serialNum) * 10 + 2}]" for x in objs_of(r2)) + "]")
                reqs.append("write -"); impl += ["ok", "ok"]; cases += [{"serials": "B"}] * 2
                blocks = [x for x in old_objs + new_objs if not hasattr(x.p, "chargeTime")]
                assems = [x for x in old_objs + new_objs if hasattr(x.p, "chargeTime")]
                hb = dbb.getHistories(blocks, ["power"])
                ha = dbb.getHistories(assems, ["chargeTime"])
                for x, h, par in [(b, hb, "power") for b in blocks] + [(a, ha, "chargeTime") for a in assems]:
                    sn = int(x.p.serialNum)
                    got = [(k, int(v)) for k, v in h[x][par].items()]
                    steps = [0, 1, 2] if any(x is y for y in old_objs) else [2]
                    exp = [((0, st), sn * 10 + st) for st in steps]
                    if got != exp:
                        ctx.fail("history-identity-across-processes", "an old object's history never shows a new object's values and a new "
                                 "object has no entries for steps before it existed", {"serial": sn, "new": steps == [2],
                                                                                      "type": type(x).__name__}, observed=got, expected=exp)
                    if len(set(live)) == len(live):     # the model matches objects by serial number: comparable only while they are unique
                        reqs.append(f"history {sn} 0")
                        impl.append("[" + ",".join(f"({k[0]},{k[1]}):{v}" for k, v in got) + "]")
                        cases.append({"serials": "B", "serial": sn})
                    ctx.case(("serial-history", sn, len(steps)))
                dbb.close(True)
            ctx.count("serials: objects created after a load", len(new_objs))
    finally:
        pc.GLOBAL_SERIAL_NUM = max(saved, pc.GLOBAL_SERIAL_NUM)     # never hand out a serial twice in this process
    model = lean_run("SnapStore", reqs)
    ctx.compare("SnapStore.history vs Database.getHistories across a load in a fresh process", cases, model, impl)


# --------------------------------------------------------------------------- (3) crash points
MAIN, FAULT, DBI = 1, 2, 0


def crash_classes():
    from armi import interfaces

    class Boom(Exception):
        pass

    class Fault(interfaces.Interface):
        name = "fault"

        def __init__(self, r, cs, failAt, kind="exception"):
            super().__init__(r, cs)
            self.failAt, self.k, self.calls, self.kind = failAt, 0, [], kind

        def _m(self, hook):
            self.k += 1
            self.r.core.p.keff = float(self.k)     # the state "just before the failure"
            self.calls.append((hook, int(self.r.p.cycle), int(self.r.p.timeNode)))
            if self.k == self.failAt:
                # the KIND of abort: an ordinary exception, or a BaseException that is not an Exception
                if self.kind == "SystemExit":
                    import sys
                    sys.exit(3)
                if self.kind == "KeyboardInterrupt":
                    raise KeyboardInterrupt()
                raise Boom(f"{hook} call {self.k}")

        def interactBOL(self): self._m("BOL")
        def interactBOC(self, cycle=None): self._m("BOC")
        def interactEveryNode(self, cycle, node): self._m("EveryNode")
        def interactCoupled(self, it): self._m("Coupled")
        def interactEOC(self, cycle=None): self._m("EOC")
        def interactEOL(self): self._m("EOL")

    return Boom, Fault


QUIET = (4, 5)


def gen_variant(rng, main=None):
    """An interface stack around the fault: main (usually), the database interface, the fault, 0-2 bystanders, in a random order
    (main before the database interface: it opens the file), with random enabled / bolForce / reverseAtEOL flags."""
    ids = [DBI, FAULT] + [q for q in QUIET if rng.random() < 0.5]
    rng.shuffle(ids)
    if (rng.random() < 0.8) if main is None else main:
        ids.insert(rng.randint(0, ids.index(DBI)), MAIN)
    out = []
    for i in ids:
        e = {"id": i, "enabled": True, "bolForce": False, "reverse": rng.random() < 0.3, "coupler": False}
        if i in QUIET or (i == FAULT and rng.random() < 0.2):
            e["enabled"], e["bolForce"] = rng.random() < 0.6, rng.random() < 0.5
        out.append(e)
    return out


def shape_cfg(shape, pos):
    """pos: 0/1/2 = the fault before main / between main and database / after database in the plain stack; or a variant
    (list of stack entries, see gen_variant)."""
    nC, bs, coupling, skip = shape
    if isinstance(pos, list):
        stack = [dict(e) for e in pos]
    else:
        order = [MAIN, DBI]
        order.insert(pos, FAULT)
        stack = [{"id": i, "enabled": True, "bolForce": False, "reverse": False, "coupler": False} for i in order]
    return {"detailed": False, "nCycles": nC, "burnSteps": [bs] * nC, "startCycle": 0, "startNode": 0, "stack": stack,
            "deferred": [], "deferredCycle": 0, "coupling": coupling, "maxIters": 2, "skip": list(skip), "halt": [], "conv": []}


ABORT_KINDS = ("exception", "SystemExit", "KeyboardInterrupt")


def real_crash(shape, pos, failAt, kind="exception"):
    """Run the real operator; returns (summary string of the file left behind, fault call log, crashed?)."""
    import h5py
    from armi.bookkeeping.db import Database

    Boom, Fault = crash_classes()
    nC, bs, coupling, skip = shape
    o, r = load_small({"nCycles": nC, "burnSteps": bs, "startCycle": 0, "startNode": 0, "db": True,
                       "tightCoupling": coupling, "tightCouplingMaxNumIters": 2,
                       # the exempt cycles spelled as a user may: str / float / int entries, all converted by int()
                       "cyclesSkipTightCouplingInteraction": [(str(c), float(c), int(c))[(k + nC + bs) % 3] for k, c in enumerate(skip)]})
    for i in list(o.interfaces):
        if i.name not in ("main", "database"):
            o.removeInterface(i)
    names = [i.name for i in o.interfaces]
    if names != ["main", "database"]:
        raise common.Infra(f"unexpected default stack {names}")
    f = Fault(r, o.cs, failAt, kind)
    if isinstance(pos, list):
        from armi import interfaces
        from armi.bookkeeping.mainInterface import MainInterface
        from armi.bookkeeping.db.databaseInterface import DatabaseInterface

        class Quiet(interfaces.Interface):
            name = "quiet"

            def __init__(self, r, cs, ident):
                self.name = f"quiet{ident}"
                super().__init__(r, cs)
        o.removeAllInterfaces()
        for e in pos:
            i = (MainInterface(r, o.cs) if e["id"] == MAIN else DatabaseInterface(r, o.cs) if e["id"] == DBI
                 else f if e["id"] == FAULT else Quiet(r, o.cs, e["id"]))
            o.addInterface(i, reverseAtEOL=e["reverse"], enabled=e["enabled"], bolForce=e["bolForce"])
    else:
        o.addInterface(f, index=pos)
    r.p.cycle, r.p.timeNode = 0, 0
    fn = o.cs.caseTitle + ".h5"
    if os.path.exists(fn):
        os.remove(fn)
    crashed = False
    try:
        with common.quiet():
            with o:
                o.operate()
    except (Boom, SystemExit, KeyboardInterrupt):
        crashed = True
    except Exception as e:  # noqa  -- the run failed by itself (not the injected fault)
        crashed = True
        unexpected = repr(e)[:300]
    else:
        unexpected = None
    extra = {}
    if crashed and "unexpected" in dir() and locals().get("unexpected"):
        extra["unexpected"] = unexpected
    try:   # every Operator makes itself a fresh FAST_PATH directory; remove this run's
        from armi import context
        fp = context.getFastPath()
        if os.path.isdir(fp) and os.path.abspath(fp) != os.path.abspath(os.getcwd()):
            import shutil
            shutil.rmtree(fp, ignore_errors=True)
    except Exception:  # noqa
        pass
    if extra.get("unexpected"):
        if os.path.exists(fn):
            os.remove(fn)
        return "none", f.calls, crashed, extra
    if not os.path.exists(fn):
        return "none", f.calls, crashed, extra
    with h5py.File(fn, "r") as h:
        summ = group_summary(h, objs=("Core/keff",), ids=(0,))
        succ = bool(h.attrs["successfulCompletion"])
        extra["names"] = sorted(k for k in h.keys() if k.startswith("c"))
    # the file opens through the public reader and the error snapshot loads
    with Database(fn, "r") as d2:
        extra["steps"] = [tuple(x) for x in d2.genTimeSteps()]
        if crashed and any(nm.endswith("error") for nm in extra["names"]):
            c, n = f.calls[-1][1], f.calls[-1][2]
            with common.quiet():
                r2 = d2.load(c, n, statePointName="error", cs=o.cs, bp=r.blueprints, allowMissing=True)
            extra["error_state"] = (int(r2.p.cycle), int(r2.p.timeNode), int(r2.core.p.keff))
        eol = [nm for nm in extra["names"] if nm.endswith("EOL")]
        if not crashed and eol:
            # the end-of-life snapshot shares its (cycle, node) with the last node's plain snapshot: each loads as ITS OWN state
            c, n = int(eol[0][1:3]), int(eol[0][4:6])
            with common.quiet():
                ra = d2.load(c, n, statePointName="EOL", cs=o.cs, bp=r.blueprints, allowMissing=True)
                rb = d2.load(c, n, cs=o.cs, bp=r.blueprints, allowMissing=True)
            extra["eol_loaded"] = (int(ra.core.p.keff), int(rb.core.p.keff))
    if not crashed and eol:
        with h5py.File(fn, "r") as h:
            extra["eol_stored"] = (int(h[eol[0]]["Core/keff"][()][0]), int(h[eol[0][:6]]["Core/keff"][()][0]))
    os.remove(fn)
    return f"work=T success={tf(succ)} open=F {summ}", f.calls, crashed, extra


def _pool_init(base):
    """Worker of the crash-run pool: its own working directory and its own fast-path name."""
    import tempfile
    os.chdir(tempfile.mkdtemp(prefix="w", dir=base))
    os.environ["PYTEST_XDIST_WORKER"] = f"w{os.getpid()}"     # part of armi's FAST_PATH name (context.activateLocalFastPath)


def _crash_job(job):
    shape, pos, K, kind = job
    try:
        return real_crash(shape, pos, K, kind)
    except common.Infra:
        raise
    except Exception as e:  # noqa  -- e.g. the operator could not even be built: reported by the oracle, not a harness crash
        return "none", [], True, {"unexpected": "run could not be set up: " + repr(e)[:300]}


def run_crash_jobs(ctx, jobs, base):
    """The real operator runs, in a small process pool (each worker in its own scratch directory); serial if
    VERIF_JOBS=1 or the pool cannot be made. Results come back in job order."""
    n = int(os.environ.get("VERIF_JOBS", "4") or 4)
    if n > 1 and len(jobs) > 8:
        try:
            import multiprocessing as mp
            with mp.get_context("fork").Pool(n, initializer=_pool_init, initargs=(base,)) as pool:
                out = pool.map(_crash_job, jobs, chunksize=4)
            ctx.count("crash runs: pool workers", n)
            return out
        except Exception as e:  # noqa
            ctx.say(f"crash-run pool unavailable ({e!r}); running serially")
    return [_crash_job(j) for j in jobs]


def section_crashes(ctx):
    # (cycles, burn steps, tight coupling, cycles exempt from coupling): with coupling on the database interface writes each
    # node from _performTightCoupling's trailing writeDBEveryNode (also in exempt cycles), not from interactEveryNode
    shapes = ctx.pick([(2, 2, False, ()), (1, 0, False, ()), (2, 1, True, ()), (2, 1, True, (1,)), (2, 2, True, (0, 1))],
                      [(2, 2, False, ()), (1, 0, False, ()), (2, 1, True, ()), (2, 1, True, (1,)), (2, 2, True, (0, 1)),
                       (3, 1, False, ()), (1, 3, True, ()), (3, 1, True, (0, 2)), (1, 0, True, (0,))])
    # model runs first: where are the fault interface's hook calls in the schedule?
    plan = []
    for shape in shapes:
        for pos in (0, 1, 2):
            cfg = shape_cfg(shape, pos)
            plan.append((shape, pos, cfg))
    # arbitrary stacks: bystanders, flags, orders, with and without main
    for vi in range(ctx.pick(5, 20)):
        shape = ctx.rng.choice(shapes)
        var = gen_variant(ctx.rng, main=(vi % 3 != 2))      # every third one without main: the database interface opens the file
        plan.append((shape, var, shape_cfg(shape, var)))
    runs = lean_run("Schedule", [c15.run_request(cfg) for _, _, cfg in plan])
    jobs, meta = [], []
    for si, ((shape, pos, cfg), line) in enumerate(zip(plan, runs)):
        events = c15.parse_log(line)
        fidx = [i for i, e in enumerate(events) if e[1] == FAULT]
        cfgargs = c15.run_request(cfg)[4:]
        ref = c15.parse_log(c15.flat(c15.reference(cfg)))   # the independent reference schedule (oracle)
        sidx = shapes.index(shape)
        points = [(None, "exception")]
        vk = ctx.rng.randint(0, 5) if isinstance(pos, list) else 0
        for K in range(1, len(fidx) + 1):
            ev_ = events[fidx[K - 1]]
            if ev_[0] == "BOC" and ev_[3] >= 1 and shape[1] >= 1 and not ctx.thorough and (isinstance(pos, list) or (K + pos + sidx) % 2 != 0):
                # always: a failure inside a beginning-of-cycle hook of a LATER cycle (the previous cycle ended at a node != 0)
                points.append((K, ABORT_KINDS[(K + sidx) % 3]))
                continue
            if isinstance(pos, list):
                # a generated stack: every second (quick: every third) hook call of the fault, abort kind rotating
                if (K + vk) % ctx.pick(3, 2) == 0:
                    points.append((K, ABORT_KINDS[((K + vk) // 3 + vk) % 3]))
            elif ctx.thorough:
                # every hook call x every kind of abort (ordinary exception, sys.exit, KeyboardInterrupt)
                points += [(K, kind) for kind in ABORT_KINDS]
            elif (K + pos + sidx) % 2 == 0:
                # quick: every second hook call per stack position, offset by position and shape so that every
                # (hook, cycle, node) of every shape is hit at some position; the abort kind rotates
                points.append((K, ABORT_KINDS[(K // 2 + pos + sidx) % 3]))
        for K, kind in points:
            jobs.append((shape, pos, K, kind))
            meta.append((shape, pos, K, kind, fidx, cfgargs, ref))
    reqs, impl, cases = [], [], []
    with common.scratch_dir() as base:
        results = run_crash_jobs(ctx, jobs, base)
    for (shape, pos, K, kind, fidx, cfgargs, ref), (summ, calls, crashed, extra) in zip(meta, results):
        case = {"shape": list(shape), "fault_position": pos, "fail_at_call": K, "abort_kind": kind,
                "fault_call": list(calls[-1]) if calls else None}
        opener = MAIN if (not isinstance(pos, list) or any(e["id"] == MAIN for e in pos)) else DBI
        if K is None:
            reqs.append(f"complete {opener} {FAULT} {cfgargs}")
        else:
            reqs.append(f"crash {opener} {FAULT} {fidx[K - 1]} {cfgargs}")   # the crash path does not depend on the kind
        impl.append(summ); cases.append(case)
        ctx.count("run shape: " + ("tight coupling, exempt cycles " + str(list(shape[3])) if shape[2] else "no coupling"))
        posname = ("in a generated stack" if isinstance(pos, list) else
                   "before main" if pos == 0 else "before database" if pos == 1 else "after database")
        if isinstance(pos, list) and K is None:
            ctx.count("generated stack: " + ("with main" if opener == MAIN else "without main (the database interface opens the file)"))
        ctx.count("crash point: " + (f"{calls[-1][0]} fault {posname}" if K else "complete run"))
        if K:
            ctx.count(f"abort kind: {kind}, fault {posname}")
        ctx.case(("crash", tuple(shape), c15.stack_arg(pos) if isinstance(pos, list) else pos, K, kind), sample=dict(case, file=summ[:200]) if len(ctx.samples) < 5 and K else None)
        # ---- oracle, from the reference schedule and the fault interface's own record
        oracle_crash(ctx, case, shape, pos, K, ref, summ, calls, crashed, extra)
    model = lean_run("SnapStore", reqs)
    ctx.compare("SnapStore.fileAfterCrash/fileAfterRun vs Operator + DatabaseInterface on HDF5", cases, model, impl)
    ctx.traces += len(reqs)


def oracle_crash(ctx, case, shape, pos, K, ref, summ, calls, crashed, extra):
    if extra.get("unexpected"):
        ctx.fail("run-aborts-without-injected-fault", "a run whose interfaces do not fail completes (the database writer must not "
                 "fail by itself)", case, observed=extra["unexpected"])
        return
    coupling = shape[2]
    nodes_expected = sorted(gname(c, n) for c in range(shape[0]) for n in range(shape[1] + 1))
    fcount = 0
    writes, opened, finalised = [], False, False
    reached = set()
    for (hook, ident, args, rc, rn) in ref:
        reached.add(gname(rc, rn))
        if ident == FAULT:
            fcount += 1
            if K is not None and fcount == K:
                break
        if hook == "BOL" and ident == (MAIN if (not isinstance(pos, list) or any(e["id"] == MAIN for e in pos)) else DBI):
            opened = True
        if ident == DBI and ((hook == "EveryNode" and not coupling) or hook == "DbWrite"):
            writes.append(gname(rc, rn))
        if ident == DBI and hook == "EOL":
            writes.append(gname(rc, rn, "EOL"))
            finalised = True
    if K is None:
        if extra.get("eol_loaded") != extra.get("eol_stored"):
            ctx.fail("load-labelled-snapshot-returns-another-snapshot", "the end-of-life snapshot and the last node's snapshot each load as "
                     "their own state", case, observed=extra.get("eol_loaded"), expected=extra.get("eol_stored"))
        if crashed or not summ.startswith("work=T success=T"):
            ctx.fail("complete-run-marked-successful", "a completed run is marked successful", case, observed=summ[:300])
        if extra.get("names") != sorted(writes):
            ctx.fail("complete-run-holds-every-node-plus-EOL", "a completed run holds every node plus the end-of-life state",
                     case, observed=extra.get("names"), expected=sorted(writes))
        # stated directly from the run shape (coupled or not, exempt cycles or not): every (cycle, node) and the EOL state
        want = sorted(nodes_expected + [gname(shape[0] - 1, shape[1], "EOL")])
        if extra.get("names") != want:
            ctx.fail("complete-run-holds-every-node-plus-EOL", "a completed run holds every node plus the end-of-life state",
                     case, observed=extra.get("names"), expected=want)
        return
    if not crashed:
        ctx.fail("fault-not-raised", "the injected failure propagates out of the run", case, observed=summ[:200])
        return
    if not opened:
        return   # before the database was opened: outside the property's window
    if finalised:
        if not summ.startswith("work=T success=T") or extra.get("names") != sorted(writes):
            ctx.fail("failure-after-finalisation-changes-file", "a failure after the database was finalised leaves the completed file",
                     case, observed=summ[:300])
        return
    # the point of failure, from the reference schedule alone: the (cycle, node) of the interaction that failed
    c, n = rc, rn
    if (calls[-1][1], calls[-1][2]) != (c, n):
        ctx.fail("crash-time-state-at-failing-hook", "inside the failing hook the reactor's (cycle, node) is the (cycle, node) of that "
                 "interaction (a beginning-of-cycle hook of a later cycle sees node 0)", case,
                 observed=[calls[-1][0], calls[-1][1], calls[-1][2]], expected=[hook, c, n])
    want = sorted(writes + [gname(c, n, "error")])
    visited = reached       # every (cycle, node) some interaction up to the failure took place at
    stray = [nm for nm in (extra.get("names") or []) if nm[:6] not in visited]
    if stray:
        ctx.fail("crash-file-lists-unvisited-step", "every (cycle, node) the file lists was actually visited by the run; the error snapshot "
                 "is filed at the point of failure", case, observed=stray, expected=gname(c, n, "error"))
    if summ == "none":
        ctx.fail("crash-file-missing", "an aborted run leaves its database file in the working directory", case)
        return
    if not summ.startswith("work=T success=F"):
        ctx.fail("crash-file-marked-successful", "the file of an aborted run is marked as not successfully completed", case, observed=summ[:120])
    if extra.get("names") != want:
        ctx.fail("crash-file-snapshots", "the file holds every snapshot completed before the failure plus the state at the failure",
                 case, observed=extra.get("names"), expected=want)
    if extra.get("error_state") != (c, n, K):
        ctx.fail("crash-error-snapshot-state", "the error snapshot loads and holds the state at the failure (value set just before it), its "
                 "stored cycle / node being its address", case, observed=extra.get("error_state"), expected=(c, n, K))


# --------------------------------------------------------------------------- (4) restart runs: history merged from an earlier database
STAMP = 3


def _stamp_class():
    from armi import interfaces

    class Stamp(interfaces.Interface):
        """Stamps core.p.keff = offset + 100 * cycle + node at every node, before the database interface writes it."""
        name = "stamp"

        def __init__(self, r, cs, off, fail=None):
            super().__init__(r, cs)
            self.off, self.calls, self.fail = off, [], fail

        def interactEveryNode(self, c, n):
            self.r.core.p.keff = float(self.off + 100 * c + n)
            self.calls.append((int(c), int(n)))
            if self.fail and len(self.calls) == self.fail[0]:
                if self.fail[1] == "SystemExit":
                    raise SystemExit(3)
                if self.fail[1] == "KeyboardInterrupt":
                    raise KeyboardInterrupt()
                raise RuntimeError("injected failure")
    return Stamp


def history_settings(bs, detailed):
    if detailed:
        return {"nCycles": len(bs), "cycles": [{"step days": [1.5] * b, "power fractions": [1.0] * b} for b in bs],
                "burnSteps": None, "cycleLength": None, "availabilityFactor": None}
    return {"nCycles": len(bs), "burnSteps": bs[0]}


def _restart_job(job):
    """One real run of main + stamp + database: fresh (restart None) or restarted from `source` at (sc, sn)."""
    import h5py
    from armi.bookkeeping.db import Database
    bs, detailed, coupling, off, source, restart = job[:6]
    fail = job[6] if len(job) > 6 else None
    custom = dict(history_settings(bs, detailed), db=True, tightCoupling=coupling, tightCouplingMaxNumIters=1)
    if restart is not None:
        custom.update(reloadDBName=source, loadStyle="fromDB", startCycle=restart[0], startNode=restart[1])
    out = {"error": None}
    try:
        o, r = load_small(custom)
        for i in list(o.interfaces):
            if i.name not in ("main", "database"):
                o.removeInterface(i)
        st = _stamp_class()(r, o.cs, off, fail)
        o.addInterface(st, index=1)
        fn = o.cs.caseTitle + ".h5"
        if os.path.exists(fn):
            os.remove(fn)
        out["aborted"] = False
        try:
            with common.quiet():
                with o:
                    o.operate()
        except (RuntimeError, SystemExit, KeyboardInterrupt) as e:
            if not fail or (isinstance(e, RuntimeError) and "injected failure" not in str(e)):
                raise
            out["aborted"] = True
        out["calls"] = st.calls
        with h5py.File(fn, "r") as h:
            out["summary"] = group_summary(h, objs=("Core/keff",), ids=(0,))
            out["success"] = bool(h.attrs["successfulCompletion"])
        with Database(fn, "r") as d2:
            out["steps"] = [tuple(x) for x in d2.genTimeSteps()]
        if restart is None:
            os.replace(fn, source)
        else:
            os.remove(fn)
    except common.Infra:
        raise
    except Exception as e:  # noqa
        import traceback
        out["error"] = traceback.format_exc()[-700:]
    try:
        from armi import context
        fp = context.getFastPath()
        if os.path.isdir(fp) and os.path.abspath(fp) != os.path.abspath(os.getcwd()):
            import shutil
            shutil.rmtree(fp, ignore_errors=True)
    except Exception:  # noqa
        pass
    return out


def section_restart(ctx):
    """A completed run, then the same case restarted from its database at EVERY later (cycle, node): the restart run's file must
    hold the steps before the restart point exactly as the first run wrote them (merged, unchanged), every node from the
    restart point on as the NEW run left it, plus the end-of-life state, and be marked successful."""
    shapes = ctx.pick([([2, 2], False, False), ([1, 2, 1], True, True)],
                      [([2, 2], False, False), ([1, 2, 1], True, True), ([1, 1, 1], False, True), ([3, 1], True, False), ([2, 2, 2], False, False)])
    reqs, impl, cases = [], [], []
    with common.scratch_dir() as base:
        firsts = []
        for si, (bs, detailed, coupling) in enumerate(shapes):
            src = os.path.join(os.path.abspath(base), f"first{si}.h5")
            firsts.append((bs, detailed, coupling, 1000, src, None))
        first_res = run_generic_jobs(ctx, _restart_job, firsts, base)
        jobs, meta = [], []
        for si, ((bs, detailed, coupling), f0, fr) in enumerate(zip(shapes, firsts, first_res)):
            nodes = [(c, n) for c in range(len(bs)) for n in range(bs[c] + 1)]
            case = {"restart_shape": [bs, detailed, coupling], "restart": None}
            want = "[" + ",".join(f"{gname(c, n)}:{c}:{n}:{c}:{n}:[[0,{1000 + 100 * c + n}]]" for c, n in nodes) \
                   + f",{gname(*nodes[-1], 'EOL')}:{nodes[-1][0]}:{nodes[-1][1]}:{nodes[-1][0]}:{nodes[-1][1]}:[[0,{1000 + 100 * nodes[-1][0] + nodes[-1][1]}]]]"
            if fr["error"] or fr.get("summary") != want or not fr.get("success"):
                ctx.fail("complete-run-holds-every-node-plus-EOL", "a completed run is marked successful and holds every node plus the "
                         "end-of-life state", case, observed=fr["error"] or [fr.get("summary"), fr.get("success")], expected=want)
                continue
            pts = nodes[1:]
            if not ctx.thorough and len(pts) > 4:      # quick: the first node of a later cycle, a mid-cycle node, the last node + one more
                keep = {pts[0], pts[-1]} | {p_ for p_ in pts if p_[1] == 0} | {p_ for p_ in pts if p_[1] > 0 and p_[0] > 0}
                pts = [p_ for p_ in pts if p_ in keep]
            for pt in pts:
                jobs.append((bs, detailed, coupling, 5000, f0[4], pt))
                meta.append((bs, detailed, coupling, nodes, pt, None))
            # the restarted run ABORTS at its K-th node (in an interface before the database writer): the file must hold the merged
            # history, the nodes completed since, and the error snapshot - marked not successful
            for pt in (pts if ctx.thorough else ctx.rng.sample(pts, min(2, len(pts)))):
                later = [x for x in nodes if x >= pt]
                K = ctx.rng.randint(1, len(later))
                kind = ctx.rng.choice(ABORT_KINDS)
                jobs.append((bs, detailed, coupling, 5000, f0[4], pt, (K, kind)))
                meta.append((bs, detailed, coupling, nodes, pt, (K, kind)))
        results = run_generic_jobs(ctx, _restart_job, jobs, base)
    def rcfg(bs, detailed, coupling, bolset):
        stack = [{"id": i, "enabled": True, "bolForce": False, "reverse": False, "coupler": False} for i in (MAIN, STAMP, DBI)]
        return {"detailed": detailed, "nCycles": len(bs), "burnSteps": bs, "startCycle": 0, "startNode": 0, "stack": stack,
                "deferred": [], "deferredCycle": 0, "coupling": coupling, "maxIters": 1, "skip": [], "halt": [], "conv": [],
                "bolSet": bolset}
    # where in the model's schedule of the restarted run is the failing hook call?
    crash_cfgs = [(i, rcfg(bs, detailed, coupling, [MAIN, pt[0], pt[1]])) for i, (bs, detailed, coupling, nodes, pt, fail) in enumerate(meta) if fail]
    crash_idx = {}
    if crash_cfgs:
        for (i, cfg_), line in zip(crash_cfgs, lean_run("Schedule", [c15.run_request(c_) for _, c_ in crash_cfgs])):
            ev = c15.parse_log(line)
            hits = [j for j, e in enumerate(ev) if e[0] == "EveryNode" and e[1] == STAMP]
            crash_idx[i] = hits[meta[i][5][0] - 1]
    for mi, ((bs, detailed, coupling, nodes, pt, fail), res) in enumerate(zip(meta, results)):
        case = {"restart_shape": [bs, detailed, coupling], "restart": list(pt)}
        if fail:
            case["abort_at_node_call"], case["abort_kind"] = fail
            ctx.case(("restart-crash", tuple(bs), detailed, coupling, pt, fail))
            ctx.count(f"restart run aborted: {fail[1]}" + (", tight coupling" if coupling else ""))
            if res["error"] or not res.get("aborted"):
                ctx.fail("fault-not-raised" if not res["error"] else "restart-run-raises", "the injected failure propagates out of the run",
                         case, observed=res["error"] or res.get("summary"))
                continue
            later = [x for x in nodes if x >= pt]
            X = later[fail[0] - 1]
            def line(c, n, off, label=""):
                return f"{gname(c, n, label)}:{c}:{n}:{c}:{n}:[[0,{off + 100 * c + n}]]"
            want = "[" + ",".join(sorted([line(c, n, 1000 if (c, n) < pt else 5000) for c, n in nodes if (c, n) < X]
                                         + [line(X[0], X[1], 5000, "error")])) + "]"
            if res["summary"] != want:
                ctx.fail("crash-file-snapshots", "the file holds every snapshot completed before the failure (the merged history of a "
                         "restart included) plus the state at the failure", case, observed=res["summary"], expected=want)
            if res["success"]:
                ctx.fail("crash-file-marked-successful", "the file of an aborted run is marked as not successfully completed", case)
            reqs.append(f"restartc {crash_idx[mi]} 1000 5000 {pt[0]} {pt[1]} {MAIN} " + c15.run_request(rcfg(bs, detailed, coupling, None))[4:] + " "
                        + c15.run_request(rcfg(bs, detailed, coupling, [MAIN, pt[0], pt[1]]))[4:])
            impl.append(f"work=T success={tf(res['success'])} open=F {res['summary']}"); cases.append(case)
            continue
        if not res["error"]:
            # model: SnapStore.fileAfterRun of the restarted run, opened with the history merged from the first run's file
            reqs.append(f"restart 1000 5000 {pt[0]} {pt[1]} {MAIN} " + c15.run_request(rcfg(bs, detailed, coupling, None))[4:] + " "
                        + c15.run_request(rcfg(bs, detailed, coupling, [MAIN, pt[0], pt[1]]))[4:])
            impl.append(f"work=T success={tf(res['success'])} open=F {res['summary']}"); cases.append(case)
        ctx.case(("restart", tuple(bs), detailed, coupling, pt), sample=dict(case, file=(res.get("summary") or "")[:160]) if pt == nodes[1] else None)
        ctx.count("restart run: from " + ("the first node of a cycle" if pt[1] == 0 else "the last node of a cycle" if pt[1] == bs[pt[0]] else "a mid-cycle node")
                  + (", tight coupling" if coupling else ""))
        if res["error"]:
            ctx.fail("restart-run-raises", "a run restarted from the database of a completed run of the same case completes", case,
                     observed=res["error"])
            continue
        def line(c, n, off, label=""):
            return f"{gname(c, n, label)}:{c}:{n}:{c}:{n}:[[0,{off + 100 * c + n}]]"
        lines = [line(c, n, 1000 if (c, n) < pt else 5000) for c, n in nodes] + [line(nodes[-1][0], nodes[-1][1], 5000, "EOL")]
        want = "[" + ",".join(sorted(lines)) + "]"
        got = res["summary"]
        if got != want:
            earlier = [l for l in lines if l.split(":")[-1].startswith("[[0,1")]
            key = ("restart-merged-history-exact" if any(l not in got for l in earlier) or got.count("[[0,1") != len(earlier)
                   else "restart-run-holds-every-later-node-plus-EOL")
            ctx.fail(key, "a restart copies exactly the steps before the restart point, unchanged; the finished run then holds every "
                     "node from the restart point on plus the end-of-life state", case, observed=got, expected=want)
        if not res["success"]:
            ctx.fail("complete-run-marked-successful", "a completed run is marked successful", case, observed=res["success"])
        if res["steps"] != nodes + [nodes[-1]]:
            ctx.fail("listing-exact-sorted", "every written snapshot and nothing else is listed, in chronological order", case,
                     observed=res["steps"], expected=nodes + [nodes[-1]])
        if res["calls"] != [x for x in nodes if x >= pt]:
            ctx.fail("restart-run-visits-nodes-from-restart-point", "the restarted run visits every node from the restart point on, once, in order",
                     case, observed=res["calls"], expected=[x for x in nodes if x >= pt])
    model = lean_run("SnapStore", reqs)
    ctx.compare("SnapStore.fileAfterRun (opened = restartStore) vs a real restart run on HDF5", cases, model, impl)
    ctx.traces += len(meta)


def run_generic_jobs(ctx, fn, jobs, base):
    n = int(os.environ.get("VERIF_JOBS", "4") or 4)
    if n > 1 and len(jobs) > 1:
        try:
            import multiprocessing as mp
            with mp.get_context("fork").Pool(min(n, len(jobs)), initializer=_pool_init, initargs=(base,)) as pool:
                return pool.map(fn, jobs, chunksize=1)
        except Exception as e:  # noqa
            ctx.say(f"job pool unavailable ({e!r}); running serially")
    return [fn(j) for j in jobs]


def run(ctx):
    common.import_armi()
    section_absent(ctx)        # first: needs parameters nothing in this process has assigned yet
    section_histories(ctx)
    section_locations(ctx)
    section_moves(ctx)
    section_serials(ctx)
    section_context(ctx)
    section_crashes(ctx)
    section_restart(ctx)
    ctx.rule = ("(1) fixed + generated histories of open/set/write[label]/load/steps/history/merge/split/close on a real Database "
                "(one case = one history; every op's answer compared with the stateful model and judged by the shadow-record oracle); "
                "labels in (1) are drawn from an alphabet with leading digits, dashes, 'n', 'c'; every crash point's error snapshot is "
                "addressed from the reference schedule (a BOC hook of a later cycle is always among the crash points); "
                "(1c) histories by location for several objects after swaps / removals (one case = one history); loads by label through "
                "six routes inside (1); "
                "(1b) forked-child histories in which never-assigned parameters become assigned at random steps, every step written, "
                "histories requested over random subsets of steps x parameters through five entry points (one case = one history); "
                "(4) a completed run restarted from its own database at every later node (one case = one restart run and its file); "
                "(2) reference reactor with two assemblies swapped between writes, block and assembly histories; (3) EVERY hook call of a "
                "fault-injecting interface at EVERY stack position (quick: every second call per position, offset so that every call is hit "
                "at some position, abort kind rotating; thorough: every call x every abort kind) - in the sense: EVERY stack position (before main, between main and database, after database) for each run "
                "shape (cycles x burn steps x coupling), plus the complete run: one case = one real operator run and the file it leaves.")


# --------------------------------------------------------------------------- search / replay
def search(ctx, disagreements, broken):
    """Re-run the disagreeing case's neighbourhood with the oracle only."""
    sub = type(ctx)(ctx.prop, ctx.tier, ctx.seed + 1000)
    out = []
    try:
        section_absent(sub)
        section_histories(sub)
        section_crashes(sub)
    except common.Infra:
        raise
    for f in sub.failures:
        out.append(Failure(f.key, f.clause, f.case, f.observed, f.expected))
    return out


def replay(ctx, payload):
    key, case = payload.get("key"), payload.get("case", {})
    sub = type(ctx)(ctx.prop, "quick", ctx.seed)
    common.import_armi()
    if isinstance(case, dict) and "absent_history" in case:
        with common.scratch_dir():
            section_absent(sub, only=case["absent_history"])
    elif isinstance(case, dict) and "ops" in case:
        with common.scratch_dir():
            o, r = load_small({"db": True})
            real = RealHistory(o, r, 0)
            real.trace = []
            for op in case["ops"]:
                op = tuple(op)
                real.trace.append(list(op))
                real.op(sub, op)
                if getattr(real, "broken", False):
                    break
    elif isinstance(case, dict) and "restart_shape" in case:
        section_restart(sub)
    elif isinstance(case, dict) and "shape" in case:
        shape, pos, K = tuple(case["shape"]), case["fault_position"], case["fail_at_call"]
        cfg = shape_cfg(shape, pos)
        ref = c15.parse_log(c15.flat(c15.reference(cfg)))
        with common.scratch_dir():
            summ, calls, crashed, extra = real_crash(shape, pos, K, case.get("abort_kind", "exception"))
        oracle_crash(sub, case, shape, pos, K, ref, summ, calls, crashed, extra)
    else:
        run(sub)
    hit = [f for f in sub.failures if f.key == key]
    return hit[0].to_json() if hit else None
