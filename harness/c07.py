"""C07 - grid indices, ring/position, labels and coordinates are consistent bijections.

Theorems: lean/ArmiVerif/Props/C07.lean (+ C07Grid.lean for the affine/bounds/Cartesian part).
Tie: exhaustive correspondence of every hex cell within N rings (both orientations, 3 pitches)
with Model/Hex.lean, numRingsToHoldNumCells vs the Nat.sqrt model, Cartesian cells, generated
bounds grids and nestings with Model/Grid.lean; implementation-side oracle = the bijection /
affine clauses evaluated on the real Grid API.
"""
import math

import numpy as np

from harness import c07grid
from harness.common import Failure, lean_run

PROP_MODULES = ["ArmiVerif.Props.C07", "ArmiVerif.Props.C07Grid"]
PARTIAL = ("coordinates are compared up to floating-point rounding (1e-9 relative); sqrt(3) handled "
           "algebraically (integer coefficient basis); float sqrt in numRingsToHoldNumCells modelled by Nat.sqrt, "
           "tie stated for n < 2^50; generic grids: geomType/symmetry string normalisation (GeomType/SymmetryType.fromAny) "
           "is exercised, not modelled; theta-R-Z x/y conversion is modelled with cos/sin as parameters; reduce() of a grid "
           "mixing a 2-D step matrix with a bounds dimension is a known finding (grid-reduce-mixed-step-bounds), the "
           "round-trip theorem covers the other well-formed grids")
ASSUMPTIONS = [
    "math.sqrt in numRingsToHoldNumCells is modelled by the exact integer square root; agreement checked "
    "exhaustively for small n and at every ring boundary sampled",
    "labels: Grid.getLabel ({:03d} formatting incl. sign and widths > 3) and locatorLabelToIndices are modelled over the "
    "alphabet {'-', digits, other}; the tie sends labels made of digits and '-' only (Python int() also accepts "
    "whitespace, '+', '_' and non-ASCII digits, which no label produced by armi contains)",
    "labels: the decoder follows the repaired code (9ee1acd: grammar (-?\\d+)(?:-(-?\\d+))*, a dash that opens the label or "
    "follows a separator is a sign); label_roundtrip covers ALL integer indices",
    "generic grids (Model/Grid.lean): geomType / symmetry strings are passed to the model already normalised "
    "(str(GeomType.fromAny(x)), str(SymmetryType.fromAny(x))); idempotence of that normalisation is exercised by the "
    "rebuild oracle, not modelled",
    "hexagon.SQRT3 enters hexChangePitch as a rational parameter (exact value of the double); the theta-R-Z x/y "
    "conversion takes cos(theta), sin(theta) as parameters (exact values of math.cos/math.sin doubles)",
    "reduce() of a grid mixing a 2-D unit-step matrix with a bounds dimension cannot be rebuilt (known finding "
    "grid-reduce-mixed-step-bounds); the model reproduces the failure (theorem reduce_mixed_not_rebuildable)",
]

SQ3 = math.sqrt(3.0)


def hex_cells(nrings):
    n = nrings - 1
    return [(i, j) for i in range(-n, n + 1) for j in range(-n, n + 1) if abs(i + j) <= n]


def impl_coef_xy(cu, pitch, a, b):
    """coordinates from integer coefficients (see Model/Hex.lean coef)."""
    if cu:
        return a * pitch / 2.0, b * SQ3 / 2.0 * pitch
    return a * SQ3 / 2.0 * pitch, b * pitch / 2.0


def run_hex(ctx):
    from armi.reactor import grids
    from armi.utils import hexagon

    N = ctx.pick(30, 150)
    cells = hex_cells(N)
    req, impl, cases = [], [], []
    grid0 = grids.HexGrid.fromPitch(1.0, numRings=0)
    for (i, j) in cells:
        # ring / pos
        try:
            rp = grid0.indicesToRingPos(i, j)
            rps = f"({rp[0]},{rp[1]})"
        except Exception as e:  # noqa
            rp, rps = None, "reject"
        req.append(f"ringpos {i} {j}"); impl.append(rps); cases.append(("ringpos", i, j))
        if rp is not None:
            try:
                ij = grid0.getIndicesFromRingAndPos(*rp)
                ijs = f"({ij[0]},{ij[1]})"
            except Exception:
                ij, ijs = None, "reject"
            req.append(f"fromringpos {rp[0]} {rp[1]}"); impl.append(ijs); cases.append(("fromringpos",) + tuple(rp))
            # oracle clauses on the real API (independent of the model)
            if ij != (i, j):
                ctx.fail("hex-ringpos-left-inverse", "fromRingPos(toRingPos(i,j)) == (i,j)", {"i": i, "j": j},
                         observed=ij, expected=(i, j))
            d = max(abs(i), abs(j), abs(i + j)) + 1
            if rp[0] != d:
                ctx.fail("hex-ring-is-distance", "ring == hex distance + 1", {"i": i, "j": j}, observed=rp[0], expected=d)
            npos = hexagon.numPositionsInRing(rp[0])
            if not (1 <= rp[1] <= npos):
                ctx.fail("hex-pos-range", "1 <= pos <= positions in ring", {"i": i, "j": j}, observed=rp, expected=npos)
            # labels
            lab = grid0.getLabel((i, j, 3))
            back = grids.locatorLabelToIndices(lab)
            if tuple(back) != (rp[0], rp[1], 3):
                ctx.fail("hex-label-roundtrip", "label -> indices gives (ring,pos,k)", {"i": i, "j": j},
                         observed=[lab, back], expected=[rp[0], rp[1], 3])
            lab2 = grid0.getLabel((i, j))
            if tuple(grids.locatorLabelToIndices(lab2)) != (rp[0], rp[1], None):
                ctx.fail("hex-label-roundtrip", "2-index label -> (ring,pos,None)", {"i": i, "j": j}, observed=lab2)
        nb = grid0.getNeighboringCellIndices(i, j, 0)
        req.append(f"neigh {i} {j}")
        impl.append("[" + ",".join(f"({a},{b})" for a, b, _ in nb) + "]")
        cases.append(("neigh", i, j))
        ctx.case(("hexcell", i, j), nontrivial=True, sample={"cell": [i, j], "ringpos": rp} if (i, j) in ((2, -3), (-7, 4)) else None)
    # right inverse: every (ring,pos) in range -> cell -> same (ring,pos); plus out-of-range rejections
    seen = 0
    for ring in range(1, N + 1):
        npos = hexagon.numPositionsInRing(ring)
        for pos in range(1, npos + 1):
            ij = grid0.getIndicesFromRingAndPos(ring, pos)
            if tuple(grid0.indicesToRingPos(*ij)) != (ring, pos):
                ctx.fail("hex-ringpos-right-inverse", "toRingPos(fromRingPos(r,p)) == (r,p)", {"ring": ring, "pos": pos},
                         observed=grid0.indicesToRingPos(*ij))
            seen += 1
        req.append(f"posinring {ring}"); impl.append(str(npos)); cases.append(("posinring", ring))
        req.append(f"totalupto {ring}"); impl.append(str(hexagon.totalPositionsUpToRing(ring))); cases.append(("totalupto", ring))
    if seen != hexagon.totalPositionsUpToRing(N):
        ctx.fail("hex-ring-size", "sum of ring sizes == totalPositionsUpToRing", {"N": N}, observed=seen)
    for pos in (0, 2, -1):
        try:
            r = grid0.getIndicesFromRingAndPos(1, pos)
            s = f"({r[0]},{r[1]})"
        except ValueError:
            s = "reject"
        req.append(f"fromringpos 1 {pos}"); impl.append(s); cases.append(("fromringpos", 1, pos))
    ctx.count("hex cells (index level)", len(cells))

    # coordinates: both orientations x pitches, against integer coefficients
    Nc = ctx.pick(20, 60)
    ccells = hex_cells(Nc)
    coef_req, coef_cases = [], []
    for cu in (False, True):
        for (i, j) in ccells:
            coef_req.append(f"coef {'T' if cu else 'F'} {i} {j}"); coef_cases.append((cu, i, j))
    coefs = lean_run("Hex", coef_req)
    coefmap = {}
    for (cu, i, j), line in zip(coef_cases, coefs):
        a, b = line.strip("()").split(",")
        coefmap[(cu, i, j)] = (int(a), int(b))
    ncoord = 0
    for cu in (False, True):
        for pitch in (1.0, 2.5, 16.142):
            g = grids.HexGrid.fromPitch(pitch, numRings=0, cornersUp=cu)
            if g.cornersUp != cu or abs(g.pitch - pitch) > 1e-12 * pitch:
                ctx.fail("hex-pitch-meta", "grid reports the orientation/pitch it was built with", {"cu": cu, "pitch": pitch},
                         observed=[g.cornersUp, g.pitch])
            for (i, j) in ccells:
                x, y, z = g.getCoordinates((i, j, 0))
                a, b = coefmap[(cu, i, j)]
                ex, ey = impl_coef_xy(cu, pitch, a, b)
                tol = 1e-9 * pitch * max(1, Nc)
                ncoord += 1
                if abs(x - ex) > tol or abs(y - ey) > tol or z != 0.0:
                    ctx.disagree("Hex.coef vs HexGrid.getCoordinates", {"cu": cu, "pitch": pitch, "i": i, "j": j},
                                 [ex, ey], [x, y, z])
                # oracle: neighbours one pitch away, CCW by 60 degrees
                angs = []
                for (a2, b2, _k) in g.getNeighboringCellIndices(i, j, 0):
                    xx, yy, _ = g.getCoordinates((a2, b2, 0))
                    dd = math.hypot(xx - x, yy - y)
                    if abs(dd - pitch) > 1e-9 * pitch * max(1, Nc):
                        ctx.fail("hex-neighbour-distance", "listed neighbour lies one pitch away",
                                 {"cu": cu, "pitch": pitch, "i": i, "j": j, "n": [a2, b2]}, observed=dd, expected=pitch)
                    angs.append(math.atan2(yy - y, xx - x))
                for k in range(6):
                    da = (angs[(k + 1) % 6] - angs[k]) % (2 * math.pi)
                    if abs(da - math.pi / 3) > 1e-7:
                        ctx.fail("hex-neighbour-ccw", "consecutive neighbours are 60 degrees apart counter-clockwise",
                                 {"cu": cu, "pitch": pitch, "i": i, "j": j, "k": k}, observed=da)
                first = angs[0] % (2 * math.pi)
                want = math.pi / 3 if cu else math.pi / 6
                if abs(first - want) > 1e-7:
                    ctx.fail("hex-neighbour-start", "first neighbour in the 30 (flats up) / 60 (corners up) degree direction",
                             {"cu": cu, "i": i, "j": j}, observed=first, expected=want)
    ctx.count("hex coordinate evaluations", ncoord)
    ctx.evaluations += ncoord

    # changePitch rescales coordinates and nothing else
    for cu in (False, True):
        g = grids.HexGrid.fromPitch(1.25, numRings=2, cornersUp=cu, symmetry="third periodic")
        before = {c: g.getCoordinates((c[0], c[1], 0)) for c in ccells[:400]}
        meta = (g.cornersUp, str(g.symmetry), g._geomType, g.getIndexBounds())
        labels = [g.getLabel((c[0], c[1], 0)) for c in ccells[:400]]
        g.changePitch(3.75)
        if (g.cornersUp, str(g.symmetry), g._geomType, g.getIndexBounds()) != meta or \
                labels != [g.getLabel((c[0], c[1], 0)) for c in ccells[:400]]:
            ctx.fail("hex-changepitch-meta", "changing the pitch changes nothing but coordinates", {"cu": cu})
        for c, xyz in before.items():
            now = g.getCoordinates((c[0], c[1], 0))
            if np.abs(now - 3.0 * xyz).max() > 1e-9 * (1 + np.abs(xyz).max()):
                ctx.fail("hex-changepitch-scale", "changePitch scales coordinates by new/old", {"cu": cu, "cell": c},
                         observed=list(now), expected=list(3.0 * xyz))

    # least number of rings
    nmax = ctx.pick(20000, 300000)
    ns = list(range(0, nmax))
    rs = list(range(1, ctx.pick(2000, 20000))) + [10 ** 5, 10 ** 6, 3 * 10 ** 6, 10 ** 7]
    for r in rs:
        t = 1 + 3 * r * (r - 1)
        ns += [t - 1, t, t + 1]
    ns = [n for n in ns if 0 <= n < 2 ** 50]
    for n in ns:
        v = hexagon.numRingsToHoldNumCells(n)
        req.append(f"numrings {n}"); impl.append(str(v)); cases.append(("numrings", n))
        if n > 0:
            if not (v >= 1 and hexagon.totalPositionsUpToRing(v) >= n and (v <= 1 or hexagon.totalPositionsUpToRing(v - 1) < n)):
                ctx.fail("hex-numrings-least", "numRingsToHoldNumCells(n) is the least ring count holding n cells",
                         {"n": n}, observed=v)
    ctx.count("numRings inputs", len(ns))

    model = lean_run("Hex", req)
    ctx.compare("Model/Hex.lean vs HexGrid/hexagon", cases, model, impl)
    ctx.evaluations += len(req)
    ctx.samples.append({"request": req[0], "model": model[0], "impl": impl[0]})
    ctx.samples.append({"request": req[-1], "model": model[-1], "impl": impl[-1]})
    return N


def run(ctx):
    N = run_hex(ctx)
    c07grid.run(ctx)
    ctx.exhaustive = True
    ctx.rule = (f"exhaustive: every hex cell within {N} rings (ring/pos both ways, labels, neighbours), "
                "coordinates for both orientations x 3 pitches, numRings for all n below the tier bound plus ring "
                "boundaries; Cartesian cells |i|,|j| <= bound with and without offset; generated bounds grids and "
                "nestings (seeded); every (parent grid kind, child grid kind) pair of 10 grid kinds at depth 2, every radial > axial > "
                "axial triple, seeded nestings of depth 2..4 with owners at non-zero indices; labels of index tuples incl. "
                "values >= 100 / 1000 and negative ones, decoder on strings over digits and '-'. distinct = distinct cells / grid cases; every one is non-trivial (a real API call "
                "compared with the model).")


def search(ctx, disagreements, broken):
    """Directed search: for each disagreeing request evaluate the property clauses on the real code
    in a neighbourhood of the disagreeing cell."""
    from armi.reactor import grids
    from armi.utils import hexagon

    out = []
    g = grids.HexGrid.fromPitch(1.0, numRings=0)
    tried = set()
    for d in disagreements:
        c = d.case
        if isinstance(c, (list, tuple)) and c and c[0] in ("ringpos", "fromringpos", "neigh", "numrings", "posinring", "totalupto"):
            kind = c[0]
            if kind == "numrings":
                for n in range(max(1, c[1] - 50), c[1] + 50):
                    v = hexagon.numRingsToHoldNumCells(n)
                    if not (v >= 1 and hexagon.totalPositionsUpToRing(v) >= n and (v <= 1 or hexagon.totalPositionsUpToRing(v - 1) < n)):
                        out.append(Failure("hex-numrings-least", "least ring count", {"n": n}, observed=v))
                        break
            elif kind in ("posinring", "totalupto"):
                r = c[1]
                cnt = sum(1 for (i, j) in hex_cells(r + 1) if g.indicesToRingPos(i, j)[0] == r)
                if cnt != hexagon.numPositionsInRing(r):
                    out.append(Failure("hex-ring-size", "ring r holds numPositionsInRing(r) cells", {"ring": r},
                                       observed=hexagon.numPositionsInRing(r), expected=cnt))
            else:
                i0, j0 = (c[1], c[2]) if kind != "fromringpos" else (0, 0)
                for i in range(i0 - 3, i0 + 4):
                    for j in range(j0 - 3, j0 + 4):
                        if (i, j) in tried:
                            continue
                        tried.add((i, j))
                        try:
                            rp = g.indicesToRingPos(i, j)
                            ij = g.getIndicesFromRingAndPos(*rp)
                        except Exception as e:
                            out.append(Failure("hex-ringpos-left-inverse", "ring/pos of a cell is invertible",
                                               {"i": i, "j": j}, observed=repr(e)))
                            continue
                        if tuple(ij) != (i, j):
                            out.append(Failure("hex-ringpos-left-inverse", "fromRingPos(toRingPos(i,j)) == (i,j)",
                                               {"i": i, "j": j}, observed=ij))
                        if rp[0] != max(abs(i), abs(j), abs(i + j)) + 1:
                            out.append(Failure("hex-ring-is-distance", "ring == hex distance + 1", {"i": i, "j": j}, observed=rp[0]))
    out += c07grid.search(ctx, disagreements, broken)
    return out


def replay(ctx, payload):
    """Re-evaluate the recorded clause on the real code."""
    from armi.reactor import grids
    from armi.utils import hexagon

    key, case = payload["key"], payload["case"]
    g = grids.HexGrid.fromPitch(1.0, numRings=0)
    if key == "hex-ringpos-left-inverse":
        try:
            rp = g.indicesToRingPos(case["i"], case["j"])
            ij = g.getIndicesFromRingAndPos(*rp)
        except Exception as e:
            return {"observed": repr(e)}
        return None if tuple(ij) == (case["i"], case["j"]) else {"observed": ij}
    if key == "hex-ring-is-distance":
        i, j = case["i"], case["j"]
        r = g.indicesToRingPos(i, j)[0]
        return None if r == max(abs(i), abs(j), abs(i + j)) + 1 else {"observed": r}
    if key == "hex-numrings-least":
        n = case["n"]
        v = hexagon.numRingsToHoldNumCells(n)
        ok = v >= 1 and hexagon.totalPositionsUpToRing(v) >= n and (v <= 1 or hexagon.totalPositionsUpToRing(v - 1) < n)
        return None if ok else {"observed": v}
    # generic: re-run the quick check and report whether the same key fails again
    sub = type(ctx)(ctx.prop, "quick", ctx.seed)
    run(sub)
    hit = [f for f in sub.failures if f.key == key]
    return hit[0].to_json() if hit else None
