"""C07, generic-grid part (Cartesian ring/pos, bounds grids, nesting, reduce). Filled in below."""


def run(ctx):
    return


def search(ctx, disagreements, broken):
    return []
