"""C07, generic-grid part: Cartesian ring/pos, step / bounds coordinates, nesting, reduce, changePitch, labels.

Streams: run_cart_ringpos (exhaustive cells), run_generated (grid kinds x probe indices), run_nesting (system > assembly >
block > pin composites + the reference reactor), run_nesting_kinds (every (parent kind, child kind) pair of 10 grid kinds,
every radial > axial > axial triple, seeded depth 2..4 with owners at non-zero indices, theta-R-Z levels, multi-location
sites, an axial sub-mesh inside a block of the reference reactor; addingIsValid truth table), run_labels (getLabel /
locatorLabelToIndices, function level + round trip + negative-index stream), run_changepitch, run_reduce_sequences.

Model: lean/ArmiVerif/Model/Grid.lean; theorems: lean/ArmiVerif/Props/C07Grid.lean; driver Drivers/Grid.lean.
Called by harness/c07.py (run / search).
"""
import math

import numpy as np

from harness import common
from harness.common import Failure, lean_run

SQRT3 = math.sqrt(3.0)
TOL = 1e-9


# ------------------------------------------------------------------------------------------ encoders
def enc_str(s):
    return "s" + str(s).replace(" ", "+")


def enc_row(row):
    if isinstance(row, (tuple, list, np.ndarray)):
        return common.ratlist(row)
    return common.rat(row)


def enc_args(unitSteps, bounds, limits, offset, geom, sym):
    us = "[" + ",".join(enc_row(r) for r in unitSteps) + "]"
    bs = "[" + ",".join("_" if b is None else common.ratlist(b) for b in bounds) + "]"
    ls = "[" + ",".join(f"[{int(a)},{int(b)}]" for a, b in limits) + "]"
    off = "_" if offset is None else common.ratlist(offset)
    return f"{us} {bs} {ls} {off} {enc_str(geom)} {enc_str(sym)}"


def enc_grid(g):
    """constructor arguments of a live grid, read from its reduce() (used only where reduce itself is
    not the thing under comparison: nesting on real composites)."""
    given = getattr(g, "_verifCtorArgs", None)
    if given is not None:
        return given          # a grid whose reduce() is the known finding (2-D step matrix + bounds): as constructed
    p = g.reduce()
    return enc_args(p.unitSteps, p.bounds, p.unitStepLimits, p.offset, p.geomType, p.symmetry)


def canon_args(p):
    return enc_args(p.unitSteps, p.bounds, p.unitStepLimits, p.offset, p.geomType, p.symmetry)


def ints(ix):
    return "[" + ",".join(str(int(v)) for v in ix) + "]"


def parse_rats(line):
    if line in ("reject", "bad-op"):
        return None
    return [common.unrat(x) for x in common.parse_list(line)]


def close_vec(fl, qs, scale=1.0, tol=TOL):
    if qs is None or fl is None:
        return qs is None and fl is None
    if len(fl) != len(qs):
        return False
    return all(abs(float(f) - float(q)) <= tol * max(1.0, scale, abs(float(q))) for f, q in zip(fl, qs))


# ------------------------------------------------------------------------------------------ Cartesian ring/pos
def run_cart_ringpos(ctx):
    from armi.reactor import grids

    M = ctx.pick(30, 80)
    req, impl, cases = [], [], []
    for through in (True, False):
        g = grids.CartesianGrid.fromRectangle(1.0, 1.0, numRings=1, isOffset=not through)
        t = "T" if through else "F"
        seen = {}
        count = {}
        for i in range(-M, M + 1):
            for j in range(-M, M + 1):
                rp = g.getRingPos((i, j))
                rp = (int(rp[0]), int(rp[1]))
                req.append(f"cartringpos {t} {i} {j}"); impl.append(f"({rp[0]},{rp[1]})"); cases.append(("cartringpos", through, i, j))
                case = {"through": through, "i": i, "j": j}
                if rp in seen:
                    ctx.fail("cart-ringpos-injective", "distinct cells have distinct (ring, pos)", case,
                             observed=[rp, seen[rp]])
                seen[rp] = (i, j)
                n = g.getPositionsInRing(rp[0])
                if not (1 <= rp[1] <= n):
                    ctx.fail("cart-pos-range", "1 <= pos <= getPositionsInRing(ring)", case, observed=rp, expected=n)
                # ring is the Chebyshev distance of the centre (in half pitches for the offset grid)
                want = max(abs(i), abs(j)) + 1 if through else max(abs(2 * i + 1), abs(2 * j + 1)) // 2 + 1
                if rp[0] != want:
                    ctx.fail("cart-ring-is-distance", "ring == Chebyshev distance from the grid centre + 1", case,
                             observed=rp[0], expected=want)
                count[rp[0]] = count.get(rp[0], 0) + 1
                ctx.case(("cartcell", through, i, j))
        full = M if through else M  # rings completely inside the enumerated square
        for ring in range(1, full + 1):
            n = g.getPositionsInRing(ring)
            req.append(f"cartposinring {t} {ring}"); impl.append(str(int(n))); cases.append(("cartposinring", through, ring))
            if count.get(ring, 0) != n:
                ctx.fail("cart-ring-size", "ring r holds getPositionsInRing(r) cells", {"through": through, "ring": ring},
                         observed=count.get(ring, 0), expected=n)
        tot = 0
        totals = [0]
        for ring in range(1, 60):
            tot += g.getPositionsInRing(ring)
            totals.append(tot)
            req.append(f"carttotal {t} {ring}"); impl.append(str(tot)); cases.append(("carttotal", through, ring))
        for n in list(range(-2, ctx.pick(600, 3000))) + [totals[r] + d for r in range(1, 59) for d in (-1, 0, 1)]:
            m = g.getMinimumRings(n)
            req.append(f"cartminrings {t} {n}"); impl.append(str(int(m))); cases.append(("cartminrings", through, n))
            if n >= 1 and not (totals[m] >= n and (m == 1 or totals[m - 1] < n)):
                ctx.fail("cart-minrings-least", "getMinimumRings(n) is the least ring count holding n cells",
                         {"through": through, "n": n}, observed=m)
    model = lean_run("Grid", req)
    ctx.compare("Model/Grid.lean cartRingPos vs CartesianGrid", cases, model, impl)
    ctx.evaluations += len(req)
    ctx.count("cartesian ring/pos cells", 2 * (2 * M + 1) ** 2)


# ------------------------------------------------------------------------------------------ generated grids
def inc_dyadic(rng, n, lo=0.0, step_hi=8.0, bits=3):
    out = [lo]
    for _ in range(n):
        out.append(out[-1] + max(2.0 ** -bits, common.dyadic(rng, 0.125, step_hi, bits)))
    return out


def gen_grid(rng, kind):
    """(class, ctor kwargs as given to the real constructor) -- the model gets exactly these arguments."""
    from armi.reactor import grids

    if kind in ("hexF", "hexC"):
        cu = kind == "hexC"
        pitch = rng.choice([1.0, 2.5, 16.142, common.dyadic(rng, 0.5, 20, 4)])
        us = grids.HexGrid._getRawUnitSteps(pitch, cu)
        n = rng.randint(0, 3)
        sym = rng.choice(["full", "third periodic"])
        off = rng.choice([None, None, (common.dyadic(rng, -2, 2, 3), common.dyadic(rng, -2, 2, 3), common.dyadic(rng, -2, 2, 3))])
        return grids.HexGrid, dict(unitSteps=us, unitStepLimits=((-n, n), (-n, n), (0, 1)), symmetry=sym, geomType="hex", offset=off)
    if kind in ("cart", "cartO"):
        w, h = common.dyadic(rng, 0.5, 4, 3), common.dyadic(rng, 0.5, 4, 3)
        n = rng.randint(1, 3)
        off = (w / 2.0, h / 2.0, 0.0) if kind == "cartO" else rng.choice([None, (0.0, 0.0, 0.0)])
        sym = rng.choice(["full", "quarter reflective", "quarter periodic through center assembly"])
        return grids.CartesianGrid, dict(unitSteps=((w, 0.0, 0.0), (0.0, h, 0.0), (0, 0, 0)),
                                        unitStepLimits=((-n, n), (-n, n), (0, 1)), offset=off, symmetry=sym, geomType="cartesian")
    if kind == "axial":
        n = rng.choice([1, 1, 2, 3, rng.randint(1, 7)])
        if rng.random() < 0.3:
            return grids.AxialGrid, dict(bounds=(None, None, np.arange(n + 1, dtype=np.float64)))   # = fromNCells(n)
        return grids.AxialGrid, dict(bounds=(None, None, inc_dyadic(rng, n)))
    if kind == "axialNp":
        off = rng.choice([None, (0.0, 0.0, common.dyadic(rng, -4, 4, 2))])
        return grids.AxialGrid, dict(bounds=(None, None, np.array(inc_dyadic(rng, rng.randint(1, 7)))), offset=off)
    if kind == "trz":
        nth = rng.randint(1, 6)
        r = rng.random()
        hi = 6.25 if r < 0.7 else 9.0           # some azimuthal meshes run past 2 pi (must be refused there)
        th = [0.0] + sorted({common.dyadic(rng, 0.125, hi, 3) for _ in range(nth)})
        off = None
        if r > 0.85:
            off = (common.dyadic(rng, -2, 2, 2), common.dyadic(rng, 0, 2, 2), common.dyadic(rng, -2, 2, 2))
        return grids.ThetaRZGrid, dict(bounds=(np.array(th), np.array(inc_dyadic(rng, rng.randint(1, 5))),
                                               np.array(inc_dyadic(rng, rng.randint(1, 5)))), geomType="thetarz",
                                       symmetry="full", offset=off)
    if kind == "mixed":
        # 2-D step matrix restricted to the step dimensions + axial bounds (3-D hex / Cartesian mesh)
        w, h = common.dyadic(rng, 0.5, 4, 3), common.dyadic(rng, 0.5, 4, 3)
        sk = common.dyadic(rng, 0, 2, 2)
        n = rng.randint(1, 2)
        return grids.CartesianGrid, dict(unitSteps=((w, 0.0), (sk, h), (0, 0)), bounds=(None, None, inc_dyadic(rng, rng.randint(1, 5))),
                                        unitStepLimits=((-n, n), (-n, n), (0, 1)))
    raise ValueError(kind)


def ctor_args(kw):
    """the six constructor arguments as the model sees them (defaults of StructuredGrid.__init__ filled in)."""
    return (kw.get("unitSteps", (0, 0, 0)), kw.get("bounds", (None, None, None)),
            kw.get("unitStepLimits", ((0, 1), (0, 1), (0, 1))), kw.get("offset", None))


def impl_vec(f, *a, **k):
    try:
        return [float(v) for v in f(*a, **k)]
    except (IndexError, ValueError):
        return None


def probe_indices(rng, g, kw):
    (i0, i1), (j0, j1), (k0, k1) = g.getIndexBounds()
    out = []
    for _ in range(10):
        out.append((rng.randint(i0 - 1, i1 + 1), rng.randint(j0 - 1, j1 + 1), rng.randint(k0 - 1, k1 + 1)))
    out += [(i0, j0, k0), (max(i0, i1 - 1), max(j0, j1 - 1), max(k0, k1 - 1)), (0, 0, 0), (i1 - 2, j1 - 2, k1 - 2), (i1 - 1, j1 - 1, k1 - 2)]
    return out


def run_generated(ctx):
    from armi.reactor import grids

    rng = ctx.rng
    kinds = ["hexF", "hexC", "cart", "cartO", "axial", "axialNp", "trz", "mixed"]
    ngrids = ctx.pick(160, 1200)
    req, cases, impl_vals = [], [], []
    exact_req, exact_impl, exact_cases = [], [], []
    for t in range(ngrids):
        kind = kinds[t % len(kinds)]
        cls, kw = gen_grid(rng, kind)
        g = cls(**kw)
        us, bs, ls, off = ctor_args(kw)
        A = enc_args(us, bs, ls, off, g._geomType, g._symmetry)
        case0 = {"kind": kind, "args": A}
        scale = 1.0
        idxs = probe_indices(rng, g, kw)
        if kind == "trz":
            nth = len(kw["bounds"][0]) - 1
            idxs += [(i, rng.randint(0, len(kw["bounds"][1]) - 2), rng.randint(0, len(kw["bounds"][2]) - 2)) for i in range(nth)]
        for ix in idxs:
            if kind == "trz":
                # mesh coordinates (theta, r, z) of the StructuredGrid layer, before ThetaRZGrid's theta check
                c = impl_vec(grids.StructuredGrid.getCoordinates, g, ix)
            else:
                c = impl_vec(g.getCoordinates, ix)
            b = impl_vec(g.getCellBase, ix)
            tp = impl_vec(g.getCellTop, ix)
            for op, v in (("coords", c), ("base", b), ("top", tp)):
                req.append(f"{op} {A} {ints(ix)}"); impl_vals.append(v); cases.append({**case0, "op": op, "index": list(ix)})
            if kind == "trz":
                trz_case(ctx, g, A, case0, ix, req, impl_vals, cases)
            grid_oracle(ctx, g, kind, case0, ix, c, b, tp)
            ctx.case(("grid", kind, t, ix))
        # metadata
        exact_req.append(f"axialonly {A}"); exact_impl.append("T" if g.isAxialOnly else "F"); exact_cases.append({**case0, "op": "axialonly"})
        if kind != "mixed" and bool(g.isAxialOnly) != expected_axial_only(g):
            ctx.fail("grid-is-axial-only", "isAxialOnly <=> one (i,j) column and at least one axial cell "
                     "(an axial grid with ONE cell is axial-only)", case0, observed=bool(g.isAxialOnly), expected=expected_axial_only(g))
        ib = g.getIndexBounds()
        exact_req.append(f"indexbounds {A}"); exact_impl.append("[" + ",".join(f"[{int(a)},{int(b)}]" for a, b in ib) + "]")
        exact_cases.append({**case0, "op": "indexbounds"})
        # reduce: constructor arguments come back; a grid rebuilt from them is the same grid
        p = g.reduce()
        exact_req.append(f"reduce {A}"); exact_impl.append(canon_args(p)); exact_cases.append({**case0, "op": "reduce"})
        reduce_oracle(ctx, g, cls, p, kind, case0, idxs)
    model = lean_run("Grid", req + exact_req)
    mv, me = model[: len(req)], model[len(req):]
    for c, line, v in zip(cases, mv, impl_vals):
        q = parse_rats(line)
        if line == "bad-op" or not close_vec(v, q):
            ctx.disagree("Model/Grid.lean coordinates vs StructuredGrid", c, line, v)
    ctx.compare("Model/Grid.lean metadata/reduce vs StructuredGrid", exact_cases, me, exact_impl)
    ctx.evaluations += len(model)
    ctx.samples.append({"request": req[0], "model": mv[0], "impl": impl_vals[0]})
    ctx.samples.append({"request": exact_req[2], "model": me[2], "impl": exact_impl[2]})
    ctx.count("generated grids", ngrids)


TAU = math.tau


def trz_case(ctx, g, A, case0, ix, req, impl_vals, cases):
    """ThetaRZGrid.getCoordinates in both forms vs Grid.trzGetCoordinates (cos/sin passed as parameters)."""
    from armi.reactor import grids

    mesh = impl_vec(grids.StructuredGrid.getCoordinates, g, ix)
    native = impl_vec(g.getCoordinates, ix, nativeCoords=True)
    xyz = impl_vec(g.getCoordinates, ix)
    cs, sn = (math.cos(mesh[0]), math.sin(mesh[0])) if mesh is not None else (1.0, 0.0)
    for flag, v in (("T", native), ("F", xyz)):
        req.append(f"trz {common.rat(TAU)} {common.rat(cs)} {common.rat(sn)} {flag} {A} {ints(ix)}")
        impl_vals.append(v); cases.append({**case0, "op": "trz-" + flag, "index": list(ix)})
    case = {**case0, "index": list(ix)}
    if mesh is None:
        if native is not None or xyz is not None:
            ctx.fail("trz-defined", "theta-R-Z coordinates exist only where the mesh coordinates exist", case, observed=[native, xyz])
        return
    ok = 0.0 <= mesh[0] <= TAU
    ctx.count("theta-R-Z coordinate requests (in range)" if ok else "theta-R-Z coordinate requests (theta outside [0, 2pi])")
    if (native is not None) != ok or (xyz is not None) != ok:
        ctx.fail("trz-theta-range", "coordinates are returned exactly when 0 <= theta <= 2 pi (else ValueError)", case,
                 observed=[native, xyz], expected=mesh[0])
    if ok and native is not None and xyz is not None:
        if native != mesh:
            ctx.fail("trz-native", "native coordinates are the mesh coordinates (theta, r, z)", case, observed=native, expected=mesh)
        r = mesh[1]
        if abs(xyz[0] ** 2 + xyz[1] ** 2 - r * r) > 1e-9 * max(1.0, r * r) or xyz[2] != mesh[2] or \
                abs(xyz[0] * sn - xyz[1] * cs) > 1e-9 * max(1.0, abs(r)):
            ctx.fail("trz-xyz", "Cartesian form lies at radius r on the theta ray, z kept", case, observed=xyz, expected=mesh)
        rp = g.getRingPos(ix)
        if tuple(rp) != (ix[1] + 1, ix[0] + 1) or tuple(g.getIndicesFromRingAndPos(*rp)) != (ix[0], ix[1]):
            ctx.fail("trz-ringpos", "theta-R-Z ring/pos = (j+1, i+1) and inverts", case, observed=rp)


def grid_oracle(ctx, g, kind, case0, ix, c, b, tp):
    """affine / midpoint clauses on the real grid."""
    case = {**case0, "index": list(ix)}
    if c is not None and b is not None and tp is not None:
        mid = [(x + y) / 2.0 for x, y in zip(b, tp)]
        if not close_vec(c, mid):
            ctx.fail("grid-centre-is-midpoint", "centre == (base + top) / 2", case, observed=c, expected=mid)
    nxt = tuple(v + 1 for v in ix)
    bn = impl_vec(g.getCellBase, nxt)
    if tp is not None and bn is not None and not close_vec(tp, bn):
        ctx.fail("grid-top-is-next-base", "top(idx) == base(idx + 1)", case, observed=tp, expected=bn)
    if (tp is None) != (bn is None):
        ctx.fail("grid-top-is-next-base", "top(idx) is defined exactly when base(idx+1) is", case, observed=[tp, bn])
    bounds = g.getBounds()
    off = g.offset
    for d in range(3):
        bd = bounds[d]
        if bd is not None:
            k = ix[d]
            if 0 <= k < len(bd) - 1:
                if c is not None and abs(c[d] - ((bd[k] + bd[k + 1]) / 2.0 + off[d])) > TOL * max(1, abs(c[d])):
                    ctx.fail("grid-bounds-midpoint", "bounds dimension: centre == (b[k] + b[k+1]) / 2 + offset", {**case, "dim": d},
                             observed=c[d])
                if b is not None and abs(b[d] - (bd[k] + off[d])) > TOL * max(1, abs(b[d])):
                    ctx.fail("grid-bounds-base", "bounds dimension: base == b[k] + offset", {**case, "dim": d}, observed=b[d])
            elif k < 0 and c is not None:
                ctx.fail("grid-bounds-negative", "negative index in a bounds dimension is refused", {**case, "dim": d}, observed=c)
    # affine in the step dimensions: second difference vanishes, first difference independent of position
    if kind in ("hexF", "hexC", "cart", "cartO", "mixed") and c is not None:
        for d in (0, 1):
            e = [0, 0, 0]; e[d] = 1
            p1 = impl_vec(g.getCoordinates, tuple(a + q for a, q in zip(ix, e)))
            p0 = impl_vec(g.getCoordinates, (0, 0, ix[2]))
            pe = impl_vec(g.getCoordinates, tuple(e[:2]) + (ix[2],))
            if p1 is None or p0 is None or pe is None:
                continue
            d1 = [x - y for x, y in zip(p1, c)]
            d0 = [x - y for x, y in zip(pe, p0)]
            if not close_vec(d1, d0, scale=max(abs(v) for v in c)):
                ctx.fail("grid-step-affine", "step dimension: coordinates are affine in the index", {**case, "dim": d},
                         observed=d1, expected=d0)
    if kind == "trz" and c is not None and 0.0 <= c[0] <= TAU:
        xyz = impl_vec(g.getCoordinates, ix)
        want = [c[1] * math.cos(c[0]), c[1] * math.sin(c[0]), c[2]]
        if xyz is None or not close_vec(xyz, want):
            ctx.fail("trz-xyz", "theta-R-Z: (x, y, z) == (r cos theta, r sin theta, z)", case, observed=xyz, expected=want)


def same_vec(a, b):
    if a is None or b is None:
        return a is None and b is None
    return len(a) == len(b) and all(x == y for x, y in zip(a, b))


def reduce_oracle(ctx, g, cls, p, kind, case0, idxs):
    key = "grid-reduce-mixed-step-bounds" if kind == "mixed" else "grid-reduce-roundtrip"
    try:
        g2 = cls(*p)
    except Exception as e:  # noqa
        ctx.fail(key, "type(grid)(*grid.reduce()) rebuilds the grid", case0, observed=repr(e)[:200])
        return
    meta = lambda x: (x._geomType, x._symmetry, x.getIndexBounds(), x.isAxialOnly, len(x), type(x).__name__)
    if meta(g) != meta(g2):
        ctx.fail(key, "rebuilt grid has the same metadata", case0, observed=meta(g2), expected=meta(g))
    if canon_args(g2.reduce()) != canon_args(p):
        ctx.fail(key, "reduce of the rebuilt grid gives the same arguments", case0, observed=canon_args(g2.reduce()))
    allidx = list(g.getAllIndices())[:200] + list(idxs)
    native = dict(nativeCoords=True) if kind == "trz" else {}
    for ix in allidx:
        for f in ("getCoordinates", "getCellBase", "getCellTop"):
            kw = native if f == "getCoordinates" else {}
            a, b = impl_vec(getattr(g, f), ix, **kw), impl_vec(getattr(g2, f), ix, **kw)
            if kind == "trz" and f == "getCoordinates":
                from armi.reactor.grids import StructuredGrid as _SG
                a = [a, impl_vec(_SG.getCoordinates, g, ix)]
                b = [b, impl_vec(_SG.getCoordinates, g2, ix)]
                a, b = (None if a == [None, None] else sum([x or [None] for x in a], [])), \
                       (None if b == [None, None] else sum([x or [None] for x in b], []))
            if not same_vec(a, b):
                ctx.fail(key, f"rebuilt grid gives the same {f} for every index", {**case0, "index": list(ix)}, observed=b, expected=a)
                return


# ------------------------------------------------------------------------------------------ nesting
class Chain:
    """a chain of real composites: top (grid-less CoordinateLocation) > ... > leaf."""


def make_composites(rng, flavour):
    """system (placed by a grid-less CoordinateLocation with non-zero origin) > assembly > block > pin."""
    from armi.reactor import grids
    from armi.reactor.composites import Composite

    top = Composite("system")
    origin = (common.dyadic(rng, -200, 200, 2), common.dyadic(rng, -200, 200, 2), common.dyadic(rng, -50, 50, 2))
    if rng.random() < 0.15:
        origin = (0.0, 0.0, 0.0)
    top.spatialLocator = grids.CoordinateLocation(origin[0], origin[1], origin[2], None)
    root = Composite("reactor")
    root.add(top)
    ak = 0
    tiers = rng.random() < 0.45          # a parent grid with several k layers (tiered rack): parent cell at k != 0
    if flavour == "hex":
        pitch = rng.choice([16.142, 8.0, common.dyadic(rng, 2, 20, 3)])
        cu = rng.random() < 0.5
        if tiers:
            nk = rng.randint(2, 5)
            us = [list(r) for r in grids.HexGrid._getRawUnitSteps(pitch, cu)]
            us[2][2] = common.dyadic(rng, 50, 400, 1)                      # dz / dk
            sg = grids.HexGrid(unitSteps=tuple(tuple(r) for r in us), unitStepLimits=((-3, 3), (-3, 3), (0, nk)),
                               armiObject=top, symmetry="third periodic")
            ak = rng.randint(0, nk - 1)
        else:
            sg = grids.HexGrid.fromPitch(pitch, numRings=3, armiObject=top, cornersUp=cu, symmetry="third periodic")
    else:
        w, h = common.dyadic(rng, 2, 20, 3), common.dyadic(rng, 2, 20, 3)
        isOff = rng.random() < 0.5
        if tiers:
            nk = rng.randint(2, 5)
            sg = grids.CartesianGrid(unitSteps=((w, 0.0, 0.0), (0.0, h, 0.0), (0.0, 0.0, common.dyadic(rng, 50, 400, 1))),
                                     unitStepLimits=((-3, 3), (-3, 3), (0, nk)),
                                     offset=(w / 2.0, h / 2.0, 0.0) if isOff else None, armiObject=top)
            ak = rng.randint(0, nk - 1)
        else:
            sg = grids.CartesianGrid.fromRectangle(w, h, numRings=3, isOffset=isOff, armiObject=top)
    top.spatialGrid = sg
    asm = Composite("assembly")
    ai, aj = rng.randint(-3, 3), rng.randint(-3, 3)
    if (ai, aj) == (0, 0) and rng.random() < 0.8:
        ai = rng.choice([-2, 1, 3])                          # mostly away from the central cell
    asm.spatialLocator = sg[ai, aj, ak]
    top.add(asm)
    nb = rng.choice([1, 1, 2, 3, rng.randint(2, 6)])       # one-block assemblies included
    if rng.random() < 0.3:
        ag = grids.AxialGrid.fromNCells(nb, armiObject=asm)
    else:
        ag = grids.AxialGrid(bounds=(None, None, np.array(inc_dyadic(rng, nb, lo=common.dyadic(rng, 0, 4, 2)))), armiObject=asm)
    asm.spatialGrid = ag
    blk = Composite("block")
    blk.spatialLocator = ag[0, 0, rng.randint(0, nb - 1)]
    asm.add(blk)
    depth = rng.choice([3, 4, 4])
    leaf = blk
    if depth == 4:
        if rng.random() < 0.6:
            pg = grids.HexGrid.fromPitch(common.dyadic(rng, 0.5, 2, 4), numRings=2, armiObject=blk, cornersUp=rng.random() < 0.5)
        else:
            pg = grids.CartesianGrid.fromRectangle(common.dyadic(rng, 0.5, 2, 4), common.dyadic(rng, 0.5, 2, 4), numRings=2,
                                                   isOffset=rng.random() < 0.5, armiObject=blk)
        blk.spatialGrid = pg
        pin = Composite("pin")
        r = rng.random()
        if r < 0.7:
            pin.spatialLocator = pg[rng.randint(-2, 2), rng.randint(-2, 2), 0]
        else:
            pin.spatialLocator = grids.CoordinateLocation(common.dyadic(rng, -2, 2, 4), common.dyadic(rng, -2, 2, 4),
                                                          common.dyadic(rng, -1, 1, 4), pg)
        blk.add(pin)
        leaf = pin
    return root, leaf


def expected_axial_only(g):
    """What `isAxialOnly` means, read off the PUBLIC constructor arguments: exactly one (i, j) column (index
    range(0, 1) in both step-defined directions) and at least one cell in k (>= 2 mesh edges when k is
    bounds-defined; an index range longer than one when it is step-defined)."""
    p = g.reduce()
    lim, bnd = p.unitStepLimits, p.bounds

    def upper(d):
        return len(bnd[d]) if bnd[d] is not None else lim[d][1]
    return upper(0) == 1 and upper(1) == 1 and upper(2) > 1


def chain_of(loc):
    out = []
    while loc is not None:
        out.append(loc)
        loc = loc.parentLocation
    return out


def enc_loc(loc, trz=False):
    """one chain element; with trz=True an index locator of a ThetaRZGrid is sent as `T tau cos sin ARGS idx`
    (its getLocalCoordinates goes through ThetaRZGrid.getCoordinates; cos/sin are parameters of the model)."""
    from armi.reactor import grids

    if trz and isinstance(loc.grid, grids.ThetaRZGrid) and not isinstance(loc, grids.CoordinateLocation):
        mesh = impl_vec(grids.StructuredGrid.getCoordinates, loc.grid, loc.indices)
        cs, sn = (math.cos(mesh[0]), math.sin(mesh[0])) if mesh is not None else (1.0, 0.0)
        return f"T {common.rat(TAU)} {common.rat(cs)} {common.rat(sn)} {enc_grid(loc.grid)} {ints(loc.indices)}"
    if isinstance(loc, grids.CoordinateLocation):
        xyz = [float(v) for v in loc.indices]
        if loc.grid is None:
            return f"C {common.ratlist(xyz)}"
        return f"CG {enc_grid(loc.grid)} {common.ratlist(xyz)}"
    if loc.grid is None:
        return f"ID {ints(loc.indices)}"
    return f"I {enc_grid(loc.grid)} {ints(loc.indices)}"


def nesting_case(ctx, leafloc, label, req, impl_vals, cases, exact):
    from armi.reactor import grids

    chain = chain_of(leafloc)
    enc = " ".join(enc_loc(l) for l in chain)
    has_trz = any(isinstance(l.grid, grids.ThetaRZGrid) for l in chain)
    case = {"what": label, "chain": [repr(l) for l in chain],
            "grids": [type(l.grid).__name__ + ("" if l.grid is None else ":" + canon_args(l.grid.reduce())) for l in chain]}
    gc = impl_vec(leafloc.getGlobalCoordinates)
    gb = impl_vec(leafloc.getGlobalCellBase)
    gt = impl_vec(leafloc.getGlobalCellTop)
    for op, v in (("global", gc), ("globalbase", gb), ("globaltop", gt)):
        if op == "global" and has_trz:
            req.append("globalT " + " ".join(enc_loc(l, trz=True) for l in chain))
        else:
            req.append(f"{op} {enc}")
        impl_vals.append(v); cases.append({**case, "op": op})
    # native coordinates: the flag (keyword or positional) must reach every ancestor
    gn = impl_vec(leafloc.getGlobalCoordinates, nativeCoords=True)
    req.append("globalTN T " + " ".join(enc_loc(l, trz=True) for l in chain))
    impl_vals.append(gn); cases.append({**case, "op": "global-native"})
    native_oracle(ctx, case, leafloc, chain, has_trz, gc, gn)
    # oracle: global == local + every ancestor's coordinates
    tot = np.zeros(3)
    ok = True
    for l in chain:
        lc = impl_vec(l.getLocalCoordinates)
        if lc is None:
            ok = False
            break
        tot = tot + np.array(lc)
    if ok and (gc is None or not close_vec(gc, list(tot), scale=float(np.abs(tot).max()))):
        ctx.fail("nested-global-is-sum", "global coordinates == sum of the local coordinates along the parent chain "
                 "(including the grid-less origin of the top-level system)", case, observed=gc, expected=list(tot))
    if gc is not None and gb is not None and gt is not None and not has_trz and \
            not any(isinstance(l, grids.CoordinateLocation) for l in chain[:-1]):
        # base/top compose the same way (the top of the chain contributes its coordinates)
        mid = [(a + b) / 2.0 for a, b in zip(gb, gt)]
        if not close_vec(gc, mid, scale=max(abs(v) for v in gc)):
            ctx.fail("nested-centre-between-base-and-top", "global centre == (global base + global top) / 2", case,
                     observed=gc, expected=mid)
        for d in range(3):
            lo, hi = min(gb[d], gt[d]), max(gb[d], gt[d])
            if not (lo - 1e-9 * max(1, abs(lo)) <= gc[d] <= hi + 1e-9 * max(1, abs(hi))):
                ctx.fail("nested-centre-between-base-and-top", "global centre lies inside [base, top]", {**case, "dim": d},
                         observed=gc[d], expected=[lo, hi])
    # complete indices: one level, only axial-in-radial
    if not isinstance(leafloc, grids.MultiIndexLocation):
        parent = leafloc.parentLocation
        if isinstance(parent, grids.CoordinateLocation) and parent.grid is not None and \
                not isinstance(leafloc, grids.CoordinateLocation) and expected_axial_only(leafloc.grid) and \
                not expected_axial_only(parent.grid):
            # an axial mesh whose owner sits at FREE COORDINATES inside a radial grid: the owner has no indices to add
            # (today numpy refuses the in-place int64 += float64, see Grid.completeIndicesRaises); the property says
            # nothing about this configuration, so it is neither judged nor compared
            ctx.count("complete indices not judged: axial child under a free-coordinate parent inside a grid")
            return
        try:
            ci = [float(v) for v in leafloc.getCompleteIndices()]
        except TypeError as e:
            ctx.fail("complete-indices-raise", "complete indices exist for an index locator under an index-locator (or grid-less) "
                     "parent", case, observed=repr(e)[:200])
            return
        exact.append((f"complete {enc_loc(leafloc)} {enc_loc(parent) if parent is not None else '_'}",
                      common.ratlist(ci), {**case, "op": "complete"}))
        own = [float(v) for v in leafloc.indices]
        adds = False
        if isinstance(leafloc, grids.CoordinateLocation):
            want = [0.0, 0.0, 0.0]
        elif parent is not None and parent.grid is not None and expected_axial_only(leafloc.grid) \
                and not expected_axial_only(parent.grid):
            want = [a + float(b) for a, b in zip(own, parent.indices)]
            adds = True
        else:
            want = own
        if not isinstance(leafloc, grids.CoordinateLocation) and leafloc.grid is not None:
            for gg in {id(leafloc.grid): leafloc.grid, **({id(parent.grid): parent.grid} if parent is not None and parent.grid is not None else {})}.values():
                if bool(gg.isAxialOnly) != expected_axial_only(gg):
                    ctx.fail("grid-is-axial-only", "isAxialOnly <=> one (i,j) column and at least one axial cell "
                             "(an axial grid with ONE cell is axial-only)", {**case, "grid": canon_args(gg.reduce())},
                             observed=bool(gg.isAxialOnly), expected=expected_axial_only(gg))
        if adds:
            if not grids.addingIsValid(leafloc.grid, parent.grid):
                ctx.fail("adding-is-valid-axial-in-radial", "addingIsValid(axial grid, radial grid) is True", case, observed=False)
            try:
                if int(leafloc.i) != 0 or int(leafloc.j) != 0 or not isinstance(leafloc.grid, grids.AxialGrid):
                    # an off-axis locator is not "the assembly's cell"; a Cartesian 1 x 1 x n column numbers its own rings
                    raise NotImplementedError
                rp = tuple(int(v) for v in leafloc.getRingPos())
                wantrp = tuple(int(v) for v in parent.grid.getRingPos(tuple(int(v) for v in parent.indices)))
                if rp != wantrp:
                    ctx.fail("nested-ringpos-is-parent-cell", "ring/pos of a block locator == ring/pos of its assembly's cell",
                             case, observed=rp, expected=wantrp)
            except (NotImplementedError, ValueError):
                pass
            zb = leafloc.grid.getBounds()[2]
            ncell = (len(zb) - 1) if zb is not None else int(leafloc.grid.getIndexBounds()[2][1])
            ctx.count("axial-in-radial nestings with %d axial cell(s)" % min(4, ncell))
            ctx.count("axial-in-radial nestings, parent k %s 0" % ("==" if int(parent.indices[2]) == 0 else "!="))
            if [int(v) for v in ci] != [int(a) + int(b) for a, b in zip(leafloc.indices, parent.indices)]:
                ctx.fail("complete-indices-add-all-three", "complete indices of an axial locator = its indices + ALL of the "
                         "parent's indices (i, j and k)", case, observed=ci,
                         expected=[int(a) + int(b) for a, b in zip(leafloc.indices, parent.indices)])
        if ci != want:
            ctx.fail("complete-indices-axial-only", "complete indices add the parent's indices only for an axial grid "
                     "nested in a non-axial grid", case, observed=ci, expected=want)
        if not isinstance(leafloc, grids.CoordinateLocation) and parent is not None and parent.grid is not None \
                and leafloc.grid is not None:
            adding_truth_table(ctx, case, leafloc, parent, ci, own, exact)


def native_oracle(ctx, case, leafloc, chain, has_trz, gc, gn):
    """`nativeCoords`: global native coordinates are the sum of the NATIVE local coordinates of every level (a theta-R-Z
    level contributes (theta, r, z)); every way of passing the flag agrees; without a theta-R-Z grid in the chain the
    flag changes nothing."""
    from armi.reactor import grids

    for how, v in (("positional True", impl_vec(leafloc.getGlobalCoordinates, True)),
                   ("nativeCoords=False", impl_vec(leafloc.getGlobalCoordinates, nativeCoords=False)),
                   ("positional False", impl_vec(leafloc.getGlobalCoordinates, False))):
        ref = gn if "True" in how else gc
        if not same_vec(v, ref):
            ctx.fail("native-flag-spelling", "getGlobalCoordinates gives one answer per flag value, however the flag is passed",
                     {**case, "how": how}, observed=v, expected=ref)
    tot, ok = np.zeros(3), True
    for l in chain:
        lc = impl_vec(l.getLocalCoordinates, nativeCoords=True)
        lc2 = impl_vec(l.getLocalCoordinates, True)
        if not same_vec(lc, lc2):
            ctx.fail("native-flag-spelling", "getLocalCoordinates(True) == getLocalCoordinates(nativeCoords=True)",
                     {**case, "level": repr(l)}, observed=lc2, expected=lc)
        if isinstance(l.grid, grids.ThetaRZGrid) and not isinstance(l, grids.CoordinateLocation):
            mesh = impl_vec(grids.StructuredGrid.getCoordinates, l.grid, l.indices)
            viaGrid = impl_vec(l.grid.getCoordinates, l.indices, nativeCoords=True)
            if mesh is not None and 0.0 <= mesh[0] <= TAU and (not same_vec(lc, mesh) or not same_vec(viaGrid, mesh)):
                ctx.fail("native-local-is-mesh", "native local coordinates of a theta-R-Z cell are its (theta, r, z)",
                         {**case, "level": repr(l)}, observed=[lc, viaGrid], expected=mesh)
        else:
            plain = impl_vec(l.getLocalCoordinates)
            if not same_vec(lc, plain):
                ctx.fail("native-flag-without-trz", "outside theta-R-Z grids the flag changes nothing (local coordinates)",
                         {**case, "level": repr(l)}, observed=lc, expected=plain)
        if lc is None:
            ok = False
            break
        tot = tot + np.array(lc)
    if ok and (gn is None or not close_vec(gn, list(tot), scale=float(np.abs(tot).max()))):
        ctx.fail("nested-native-global-is-sum", "native global coordinates == sum of the NATIVE local coordinates along the whole "
                 "parent chain (a theta-R-Z ancestor at any height contributes (theta, r, z))", case, observed=gn, expected=list(tot))
    if not has_trz and not same_vec(gn, gc):
        ctx.fail("native-flag-without-trz", "hex / Cartesian / axial chains: same global coordinates with and without the flag",
                 case, observed=gn, expected=gc)
    if has_trz:
        anc = next(n for n, l in enumerate(chain) if isinstance(l.grid, grids.ThetaRZGrid))
        ctx.count("native global coordinates through a theta-R-Z grid %d level(s) above the locator" % min(anc, 3))


def adding_truth_table(ctx, case, loc, parent, ci, own, exact):
    """The contract of `addingIsValid` (axial-only grid inside a grid that is NOT axial-only) on one (child, parent)
    pair, what `addingIsValid` says, and what `getCompleteIndices` actually did, must be one and the same thing."""
    from armi.reactor import grids

    mine_ax, par_ax = expected_axial_only(loc.grid), expected_axial_only(parent.grid)
    contract = mine_ax and not par_ax
    said = bool(grids.addingIsValid(loc.grid, parent.grid))
    pidx = [float(v) for v in parent.indices]
    ctx.count("nesting pair: child grid %s in parent grid %s, parent k %s 0" % (
        "axial-only" if mine_ax else "not axial-only", "axial-only" if par_ax else "not axial-only",
        "==" if pidx[2] == 0 else "!="))
    exact.append((f"addingvalid {enc_loc(loc)} {enc_loc(parent)}", "T" if said else "F", {**case, "op": "addingvalid"}))
    if said != contract:
        ctx.fail("adding-is-valid-contract", "addingIsValid(child grid, parent grid) <=> child grid is axial-only AND the "
                 "parent grid is NOT axial-only", {**case, "child_axial_only": mine_ax, "parent_axial_only": par_ax},
                 observed=said, expected=contract)
    if any(v != 0 for v in pidx):
        summed = [a + b for a, b in zip(own, pidx)]
        did = True if ci == summed else False if ci == own else None
        if did is None or did != contract:
            ctx.fail("complete-indices-follow-adding-is-valid", "getCompleteIndices adds the parent's indices exactly when "
                     "the child grid is axial-only and the parent grid is not (an axial mesh inside an axial mesh keeps "
                     "its own indices)", {**case, "child_axial_only": mine_ax, "parent_axial_only": par_ax,
                                          "own": own, "parent_indices": pidx},
                     observed=ci, expected=summed if contract else own)


# ---- nestings of every kind and depth (child grid axial-only or not) x (parent grid axial-only or not)
NEST_KINDS = ["hexF", "hexC", "cart", "cartO", "trz", "axialB", "axialB", "axialS", "column", "mixed", "oneCell"]
AXIAL_KINDS = ("axialB", "axialS", "column")


def gen_nest_grid(rng, kind, obj):
    """(grid anchored to `obj`, a locator-index chooser).  Axial-only by construction: axialB (AxialGrid, bounds),
    axialS (step-defined k, zero x/y steps), column (a 1 x 1 x n column of a Cartesian step grid).  Not axial-only:
    hex / Cartesian lattices (optionally tiered: several k layers), theta-R-Z, a 3-D Cartesian mesh with axial bounds,
    a step grid with a single cell."""
    from armi.reactor import grids

    def nz(lo, hi):
        v = rng.randint(lo, hi)
        while v == 0:
            v = rng.randint(lo, hi)
        return v

    if kind in ("hexF", "hexC", "cart", "cartO"):
        tiers = rng.random() < 0.6
        nk = rng.randint(2, 5) if tiers else 1
        dz = common.dyadic(rng, 10, 400, 1) if tiers else 0.0
        if kind in ("hexF", "hexC"):
            pitch = rng.choice([16.142, 8.0, common.dyadic(rng, 0.5, 20, 3)])
            us = [list(r) for r in grids.HexGrid._getRawUnitSteps(pitch, kind == "hexC")]
            us[2][2] = dz
            g = grids.HexGrid(unitSteps=tuple(tuple(r) for r in us), unitStepLimits=((-3, 3), (-3, 3), (0, nk)),
                              armiObject=obj, symmetry=rng.choice(["full", "third periodic"]))
        else:
            w, h = common.dyadic(rng, 0.5, 20, 3), common.dyadic(rng, 0.5, 20, 3)
            off = (w / 2.0, h / 2.0, 0.0) if kind == "cartO" else None
            g = grids.CartesianGrid(unitSteps=((w, 0.0, 0.0), (0.0, h, 0.0), (0.0, 0.0, dz)),
                                    unitStepLimits=((-3, 3), (-3, 3), (0, nk)), offset=off, armiObject=obj)
        k = rng.randint(1, nk - 1) if tiers else (0 if rng.random() < 0.8 else nz(-2, 3))   # a cell made on the fly
        return g, (nz(-3, 3), nz(-3, 3), k)
    if kind == "trz":
        nth, nr, nzc = rng.randint(2, 5), rng.randint(2, 4), rng.randint(2, 5)
        th = [0.0] + sorted({common.dyadic(rng, 0.125, 6.25, 3) for _ in range(nth)})
        off = None if rng.random() < 0.7 else (0.0, 0.0, common.dyadic(rng, -2, 2, 2))
        g = grids.ThetaRZGrid(bounds=(np.array(th), np.array(inc_dyadic(rng, nr)), np.array(inc_dyadic(rng, nzc))),
                              offset=off, armiObject=obj)
        return g, (rng.randint(1, len(th) - 2) if len(th) > 2 else 0, rng.randint(1, nr - 1), rng.randint(1, nzc - 1))
    if kind == "axialB":
        n = rng.choice([1, 2, 3, rng.randint(2, 7)])
        r = rng.random()
        if r < 0.3:
            g = grids.AxialGrid.fromNCells(n, armiObject=obj)
        else:
            off = None if r < 0.8 else (0.0, 0.0, common.dyadic(rng, -4, 4, 2))
            g = grids.AxialGrid(bounds=(None, None, np.array(inc_dyadic(rng, n, lo=common.dyadic(rng, 0, 4, 2)))),
                                offset=off, armiObject=obj)
        k = rng.randint(1, n - 1) if n > 1 else 0
        ij = (0, 0) if rng.random() < 0.8 else (nz(-2, 2), nz(-2, 2))
        return g, (ij[0], ij[1], k)
    if kind in ("axialS", "column", "oneCell"):
        n = 1 if kind == "oneCell" else rng.randint(2, 6)
        dz = common.dyadic(rng, 0.5, 30, 2)
        if kind == "axialS":
            us = ((0.0, 0.0, 0.0), (0.0, 0.0, 0.0), (0.0, 0.0, dz))
        else:
            us = ((common.dyadic(rng, 0.5, 4, 2), 0.0, 0.0), (0.0, common.dyadic(rng, 0.5, 4, 2), 0.0), (0.0, 0.0, dz))
        cls = rng.choice([grids.AxialGrid, grids.CartesianGrid])
        g = cls(unitSteps=us, unitStepLimits=((0, 1), (0, 1), (0, n)), armiObject=obj)
        k = rng.randint(1, n - 1) if n > 1 else rng.choice([0, 1])
        ij = (0, 0) if rng.random() < 0.7 else (nz(-2, 2), nz(-2, 2))
        return g, (ij[0], ij[1], k)
    if kind == "mixed":
        w, h = common.dyadic(rng, 0.5, 4, 3), common.dyadic(rng, 0.5, 4, 3)
        n, nzc = rng.randint(1, 2), rng.randint(2, 5)
        zb = inc_dyadic(rng, nzc)
        g = grids.CartesianGrid(unitSteps=((w, 0.0), (0.0, h), (0, 0)), bounds=(None, None, zb),
                                unitStepLimits=((-n, n), (-n, n), (0, 1)), armiObject=obj)
        g._verifCtorArgs = enc_args(((w, 0.0), (0.0, h), (0, 0)), (None, None, zb), ((-n, n), (-n, n), (0, 1)), None,
                                    g._geomType, g._symmetry)
        return g, (nz(-2, 2), nz(-2, 2), rng.randint(1, nzc - 1))
    raise ValueError(kind)


def make_nested(rng, kinds, top_mode):
    """reactor > system > c1 > ... > leaf with one grid per level (`kinds`, outermost first); every owner sits at
    indices that are non-zero in every axis its grid allows.  top_mode: how the outermost system is placed."""
    from armi.reactor import grids
    from armi.reactor.composites import Composite

    top = Composite("system")
    if top_mode == "origin":
        top.spatialLocator = grids.CoordinateLocation(common.dyadic(rng, -200, 200, 2), common.dyadic(rng, -200, 200, 2),
                                                      common.dyadic(rng, -50, 50, 2), None)
    if top_mode != "orphan":
        Composite("reactor").add(top)
    holder, levels = top, []
    for depth, kind in enumerate(kinds):
        g, idx = gen_nest_grid(rng, kind, holder)
        holder.spatialGrid = g
        child = Composite(f"level{depth + 1}")
        if rng.random() < 0.08 and depth < len(kinds) - 1 and kind not in AXIAL_KINDS:
            # an intermediate object placed by free coordinates inside its parent's grid
            child.spatialLocator = grids.CoordinateLocation(common.dyadic(rng, -5, 5, 3), common.dyadic(rng, -5, 5, 3),
                                                            common.dyadic(rng, -5, 5, 3), g)
        else:
            child.spatialLocator = g[idx]
        holder.add(child)
        levels.append(child)
        holder = child
    return top, levels


def run_nesting_kinds(ctx):
    """C07-a: every (child grid axial-only?) x (parent grid axial-only?) combination at depth 2..4, owners at non-zero
    indices, hex (both orientations) / Cartesian / theta-R-Z / axial parents; an axial sub-mesh inside a block of a
    real axially meshed assembly."""
    from armi.reactor import grids

    rng = ctx.rng
    req, impl_vals, cases, exact = [], [], [], []
    combos = [(a, b) for a in (True, False) for b in (True, False)]
    n = ctx.pick(200, 1500)
    nonax = [k for k in NEST_KINDS if k not in AXIAL_KINDS]
    allkinds = sorted(set(NEST_KINDS))
    directed = [[a, b] for a in allkinds for b in allkinds]                       # every (parent kind, child kind) pair
    directed += [[r, a, b] for r in ("hexF", "hexC", "cart", "cartO", "trz") for a in AXIAL_KINDS for b in AXIAL_KINDS]
    # a theta-R-Z grid two and three levels above the locator (blocks of an assembly in a theta-R-Z core, pins in them)
    directed += [["trz", a, b] for a in ("hexF", "cartO", "trz", "mixed") for b in ("axialB", "hexC", "cart", "trz")]
    directed += [["trz", a, "axialB", b] for a in ("hexF", "cart", "axialS") for b in ("hexF", "cartO", "axialB")]
    directed += [[a, "trz", "axialB"] for a in ("hexC", "cart", "axialB")]
    for t in range(n + len(directed)):
        if t < len(directed):
            kinds = list(directed[t])
            depth = len(kinds)
        else:
            depth = 2 + t % 3
            # the innermost (child, parent) pair cycles through the four combinations; outer levels are free
            child_ax, par_ax = combos[(t // 3) % 4]
            kinds = [rng.choice(NEST_KINDS) for _ in range(depth - 2)]
            kinds.append(rng.choice(AXIAL_KINDS) if par_ax else rng.choice(nonax))
            kinds.append(rng.choice(AXIAL_KINDS) if child_ax else rng.choice(nonax))
            if t % 7 == 0 and depth >= 3:
                kinds[-3] = rng.choice(["hexF", "hexC", "cart", "cartO", "trz"])        # radial / x / y
        top, levels = make_nested(rng, kinds, ("origin", "origin", "default", "orphan")[t % 4])
        label = "generated nesting " + ">".join(kinds)
        for lv in levels:
            nesting_case(ctx, lv.spatialLocator, label, req, impl_vals, cases, exact)
        # a multi-location child in the innermost grid: every site composes through the same chain
        inner = levels[-2].spatialGrid if len(levels) >= 2 else top.spatialGrid
        if t % 5 == 0 and kinds[-1] in ("hexF", "hexC", "cart", "cartO"):
            multi = inner[[(rng.randint(-3, 3), rng.randint(-3, 3), 0) for _ in range(rng.randint(1, 4))]]
            for site in multi:
                nesting_case(ctx, site, label + " (site of a MultiIndexLocation)", req, impl_vals, cases, exact)
            ctx.count("multi-location sites in nested grids", len(multi))
        # the whole chain at once: complete indices never look further than the parent
        leaf = levels[-1].spatialLocator
        if not isinstance(leaf, grids.CoordinateLocation):
            par = leaf.parentLocation
            if not (isinstance(par, grids.CoordinateLocation) and par.grid is not None):
                ci = common.ratlist([float(v) for v in leaf.getCompleteIndices()])
                exact.append(("completechain " + " ".join(enc_loc(l) for l in chain_of(leaf)), ci,
                              {"what": label, "op": "completechain", "chain": [repr(l) for l in chain_of(leaf)]}))
        ctx.count("nesting depth %d" % depth)
        ctx.case(("nestkinds", t), sample={"kinds": kinds, "leaf": repr(leaf), "global": impl_vec(leaf.getGlobalCoordinates)} if t == 5 else None)
    # a real axially meshed assembly: an axial sub-mesh inside one of its blocks (radial / axial / axial)
    from harness import c08

    blocks = c08.reference_blocks()
    for b in rng.sample(blocks, ctx.pick(4, 16)):
        comp = b[rng.randrange(len(b))]
        oldg, oldl = b.spatialGrid, comp.spatialLocator
        try:
            nsub = rng.randint(2, 5)
            if rng.random() < 0.5:
                sub = grids.AxialGrid.fromNCells(nsub, armiObject=b)
            else:
                sub = grids.AxialGrid(bounds=(None, None, np.array(inc_dyadic(rng, nsub))), armiObject=b)
            b.spatialGrid = sub
            comp.spatialLocator = sub[0, 0, rng.randint(1, nsub - 1)]
            nesting_case(ctx, comp.spatialLocator, "reference reactor: axial sub-mesh inside a block", req, impl_vals, cases, exact)
            ctx.case(("nestkinds-real", b.getName()), nontrivial=int(b.spatialLocator.k) != 0)
        finally:
            b.spatialGrid, comp.spatialLocator = oldg, oldl
    model = lean_run("Grid", req + [e[0] for e in exact])
    mv, me = model[: len(req)], model[len(req):]
    for c, line, v in zip(cases, mv, impl_vals):
        q = parse_rats(line)
        if line == "bad-op" or not close_vec(v, q, scale=max([1.0] + [abs(float(x)) for x in (q or [])])):
            ctx.disagree("Model/Grid.lean nesting (all kinds) vs IndexLocation", c, line, v)
    ctx.compare("Model/Grid.lean completeIndices/addingIsValid (all kinds) vs locations.py", [e[2] for e in exact], me,
                [e[1] for e in exact])
    ctx.evaluations += len(model)
    ctx.count("nesting chains (all kinds)", len(req) // 4)


def run_nesting(ctx):
    from armi.reactor import grids
    from armi.reactor.flags import Flags

    rng = ctx.rng
    req, impl_vals, cases, exact = [], [], [], []
    n = ctx.pick(120, 800)
    for t in range(n):
        root, leaf = make_composites(rng, "hex" if t % 2 == 0 else "cart")
        loc = leaf.spatialLocator
        nesting_case(ctx, loc, "generated composites", req, impl_vals, cases, exact)
        # every level of the chain is itself a case
        for l in chain_of(loc)[1:]:
            nesting_case(ctx, l, "generated composites (ancestor)", req, impl_vals, cases, exact)
        ctx.case(("nest", t))
    # the real reference reactor: core moved to a non-zero grid-less origin, pins in pin-gridded blocks
    from harness import c08

    blocks = c08.reference_blocks()
    r = c08._REACTOR["r"]
    old = r.core.spatialLocator
    try:
        for origin in ((0.0, 0.0, 0.0), (112.5, -40.25, 7.0)):
            r.core.spatialLocator = grids.CoordinateLocation(origin[0], origin[1], origin[2], None)
            for b in rng.sample(blocks, ctx.pick(3, 12)):
                nesting_case(ctx, b.spatialLocator, "reference reactor block", req, impl_vals, cases, exact)
                nesting_case(ctx, b.parent.spatialLocator, "reference reactor assembly", req, impl_vals, cases, exact)
                pins = b.getPinLocations()
                for pl in rng.sample(pins, min(len(pins), 3)):
                    nesting_case(ctx, pl, "reference reactor pin", req, impl_vals, cases, exact)
                    gc = pl.getGlobalCoordinates()
                    want = np.array(origin) + b.parent.spatialLocator.getLocalCoordinates() + \
                        b.spatialLocator.getLocalCoordinates() + pl.getLocalCoordinates()
                    if np.abs(gc - want).max() > 1e-9 * max(1.0, np.abs(want).max()):
                        ctx.fail("nested-global-is-sum", "pin global coordinates == origin + assembly + block + pin local",
                                 {"origin": origin, "block": b.getName(), "pin": repr(pl)}, observed=list(gc), expected=list(want))
                ctx.case(("nest-real", origin, b.getName()))
    finally:
        r.core.spatialLocator = old
    model = lean_run("Grid", req + [e[0] for e in exact])
    mv, me = model[: len(req)], model[len(req):]
    for c, line, v in zip(cases, mv, impl_vals):
        q = parse_rats(line)
        if line == "bad-op" or not close_vec(v, q, scale=max([1.0] + [abs(float(x)) for x in (q or [])])):
            ctx.disagree("Model/Grid.lean nesting vs IndexLocation", c, line, v)
    ctx.compare("Model/Grid.lean completeIndices vs getCompleteIndices", [e[2] for e in exact], me, [e[1] for e in exact])
    ctx.evaluations += len(model)
    ctx.count("nesting chains", len(req) // 4)
    ctx.samples.append({"request": req[0][:300], "model": mv[0], "impl": impl_vals[0]})


# ------------------------------------------------------------------------------------------ changePitch
def pitch_sequence(rng, p0):
    seq, p = [], p0
    for _ in range(rng.randint(2, 6)):
        r = rng.random()
        if r < 0.45:
            p = p * (1.0 + rng.choice([1, -1]) * 10.0 ** rng.uniform(-6, -3))   # thermal-expansion sized
        elif r < 0.6:
            p = p0                                                              # back to the start
        elif r < 0.8:
            p = p * rng.choice([3.0, 0.5, 1.25])
        else:
            p = common.dyadic(rng, 0.5, 30, 4)
        seq.append(p)
    return seq


def run_changepitch(ctx):
    from armi.reactor import grids

    rng = ctx.rng
    req, impl_vals, cases = [], [], []
    s3 = common.rat(SQRT3)
    cells = [(i, j) for i in range(-3, 4) for j in range(-3, 4)]
    for t in range(ctx.pick(40, 300)):
        cu = t % 2 == 1
        p0 = rng.choice([16.142, 1.0, 8.25, common.dyadic(rng, 0.5, 20, 4)])
        n = rng.randint(0, 3)
        sym = rng.choice(["full", "third periodic"])
        g = grids.HexGrid.fromPitch(p0, numRings=n, cornersUp=cu, symmetry=sym)
        A = enc_args(grids.HexGrid._getRawUnitSteps(p0, cu), (None, None, None), ((-n, n), (-n, n), (0, 1)), None, g._geomType, g._symmetry)
        meta0 = (g.cornersUp, g._symmetry, g._geomType, g.getIndexBounds(), g.isAxialOnly, len(g), tuple(g.offset))
        labels0 = [g.getLabel((c[0], c[1], 0)) for c in cells]
        rp0 = [g.getRingPos((c[0], c[1], 0)) for c in cells]
        seq = pitch_sequence(rng, p0)
        done = []
        for p in seq:
            g.changePitch(p)
            done.append(p)
            case = {"kind": "hex", "cornersUp": cu, "p0": p0, "sequence": list(done)}
            fresh = grids.HexGrid.fromPitch(p, numRings=n, cornersUp=cu, symmetry=sym)
            if abs(g.pitch - p) > 1e-12 * p:
                ctx.fail("changepitch-pitch", "grid.pitch is the requested pitch after changePitch", case, observed=g.pitch, expected=p)
            meta = (g.cornersUp, g._symmetry, g._geomType, g.getIndexBounds(), g.isAxialOnly, len(g), tuple(g.offset))
            if meta != meta0 or labels0 != [g.getLabel((c[0], c[1], 0)) for c in cells] or \
                    rp0 != [g.getRingPos((c[0], c[1], 0)) for c in cells]:
                ctx.fail("changepitch-meta", "changing the pitch changes nothing but coordinates", case, observed=meta, expected=meta0)
            for c in cells:
                ix = (c[0], c[1], 0)
                got = [float(v) for v in g.getCoordinates(ix)]
                want = [float(v) for v in fresh.getCoordinates(ix)]
                if not close_vec(got, want, tol=1e-12):
                    ctx.fail("changepitch-equals-fresh-grid", "after changePitch(p) coordinates equal those of a grid built at p",
                             {**case, "cell": list(c)}, observed=got, expected=want)
                    break
            x0 = g.getCoordinates((1, -1, 0))
            for (a, b, _k) in g.getNeighboringCellIndices(1, -1, 0):
                d = float(np.linalg.norm(g.getCoordinates((a, b, 0)) - x0))
                if abs(d - p) > 1e-9 * p:
                    ctx.fail("changepitch-neighbour-distance", "neighbours are one (new) pitch away", case, observed=d, expected=p)
            ix = (rng.randint(-4, 4), rng.randint(-4, 4), 0)
            req.append(f"hexpitchseq {s3} {common.ratlist(done)} {A} {ints(ix)}")
            impl_vals.append([float(v) for v in g.getCoordinates(ix)]); cases.append({**case, "index": list(ix)})
        ctx.case(("pitch-hex", t))
    for t in range(ctx.pick(40, 300)):
        isOffset = t % 2 == 1
        w0, h0 = common.dyadic(rng, 0.5, 20, 3), common.dyadic(rng, 0.5, 20, 3)
        n = rng.randint(1, 3)
        g = grids.CartesianGrid.fromRectangle(w0, h0, numRings=n, isOffset=isOffset, symmetry="quarter reflective")
        off = (w0 / 2.0, h0 / 2.0, 0.0) if isOffset else None
        A = enc_args(((w0, 0.0, 0.0), (0.0, h0, 0.0), (0, 0, 0)), (None, None, None), ((-n, n), (-n, n), (0, 1)), off, g._geomType, g._symmetry)
        meta0 = (g._symmetry, g._geomType, g.getIndexBounds(), g.isAxialOnly, len(g), g._isThroughCenter())
        rp0 = [g.getRingPos((c[0], c[1])) for c in cells]
        xs, ys = pitch_sequence(rng, w0), None
        ys = [h0 * (x / w0) if rng.random() < 0.5 else common.dyadic(rng, 0.5, 20, 3) for x in xs]
        dx, dy = [], []
        for xw, yw in zip(xs, ys):
            g.changePitch(xw, yw)
            dx.append(xw); dy.append(yw)
            case = {"kind": "cartesian", "isOffset": isOffset, "w0": w0, "h0": h0, "xs": list(dx), "ys": list(dy)}
            fresh = grids.CartesianGrid.fromRectangle(xw, yw, numRings=n, isOffset=isOffset, symmetry="quarter reflective")
            if abs(g.pitch[0] - xw) > 1e-12 * xw or abs(g.pitch[1] - yw) > 1e-12 * yw:
                ctx.fail("changepitch-pitch", "grid.pitch is the requested pitch after changePitch", case, observed=g.pitch)
            meta = (g._symmetry, g._geomType, g.getIndexBounds(), g.isAxialOnly, len(g), g._isThroughCenter())
            if meta != meta0 or rp0 != [g.getRingPos((c[0], c[1])) for c in cells]:
                ctx.fail("changepitch-meta", "changing the pitch changes nothing but coordinates", case, observed=meta, expected=meta0)
            for c in cells:
                ix = (c[0], c[1], 0)
                for f in ("getCoordinates", "getCellBase", "getCellTop"):
                    got = [float(v) for v in getattr(g, f)(ix)]
                    want = [float(v) for v in getattr(fresh, f)(ix)]
                    if not close_vec(got, want, tol=1e-11):
                        ctx.fail("changepitch-equals-fresh-grid", f"after changePitch {f} equals that of a grid built at the new pitch",
                                 {**case, "cell": list(c)}, observed=got, expected=want)
                        break
            ix = (rng.randint(-4, 4), rng.randint(-4, 4), 0)
            req.append(f"cartpitchseq {common.ratlist(dx)} {common.ratlist(dy)} {A} {ints(ix)}")
            impl_vals.append([float(v) for v in g.getCoordinates(ix)]); cases.append({**case, "index": list(ix)})
        ctx.case(("pitch-cart", t))
    model = lean_run("Grid", req)
    for c, line, v in zip(cases, model, impl_vals):
        q = parse_rats(line)
        if line == "bad-op" or not close_vec(v, q):
            ctx.disagree("Model/Grid.lean changePitch vs HexGrid/CartesianGrid.changePitch", c, line, v)
    ctx.evaluations += len(model)
    ctx.count("changePitch steps", len(req))


# ------------------------------------------------------------------------------------------ reduce in sequences
import re

_NUM = re.compile(r"-?\d+(?:/\d+)?")


def close_line(model, impl, tol=1e-9):
    """same skeleton, numbers equal up to tol (hex unit steps carry the rounding of 1.5 * pitch / sqrt 3)."""
    if model == impl:
        return True
    if _NUM.sub("#", model) != _NUM.sub("#", impl):
        return False
    for a, b in zip(_NUM.findall(model), _NUM.findall(impl)):
        x, y = float(common.unrat(a)), float(common.unrat(b))
        if abs(x - y) > tol * max(1.0, abs(x), abs(y)):
            return False
    return True


def vec_str(v):
    return "reject" if v is None else common.ratlist(v)


def grids_equal(ctx, key, case, g, g2, idxs, kind):
    """observable equality of the CURRENT grid and the one rebuilt from its reduce() arguments."""
    from armi.reactor.grids import StructuredGrid as _SG

    meta = lambda x: (x._geomType, x._symmetry, x.getIndexBounds(), bool(x.isAxialOnly), len(x), type(x).__name__)
    if meta(g) != meta(g2):
        ctx.fail(key, "rebuilt grid has the metadata of the current grid", case, observed=meta(g2), expected=meta(g))
        return False
    if [float(v) for v in g.offset] != [float(v) for v in g2.offset]:
        ctx.fail(key, "rebuilt grid has the offset of the current grid", case, observed=list(g2.offset), expected=list(g.offset))
        return False
    for f in ("pitch",):
        try:
            a, b = getattr(g, f), getattr(g2, f)
            a, b = (a() if callable(a) else a), (b() if callable(b) else b)
        except Exception:
            continue
        if a is None or b is None:
            if a is not b:
                ctx.fail(key, "rebuilt grid has the pitch of the current grid", case, observed=b, expected=a)
                return False
            continue
        if np.any(np.array(a, dtype=float) != np.array(b, dtype=float)):
            ctx.fail(key, "rebuilt grid has the pitch of the current grid", case, observed=b, expected=a)
            return False
    for ix in idxs:
        for f in (_SG.getCoordinates, _SG.getCellBase, _SG.getCellTop):
            a, b = impl_vec(f, g, ix), impl_vec(f, g2, ix)
            if not same_vec(a, b):
                ctx.fail(key, f"rebuilt grid gives the current grid's {f.__name__} for every cell",
                         {**case, "index": list(ix)}, observed=b, expected=a)
                return False
    return True


def run_reduce_sequences(ctx):
    """reduce() -> mutate in place -> reduce() -> rebuild, in every order, for every grid kind and mutator."""
    from armi.reactor import grids

    rng = ctx.rng
    s3 = common.rat(SQRT3)
    kinds = ["hexF", "hexC", "cart", "cartO", "axial", "axialNp", "trz"]
    req, impl_lines, cases = [], [], []
    for t in range(ctx.pick(140, 900)):
        kind = kinds[t % len(kinds)]
        cls, kw = gen_grid(rng, kind)
        g = cls(**kw)
        us, bs, ls, off = ctor_args(kw)
        A = enc_args(us, bs, ls, off, g._geomType, g._symmetry)
        idxs = probe_indices(rng, g, kw)[:8]
        probe = idxs[rng.randrange(len(idxs))]
        reduce_first = rng.random() < 0.6
        if reduce_first:
            g.reduce()                       # e.g. a database write before the geometry changes
        tokens, depth, steps_done = [], 0, []
        for step in range(rng.randint(1, 5)):
            choices = ["offset", "backup"] + (["restore"] * 2 if depth else [])
            if kind in ("hexF", "hexC"):
                choices += ["hexpitch"] * 3
            if kind in ("cart", "cartO"):
                choices += ["cartpitch"] * 3
            m = rng.choice(choices)
            if m == "hexpitch":
                p = rng.choice([g.pitch * (1 + 10.0 ** rng.uniform(-6, -3)), common.dyadic(rng, 0.5, 20, 4), g.pitch * 2])
                g.changePitch(p); tokens.append(f"H:{s3}:{common.rat(p)}")
            elif m == "cartpitch":
                xw, yw = common.dyadic(rng, 0.5, 20, 3), common.dyadic(rng, 0.5, 20, 3)
                g.changePitch(xw, yw); tokens.append(f"C:{common.rat(xw)}:{common.rat(yw)}")
            elif m == "offset":
                o = [common.dyadic(rng, -3, 3, 2), common.dyadic(rng, -3, 3, 2), common.dyadic(rng, -3, 3, 2)]
                if rng.random() < 0.25:
                    o = [0.0, 0.0, 0.0]
                g.offset = np.array(o); tokens.append(f"O:{common.ratlist(o)}")
            elif m == "backup":
                g.backUp(); depth += 1; tokens.append("B")
            else:
                g.restoreBackup(); depth -= 1; tokens.append("R")
            steps_done.append(m)
            case = {"kind": kind, "args": A, "reduce_before_mutation": reduce_first, "mutations": list(tokens)}
            p1 = g.reduce()
            p2 = g.reduce()
            if canon_args(p1) != canon_args(p2):
                ctx.fail("grid-reduce-after-mutation", "reduce() is a function of the current state (two calls agree)", case,
                         observed=canon_args(p2), expected=canon_args(p1))
            try:
                g2 = cls(*p1)
                same = grids_equal(ctx, "grid-reduce-after-mutation", case, g, g2, idxs, kind)
            except Exception as e:  # noqa
                ctx.fail("grid-reduce-after-mutation", "type(grid)(*grid.reduce()) rebuilds the current grid", case, observed=repr(e)[:200])
                same = False
            from armi.reactor.grids import StructuredGrid as _SG
            line = " ; ".join([canon_args(p1), vec_str(impl_vec(_SG.getCoordinates, g, probe)), vec_str(impl_vec(_SG.getCellBase, g, probe)),
                               vec_str(impl_vec(_SG.getCellTop, g, probe)), "same" if same else "differs"])
            req.append(f"mutseq {A} {ints(probe)} " + " ".join(tokens)); impl_lines.append(line); cases.append({**case, "index": list(probe)})
            ctx.count("reduce after " + m + (" (reduced before)" if reduce_first else " (first reduce)"))
        ctx.case(("reduceseq", kind, t))
    model = lean_run("Grid", req)
    for c, m, i in zip(cases, model, impl_lines):
        if not close_line(m, i):
            ctx.disagree("Model/Grid.lean mutation sequence + reduce vs StructuredGrid", c, m, i)
    ctx.evaluations += len(req)
    if req:
        ctx.samples.append({"request": req[-1][:400], "model": model[-1][:300], "impl": impl_lines[-1][:300]})


# ------------------------------------------------------------------------------------------ labels
def _label_back(grids, lab):
    try:
        return tuple(grids.locatorLabelToIndices(lab))
    except ValueError:
        return None


def run_labels(ctx):
    """Grid.getLabel / HexGrid.getLabel / locatorLabelToIndices vs Grid.getLabel / labelToIndices of the model
    (function level), round trip on the real pair, and the negative-index stream (known finding)."""
    from armi.reactor import grids

    rng = ctx.rng
    req, impl, cases = [], [], []
    vals = [0, 1, 2, 9, 10, 11, 99, 100, 101, 999, 1000, 1001, 12345, -1, -2, -9, -10, -11, -99, -100, -101, -1000]
    cart = grids.CartesianGrid.fromRectangle(1.0, 1.0, numRings=3)
    tuples = [(a, b) for a in vals for b in vals] + [(a, b, c) for a in vals[:13:2] + [-1, -10] for b in vals[1:13:3] + [-100]
                                                     for c in vals[:13:2] + [-1]]
    tuples += [tuple(rng.choice(vals + [rng.randint(-2000, 20000)]) for _ in range(rng.choice([2, 3]))) for _ in range(ctx.pick(300, 3000))]
    labels = set()
    for ix in tuples:
        lab = cart.getLabel(ix)                 # Grid.getLabel (static; CartesianGrid does not override it)
        req.append(f"getlabel {ints(ix)}"); impl.append("L" + lab); cases.append(("getlabel", ix))
        labels.add(lab)
        back = _label_back(grids, lab)
        want = tuple(ix) if len(ix) == 3 else (ix[0], ix[1], None)
        if min(ix) >= 0:
            ctx.count("label round trips (all indices >= 0)")
            if back != want:
                ctx.fail("label-roundtrip", "locatorLabelToIndices(getLabel(indices)) == indices (third entry None for two "
                         "indices), for indices of any size", {"indices": list(ix), "label": lab}, observed=back, expected=want)
        else:
            ctx.count("labels with a negative index")
            if back != want:
                # repaired in /repo by 9ee1acd: the key must never fire again
                ctx.fail("label-roundtrip-negative-index", "locatorLabelToIndices(getLabel(indices)) == indices for a cell with "
                         "a negative index (Cartesian cells left of / below the centre, negative axial index)",
                         {"indices": list(ix), "label": lab, "grid": "CartesianGrid.fromRectangle(1, 1, numRings=3)"},
                         observed="ValueError" if back is None else back, expected=want)
        ctx.case(("label", ix))
    # hex labels are (ring, pos[, k]): far cells give ring / pos >= 100 and >= 1000
    hexg = grids.HexGrid.fromPitch(1.0, numRings=0)
    far = [(i, j) for i in (0, 1, 57, 99, 100, 333, 999, 1000, 1203) for j in (0, 1, -1, 42, -58, 166, -999, 1000)]
    far += [(rng.randint(-1500, 1500), rng.randint(-1500, 1500)) for _ in range(ctx.pick(200, 2000))]
    for (i, j) in far:
        for k in (None, 0, 7, 100, 1234):
            ix = (i, j) if k is None else (i, j, k)
            ring, pos = hexg.getRingPos(ix)
            lab = hexg.getLabel(ix)
            rp = (int(ring), int(pos)) if k is None else (int(ring), int(pos), k)
            req.append(f"getlabel {ints(rp)}"); impl.append("L" + lab); cases.append(("hexlabel", ix))
            labels.add(lab)
            if ring < 1 or pos < 1:
                ctx.fail("hex-pos-range", "ring, pos >= 1 (hypothesis of label_roundtrip)", {"i": i, "j": j}, observed=[ring, pos])
            back = _label_back(grids, lab)
            want = (int(ring), int(pos), k)
            if back != want:
                ctx.fail("hex-label-roundtrip", "label -> indices gives (ring, pos, k) for rings / positions of any size",
                         {"i": i, "j": j, "k": k, "label": lab}, observed=back, expected=want)
            elif k is not None:
                ij = hexg.getIndicesFromRingAndPos(back[0], back[1])
                if tuple(ij) != (i, j):
                    ctx.fail("hex-label-roundtrip", "label -> (ring, pos) -> indices returns the cell", {"i": i, "j": j, "label": lab},
                             observed=ij)
            ctx.count("hex labels with ring or pos >= 100" if max(ring, pos) >= 100 else "hex labels with ring, pos < 100")
        ctx.case(("hexlabel", i, j))
    # decoder on its own: produced labels, and strings over digits and '-' around them
    pool = sorted(labels)
    strings = set(pool)
    for lab in rng.sample(pool, min(len(pool), ctx.pick(150, 1200))):
        r = rng.random()
        if r < 0.25:
            strings.add(lab[: rng.randint(0, len(lab))])
        elif r < 0.5:
            p = rng.randint(0, len(lab))
            strings.add(lab[:p] + rng.choice("-0123456789") + lab[p:])
        elif r < 0.75:
            strings.add(lab + "-" + str(rng.randint(0, 500)))
        else:
            strings.add(lab.replace("-", "", 1))
    strings |= {"", "-", "--", "1", "12-", "-12", "1-2", "1-2-3", "1-2-3-4", "001-002-003-004-005", "0-0", "000-000-000"}
    for st in sorted(strings):
        try:
            v = grids.locatorLabelToIndices(st)
            line = "[" + ",".join("None" if x is None else str(int(x)) for x in v) + "]"
        except ValueError:
            line = "reject"
        req.append("labelidx L" + st); impl.append(line); cases.append(("labelidx", st))
        ctx.count("locatorLabelToIndices: " + ("refused" if line == "reject" else "%d value(s)" % min(4, len(v))))
    model = lean_run("Grid", req)
    ctx.compare("Model/Grid.lean getLabel/labelToIndices vs Grid.getLabel/locatorLabelToIndices", cases, model, impl)
    ctx.evaluations += len(req)
    ctx.samples.append({"request": req[20], "model": model[20], "impl": impl[20]})


# ------------------------------------------------------------------------------------------ locator objects
def run_locators(ctx):
    """indices <-> locator objects <-> (ring, pos) <-> labels on the real grids: every map undoes the other."""
    from armi.reactor import grids

    rng = ctx.rng
    N = ctx.pick(10, 30)
    n = N - 1
    hexcells = [(i, j) for i in range(-n, n + 1) for j in range(-n, n + 1) if abs(i + j) <= n]
    M = ctx.pick(6, 15)
    sqcells = [(i, j) for i in range(-M, M + 1) for j in range(-M, M + 1)]
    todo = [("hex flats up", grids.HexGrid.fromPitch(1.25, numRings=3, cornersUp=False), hexcells, True),
            ("hex corners up", grids.HexGrid.fromPitch(2.0, numRings=3, cornersUp=True, symmetry="third periodic"), hexcells, True),
            ("cartesian through centre", grids.CartesianGrid.fromRectangle(1.0, 2.0, numRings=3), sqcells, False),
            ("cartesian offset", grids.CartesianGrid.fromRectangle(1.0, 2.0, numRings=3, isOffset=True), sqcells, False),
            ("theta-R-Z", grids.ThetaRZGrid(bounds=(np.array([0.0, 1.0, 2.0, 3.0, 4.0, 5.0, 6.0]), np.arange(8.0), np.arange(5.0))),
             [(i, j) for i in range(6) for j in range(7)], True)]
    nreq, nimpl, ncases = [], [], []
    for name, g, cells, has_rp in todo:
        for (i, j) in cells:
            for k in ((0, 3) if name != "theta-R-Z" else (0, 2)):
                case = {"grid": name, "i": i, "j": j, "k": k}
                loc = g[i, j, k]
                again = g[i, j, k]
                if (loc.i, loc.j, loc.k) != (i, j, k) or tuple(int(v) for v in loc.indices) != (i, j, k) or loc.grid is not g \
                        or not (again == loc) or not (loc == (i, j, k)) or tuple(loc.getCompleteIndices()) != (i, j, k):
                    ctx.fail("locator-indices-roundtrip", "grid[i, j, k] is the locator of cell (i, j, k) of that grid: indices, "
                             "complete indices (top-level grid) and equality give the cell back", case,
                             observed=[(loc.i, loc.j, loc.k), list(loc.indices), loc.grid is g])
                # every argument form of the index-taking queries: tuple / list / numpy indices / complete indices
                forms = [("3-tuple", (i, j, k)), ("list", [i, j, k]), ("locator.indices", loc.indices),
                         ("getCompleteIndices()", loc.getCompleteIndices())]
                c0 = [float(v) for v in g.getCoordinates((i, j, k))]
                for fname, arg in forms:
                    for q in ("getCoordinates", "getCellBase", "getCellTop"):
                        if name == "theta-R-Z" and q != "getCoordinates":
                            continue
                        a = impl_vec(getattr(g, q), arg)
                        b = impl_vec(getattr(g, q), (i, j, k))
                        if not same_vec(a, b):
                            ctx.fail("query-argument-form", f"{q} gives the same answer for every way of handing over the cell",
                                     {**case, "argument": fname}, observed=a, expected=b)
                    if has_rp and tuple(int(v) for v in g.getRingPos(arg)) != tuple(int(v) for v in g.getRingPos((i, j))):
                        ctx.fail("query-argument-form", "getRingPos((i, j, k)) == getRingPos((i, j)) for every argument form and every k",
                                 {**case, "argument": fname}, observed=tuple(g.getRingPos(arg)))
                if name.startswith("hex"):
                    nb = g.getNeighboringCellIndices(i, j, k)
                    nreq.append(f"neigh3 {i} {j} {k}")
                    nimpl.append("[" + ",".join(f"[{int(a)},{int(b)},{int(c)}]" for a, b, c in nb) + "]")
                    ncases.append(("neigh3", name, i, j, k))
                    if [t[:2] for t in nb] != [t[:2] for t in g.getNeighboringCellIndices(i, j, 0)] or any(int(t[2]) != k for t in nb):
                        ctx.fail("hex-neighbours-keep-plane", "the six neighbours of (i, j, k) are the in-plane neighbours at the same k",
                                 case, observed=[tuple(int(v) for v in t) for t in nb])
                    if g.getLabel((i, j, k))[:7] != g.getLabel((i, j)):
                        ctx.fail("query-argument-form", "the label of (i, j, k) starts with the label of (i, j)", case,
                                 observed=[g.getLabel((i, j, k)), g.getLabel((i, j))])
                if has_rp:
                    rp = tuple(int(v) for v in loc.getRingPos())
                    if rp != tuple(int(v) for v in g.getRingPos((i, j, k))):
                        ctx.fail("locator-ringpos-roundtrip", "locator.getRingPos() == grid.getRingPos(indices)", case, observed=rp)
                    back = g.getLocatorFromRingAndPos(rp[0], rp[1], k)
                    if not (back == loc) or (back.i, back.j, back.k) != (i, j, k):
                        ctx.fail("locator-ringpos-roundtrip", "getLocatorFromRingAndPos(*locator.getRingPos(), k) is the locator "
                                 "again", case, observed=[rp, (back.i, back.j, back.k)])
                    if name != "theta-R-Z":
                        lab = g.getLabel(loc.getCompleteIndices())
                        r, p, kk = grids.locatorLabelToIndices(lab)
                        viaLabel = g.getLocatorFromRingAndPos(r, p, kk)
                        if not (viaLabel == loc):
                            ctx.fail("locator-label-roundtrip", "label -> (ring, pos, k) -> locator is the locator the label "
                                     "was made from", case, observed=[lab, (viaLabel.i, viaLabel.j, viaLabel.k)])
                else:
                    lab = g.getLabel((i, j, k))
                    viaLabel = g[tuple(grids.locatorLabelToIndices(lab))]
                    if not (viaLabel == loc):
                        ctx.fail("locator-label-roundtrip", "label -> indices -> locator is the locator the label was made from",
                                 case, observed=[lab, (viaLabel.i, viaLabel.j, viaLabel.k)])
                ctx.case(("locator", name, i, j, k))
        # multi-location: the sites are the cells asked for, in order
        for _ in range(ctx.pick(20, 100)):
            want = [rng.choice(cells) + (rng.choice([0, 0, 1]),) for _ in range(rng.randint(0, 6))]
            multi = g[list(want)]
            got = [tuple(int(v) for v in ix) for ix in multi.indices]
            if got != want or len(multi) != len(want) or any(l.grid is not g for l in multi) or multi.grid is not g:
                ctx.fail("locator-multi-sites", "grid[[cells]] is a multi-location whose sites are exactly those cells of "
                         "that grid", {"grid": name, "cells": want}, observed=got)
        ctx.count("locator round trips: " + name, len(cells) * 2)
    model = lean_run("Hex", nreq)
    ctx.compare("Model/Hex.lean neighbours3 vs HexGrid.getNeighboringCellIndices(i, j, k)", ncases, model, nimpl)
    ctx.evaluations += len(nreq)


# ------------------------------------------------------------------------------------------ entry points
def run(ctx):
    run_cart_ringpos(ctx)
    run_generated(ctx)
    run_nesting(ctx)
    run_nesting_kinds(ctx)
    run_labels(ctx)
    run_locators(ctx)
    run_changepitch(ctx)
    run_reduce_sequences(ctx)


def search(ctx, disagreements, broken):
    """a generic-grid correspondence broke: evaluate every oracle stream of this module on fresh quick contexts
    (two seeds) and return the concrete failing inputs found on the real code."""
    mine = [d for d in disagreements if "Model/Grid.lean" in d.what]
    if not mine:
        return []
    out, seen = [], set()
    for seed in (ctx.seed, ctx.seed + 101):
        sub = type(ctx)(ctx.prop, "quick", seed)
        for part in (run_generated, run_nesting, run_nesting_kinds, run_labels, run_locators, run_reduce_sequences, run_changepitch, run_cart_ringpos):
            part(sub)
        for f in sub.failures:
            if f.key not in seen:
                seen.add(f.key)
                out.append(f)
    return out
