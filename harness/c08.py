"""C08 - grid symmetry and rotation operations agree with the physical geometry.

Theorems: lean/ArmiVerif/Props/C08.lean (model: Model/Hex.lean C08 section, Model/Grid.lean Cartesian part).
Tie (model = implementation, same inputs):
  * every hex cell within N rings x k in -14..14 x both orientations: HexGrid.rotateIndex; third-core
    equivalents, first-third membership with/without the top edge, locatorInDomain, symmetry-line class;
    hexagon.getIndexOfRotatedCell for every cell number x orientation -1..6;
  * every Cartesian cell |i|,|j| <= M x {4 quarter-core variants, full, eighth}: getSymmetricEquivalents /
    locatorInDomain;
  * iterables.pivot on generated lists / arrays;
  * real HexBlocks (pin lattice with multi-index locators, a single-index child, a free CoordinateLocation
    child, a child without locator) with random corner/edge vectors and displacement, rotated by every k;
  * blocks with SEVERAL multi-location children at different sites (2-4 pin types: blueprint lattice maps built by
    armi's blueprint machinery, and hand-built blocks incl. children sharing one locator object, single-site and
    empty multi-locators, children in random order), rotated by k in 0..11 and by sequences; HexAssembly.rotate on
    assemblies of such blocks (accepted and refused angles) vs Hex.rotateHexAssembly;
  * three-index arguments (run_three_index): every symmetry / rotation function on (i, j, k) with k = 0 and k != 0 in every
    argument form (tuple, list, locator.indices, getCompleteIndices(), numpy triple, the locator's own method), incl. the
    centre cell (0, 0, k); 3-D hex / Cartesian grids built from unit steps; rotateIndex on attached / fresh / detached
    locators at k != 0 (axial index and grid kept, centre rotated about z).
Oracle (property clauses evaluated on the real objects, independent of the model): coordinates of the rotated
index are the numerically rotated coordinates; composition, period six, ring preservation; equivalents are the
120/240 degree (hex) or 90-degree / mirror (Cartesian) images of the cell centre; exactly one orbit member in
the domain off the symmetry lines, 1/2 on them; line class <-> angle of the centre; block rotation moves pins,
free children, corner/edge vectors, displacement and orientation by k x 60 degrees.
"""
import contextlib
import copy
import math

import numpy as np

from harness import common
from harness.common import Failure, lean_run

PROP_MODULES = ["ArmiVerif.Props.C08"]
PARTIAL = ("rad -> rotNum rounding in HexBlock.rotate is a parameter of the model (the harness computes rotNum with the "
           "code's own formula); cos/sin of the coordinate/displacement rotation are modelled exactly in Q(sqrt 3) and "
           "compared to 1e-9; coordinates up to floating-point rounding")
ASSUMPTIONS = [
    "HexBlock.rotate: rotNum = round((rad mod 2pi)/60deg) is taken from the code's formula, not modelled",
    "math.cos/math.sin at multiples of 60 degrees are modelled by their exact values in Q(sqrt 3); agreement to 1e-9 "
    "is checked on every rotated free-coordinate child and displacement",
    "symmetry strings -> (domain, boundary, throughCenter) decoding (geometry.SymmetryType) is exercised, not modelled",
    "HexAssembly.rotate: the float remainder rad % (pi/3) is a parameter of the model guard (computed with the code's own "
    "expression); the guard itself (min(rem, pi/3 - rem) <= 1e-12) and the per-block loop are modelled",
]

KS = list(range(-14, 15))
TOL = 1e-9


def hex_cells(nrings):
    n = nrings - 1
    return [(i, j) for i in range(-n, n + 1) for j in range(-n, n + 1) if abs(i + j) <= n]


def rotxy(x, y, k):
    th = k * math.pi / 3.0
    c, s = math.cos(th), math.sin(th)
    return x * c - y * s, x * s + y * c


def pairs(lst):
    return "[" + ",".join(f"({int(a)},{int(b)})" for a, b in lst) + "]"


# ------------------------------------------------------------------------------------------ hex, index level
def run_hex(ctx):
    from armi.reactor import grids
    from armi.utils import hexagon

    N = ctx.pick(40, 150)
    cells = hex_cells(N)
    gF = grids.HexGrid.fromPitch(1.0, numRings=0, cornersUp=False, symmetry="third periodic")
    gC = grids.HexGrid.fromPitch(1.0, numRings=0, cornersUp=True, symmetry="third periodic")
    gFull = grids.HexGrid.fromPitch(1.0, numRings=0, symmetry="full")
    gQuarter = grids.HexGrid.fromPitch(1.0, numRings=0, symmetry="quarter reflective")
    req, impl, cases = [], [], []
    coords = {}
    for cu, g in ((False, gF), (True, gC)):
        for c in cells:
            xyz = g.getCoordinates((c[0], c[1], 0))
            coords[(cu, c)] = (float(xyz[0]), float(xyz[1]))
    tolc = TOL * max(1, N)
    nrot = 0
    for (i, j) in cells:
        ring = max(abs(i), abs(j), abs(i + j)) + 1
        for cu, g in ((False, gF), (True, gC)):
            loc = grids.IndexLocation(i, j, 0, g)
            x, y = coords[(cu, (i, j))]
            rk = {}
            for k in KS:
                r = g.rotateIndex(loc, k)
                rk[k] = (r.i, r.j)
                req.append(f"rot {k} {i} {j}"); impl.append(f"({r.i},{r.j})"); cases.append(("rot", cu, k, i, j))
                nrot += 1
                # oracle: geometry, ring, k-coordinate kept, grid kept
                ex, ey = rotxy(x, y, k)
                got = coords.get((cu, (r.i, r.j)))
                if got is None or abs(got[0] - ex) > tolc or abs(got[1] - ey) > tolc:
                    ctx.fail("hex-rotate-geometry", "coordinates(rotateIndex(c,k)) == R(60k) coordinates(c)",
                             {"cornersUp": cu, "i": i, "j": j, "k": k}, observed=[r.i, r.j, got], expected=[ex, ey])
                if max(abs(r.i), abs(r.j), abs(r.i + r.j)) + 1 != ring or r.k != 0 or r.grid is not g:
                    ctx.fail("hex-rotate-ring", "rotation preserves ring, axial index and grid",
                             {"cornersUp": cu, "i": i, "j": j, "k": k}, observed=[r.i, r.j, r.k])
            # composition / period (index level): r(k+l) == r_k(r_l), r(k+6) == r(k), r(-k) r(k) == id
            for k in (-7, -2, -1, 1, 2, 3, 5):
                for l in (-5, -1, 1, 4):
                    a = g.rotateIndex(grids.IndexLocation(rk[l][0], rk[l][1], 0, g), k)
                    if (a.i, a.j) != rk[k + l]:
                        ctx.fail("hex-rotate-additive", "rotateIndex(rotateIndex(c,l),k) == rotateIndex(c,k+l)",
                                 {"cornersUp": cu, "i": i, "j": j, "k": k, "l": l}, observed=[a.i, a.j], expected=rk[k + l])
            if rk[6] != (i, j) or rk[-6] != (i, j) or rk[0] != (i, j) or rk[12] != (i, j) or rk[-12] != (i, j):
                ctx.fail("hex-rotate-period", "six rotations are the identity", {"cornersUp": cu, "i": i, "j": j},
                         observed=[rk[6], rk[-6], rk[0]])
        ctx.case(("hexrot", i, j))
    ctx.count("hex rotateIndex calls", nrot)

    # symmetry: equivalents, first third, domain, line class
    nsym = 0
    for (i, j) in cells:
        eqF = [tuple(int(v) for v in e[:2]) for e in gF.getSymmetricEquivalents((i, j, 0))]
        req.append(f"sym3 {i} {j}"); impl.append(pairs(eqF)); cases.append(("sym3", i, j))
        req.append(f"hexequiv 1 {i} {j}"); impl.append(pairs(eqF)); cases.append(("hexequiv", 1, i, j))
        line = gF.overlapsWhichSymmetryLine((i, j))
        req.append(f"line {i} {j}"); impl.append(str(0 if line is None else int(line))); cases.append(("line", i, j))
        loc = gF[i, j, 0]
        ins = {}
        for top in (False, True):
            v = bool(gF.isInFirstThird(loc, includeTopEdge=top))
            ins[top] = v
            req.append(f"third {'T' if top else 'F'} {i} {j}"); impl.append("T" if v else "F"); cases.append(("third", top, i, j))
            d = bool(gF.locatorInDomain(loc, symmetryOverlap=top))
            req.append(f"indomain T {'T' if top else 'F'} {i} {j}"); impl.append("T" if d else "F")
            cases.append(("indomain", True, top, i, j))
        nsym += 1
        hex_symmetry_oracle(ctx, grids, gF, gC, coords, i, j, eqF, line, tolc)
        ctx.case(("hexsym", i, j), sample={"cell": [i, j], "equivalents": eqF, "line": line} if (i, j) == (4, -2) else None)
    # full core / unsupported symmetry: small sample is enough (no cell dependence in the code)
    for (i, j) in cells[:: max(1, len(cells) // 300)]:
        e = gFull.getSymmetricEquivalents((i, j, 0))
        req.append(f"hexequiv 0 {i} {j}"); impl.append(pairs(e)); cases.append(("hexequiv", 0, i, j))
        if e != []:
            ctx.fail("hex-full-core-equivalents", "a full-core grid reports no equivalents", {"i": i, "j": j}, observed=e)
        try:
            e2 = pairs(gQuarter.getSymmetricEquivalents((i, j, 0)))
        except NotImplementedError:
            e2 = "reject"
        req.append(f"hexequiv 2 {i} {j}"); impl.append(e2); cases.append(("hexequiv", 2, i, j))
        d = bool(gFull.locatorInDomain(gFull[i, j, 0]))
        req.append(f"indomain F F {i} {j}"); impl.append("T" if d else "F"); cases.append(("indomain", False, False, i, j))
    ctx.count("hex symmetry cells", nsym)

    # getIndexOfRotatedCell: every cell number x orientations -1..6
    Nr = ctx.pick(25, 60)
    ncell = hexagon.totalPositionsUpToRing(Nr)
    for cell in range(-1, ncell + 1):
        for o in range(-1, 7):
            try:
                v = str(hexagon.getIndexOfRotatedCell(cell, o))
            except ValueError:
                v = "reject"
            req.append(f"rotcell {cell} {o}"); impl.append(v); cases.append(("rotcell", cell, o))
    # oracle: cell number of the rotated index
    for ring in range(1, Nr + 1):
        base = hexagon.totalPositionsUpToRing(ring - 1) if ring > 1 else 0
        for pos in range(1, hexagon.numPositionsInRing(ring) + 1):
            i, j = gF.getIndicesFromRingAndPos(ring, pos)
            for o in range(6):
                r = gF.rotateIndex(grids.IndexLocation(i, j, 0, gF), o)
                rr, rp = gF.indicesToRingPos(r.i, r.j)
                want = (hexagon.totalPositionsUpToRing(rr - 1) if rr > 1 else 0) + rp
                got = hexagon.getIndexOfRotatedCell(base + pos, o)
                if got != want:
                    ctx.fail("hex-rotated-cell-number", "getIndexOfRotatedCell agrees with ring/pos of the rotated index",
                             {"cell": base + pos, "orientation": o}, observed=got, expected=want)
    ctx.count("rotated cell numbers", ncell * 6)

    model = lean_run("Hex", req)
    ctx.compare("Model/Hex.lean (C08) vs HexGrid / hexagon", cases, model, impl)
    ctx.evaluations += len(req)
    ctx.samples.append({"request": req[7], "model": model[7], "impl": impl[7]})
    return N


def angle_class(x, y, cu, tol):
    """which ray (multiple of 60 degrees, measured from the grid's reference direction) the point lies on"""
    if abs(x) <= tol and abs(y) <= tol:
        return "centre"
    ang = math.degrees(math.atan2(y, x)) - (30.0 if cu else 0.0)
    ang %= 360.0
    m = round(ang / 60.0)
    r = math.hypot(x, y)
    if abs(math.radians(ang - 60.0 * m)) * r <= tol * 10:
        return (m % 6) * 60
    return None


def hex_symmetry_oracle(ctx, grids, gF, gC, coords, i, j, eq, line, tolc):
    case = {"i": i, "j": j}
    if (i, j) == (0, 0):
        if eq != []:
            ctx.fail("hex-third-equivalents-centre", "the centre cell has no equivalents", case, observed=eq)
        if line != grids.BOUNDARY_CENTER:
            ctx.fail("hex-line-class", "centre cell is classified BOUNDARY_CENTER", case, observed=line)
        return
    if len(eq) != 2 or len({(i, j), *eq}) != 3:
        ctx.fail("hex-third-equivalents-count", "two distinct equivalents, distinct from the cell", case, observed=eq)
        return
    for cu in (False, True):
        x, y = coords[(cu, (i, j))]
        for m, e in enumerate(eq, 1):
            ex, ey = rotxy(x, y, 2 * m)
            got = coords.get((cu, e))
            if got is None or abs(got[0] - ex) > tolc or abs(got[1] - ey) > tolc:
                ctx.fail("hex-third-equivalents-geometry", "m-th equivalent is the image under m x 120 degrees (CCW)",
                         {**case, "cornersUp": cu, "m": m}, observed=[e, got], expected=[ex, ey])
        # line classification <-> geometry
        cls = angle_class(x, y, cu, tolc)
        want = {0: grids.BOUNDARY_0_DEGREES, 60: grids.BOUNDARY_60_DEGREES, 120: grids.BOUNDARY_120_DEGREES}.get(cls)
        g = gC if cu else gF
        got = g.overlapsWhichSymmetryLine((i, j))
        if got != want:
            ctx.fail("hex-line-class", "overlapsWhichSymmetryLine <-> centre on the 0/60/120 degree ray "
                     "(30/90/150 for corners up)", {**case, "cornersUp": cu}, observed=got, expected=want)
    # orbit partition
    x, y = coords[(False, (i, j))]
    cls = angle_class(x, y, False, tolc)
    onEdge = cls in (0, 120, 240)
    orbit = [(i, j)] + list(eq)
    n0 = sum(1 for o in orbit if gF.isInFirstThird(gF[o[0], o[1], 0], includeTopEdge=False))
    n1 = sum(1 for o in orbit if gF.isInFirstThird(gF[o[0], o[1], 0], includeTopEdge=True))
    if n0 != 1 or n1 != (2 if onEdge else 1):
        ctx.fail("hex-third-orbit-partition", "exactly one orbit member in the first third (two with the top edge "
                 "for cells on the 0/120 degree edge lines)", {**case, "onEdgeLine": onEdge}, observed=[n0, n1])
    # the domain is the sector 0 <= theta < 120 (<= with the top edge)
    ang = math.degrees(math.atan2(y, x)) % 360.0
    inside = -1e-7 <= ang < 120.0 - 1e-7 or ang > 360 - 1e-7
    top = abs(ang - 120.0) <= 1e-7
    got0 = bool(gF.isInFirstThird(gF[i, j, 0]))
    got1 = bool(gF.isInFirstThird(gF[i, j, 0], includeTopEdge=True))
    if got0 != inside or got1 != (inside or top):
        ctx.fail("hex-first-third-sector", "first third == sector 0 <= theta < 120 degrees (<= with top edge)",
                 case, observed=[got0, got1], expected=[inside, inside or top])


# ------------------------------------------------------------------------------------------ Cartesian
CART_VARIANTS = [
    # (symmetry string, isOffset, domain code, rotational, through)
    ("quarter reflective through center assembly", False, 1, False, True),
    ("quarter periodic through center assembly", False, 1, True, True),
    ("quarter reflective", True, 1, False, False),
    ("quarter periodic", True, 1, True, False),
    ("full", False, 0, False, False),
    ("full", True, 0, False, False),
    ("eighth reflective", False, 2, False, False),
    ("third periodic", False, 3, True, False),
]


def run_cart(ctx):
    from armi.reactor import grids

    M = ctx.pick(30, 60)
    req, impl, cases = [], [], []
    for (sym, isOffset, dom, rot, through) in CART_VARIANTS:
        g = grids.CartesianGrid.fromRectangle(1.0, 1.0, numRings=1, symmetry=sym, isOffset=isOffset)
        st = g.symmetry
        if bool(st.isThroughCenterAssembly) != through and dom == 1:
            ctx.fail("cart-symmetry-decoding", "symmetry string decodes to the expected through-centre flag",
                     {"symmetry": sym}, observed=st.isThroughCenterAssembly)
        quarter = dom == 1
        for i in range(-M, M + 1):
            for j in range(-M, M + 1):
                try:
                    eq = [tuple(int(v) for v in e) for e in g.getSymmetricEquivalents((i, j, 0))]
                    s = pairs(eq)
                except NotImplementedError:
                    eq, s = None, "reject"
                req.append(f"cartequiv {dom} {'T' if rot else 'F'} {'T' if through else 'F'} {i} {j}")
                impl.append(s); cases.append(("cartequiv", sym, isOffset, i, j))
                d = bool(g.locatorInDomain(g[i, j, 0]))
                req.append(f"cartindomain {'T' if quarter else 'F'} {i} {j}"); impl.append("T" if d else "F")
                cases.append(("cartindomain", sym, isOffset, i, j))
                if dom == 1:
                    cart_oracle(ctx, g, sym, rot, through, i, j, eq)
                elif dom == 0 and (eq != [] or not d):
                    ctx.fail("cart-full-core", "full core: no equivalents, every cell in the domain",
                             {"symmetry": sym, "i": i, "j": j}, observed=[eq, d])
                ctx.case(("cart", sym, isOffset, i, j))
    model = lean_run("Grid", req)
    ctx.compare("Model/Grid.lean cartEquivalents/cartInDomain vs CartesianGrid", cases, model, impl)
    ctx.evaluations += len(req)
    ctx.samples.append({"request": req[100], "model": model[100], "impl": impl[100]})
    ctx.count("cartesian symmetry cells", len(req) // 2)
    return M


def cart_oracle(ctx, g, sym, rot, through, i, j, eq):
    """images of the cell CENTRE under the quarter-core group, computed from coordinates (unit square pitch)."""
    case = {"symmetry": sym, "i": i, "j": j}
    x, y, _ = g.getCoordinates((i, j, 0))
    if rot:
        imgs = [(-y, x), (-x, -y), (y, -x)]
    else:
        imgs = [(-x, y), (-x, -y), (x, -y)]
    want = set()
    for (a, b) in imgs:
        if abs(a - x) > 1e-9 or abs(b - y) > 1e-9:
            want.add((round(a, 6), round(b, 6)))
    got = []
    for e in eq:
        ex, ey, _ = g.getCoordinates((e[0], e[1], 0))
        got.append((round(float(ex), 6), round(float(ey), 6)))
    if set(got) != want or len(set(eq)) != len(eq) or (i, j) in eq:
        ctx.fail("cart-equivalents-are-orbit", "equivalents == images of the centre under the 90-degree rotations / "
                 "axis reflections, minus the cell itself, without repeats", case, observed=eq, expected=sorted(want))
    onAxis = abs(x) < 1e-9 or abs(y) < 1e-9
    orbit = {(i, j), *eq}
    n = sum(1 for o in orbit if g.locatorInDomain(g[o[0], o[1], 0]))
    if not onAxis and n != 1:
        ctx.fail("cart-orbit-one-in-domain", "exactly one orbit member in the quarter-core domain (off the axes)",
                 case, observed=n)
    if onAxis and n < 1:
        ctx.fail("cart-orbit-one-in-domain", "at least one orbit member in the domain (on an axis)", case, observed=n)
    want_dom = x > -1e-9 and y > -1e-9
    if bool(g.locatorInDomain(g[i, j, 0])) != want_dom:
        ctx.fail("cart-domain-is-first-quadrant", "in domain <=> centre in the closed first quadrant", case,
                 observed=bool(g.locatorInDomain(g[i, j, 0])))


# ------------------------------------------------------------------------------------------ symmetry reassigned
HEX_SYMS = [("third periodic", 1), ("full", 0), ("quarter reflective", 2)]


def _hex_answers(g, i, j):
    loc = g[i, j, 0]
    try:
        eq = pairs([tuple(int(v) for v in e[:2]) for e in g.getSymmetricEquivalents((i, j, 0))])
    except NotImplementedError:
        eq = "reject"
    return eq, "T" if g.locatorInDomain(loc, symmetryOverlap=False) else "F", "T" if g.locatorInDomain(loc, symmetryOverlap=True) else "F"


def _cart_answers(g, i, j):
    try:
        eq = pairs([tuple(int(v) for v in e) for e in g.getSymmetricEquivalents((i, j, 0))])
    except NotImplementedError:
        eq = "reject"
    return eq, "T" if g.locatorInDomain(g[i, j, 0]) else "F"


def run_symmetry_sequences(ctx):
    """query - reassign grid.symmetry - query again, on ONE grid object: every answer must reflect the CURRENT
    symmetry (as core.symmetry = ... and the geometry converters change it on a live core grid)."""
    from armi.reactor import geometry, grids

    N = ctx.pick(40, 150)
    cells = hex_cells(N)
    req, impl, cases = [], [], []
    nq = 0
    for cu in (False, True):
        live = grids.HexGrid.fromPitch(1.0, numRings=0, cornersUp=cu, symmetry="third periodic")
        fresh = {sym: grids.HexGrid.fromPitch(1.0, numRings=0, cornersUp=cu, symmetry=sym) for sym, _c in HEX_SYMS}
        for n, (i, j) in enumerate(cells):
            order = [HEX_SYMS[n % 2], HEX_SYMS[(n + 1) % 2]]            # third <-> full, alternating start
            if n % 11 == 0:
                order.append(HEX_SYMS[2])
                order.append(HEX_SYMS[n % 2])
            for step, (sym, code) in enumerate(order):
                # as a string, or as a SymmetryType object (what Core.symmetry hands to its grid)
                live.symmetry = sym if (n + step) % 3 else geometry.SymmetryType.fromStr(sym)
                got = _hex_answers(live, i, j)
                want = _hex_answers(fresh[sym], i, j)
                nq += 1
                if got != want:
                    ctx.fail("symmetry-reassigned-stale-answer", "after grid.symmetry = s the equivalents / domain answers are "
                             "those of a grid built with s", {"grid": "hex", "cornersUp": cu, "i": i, "j": j,
                             "sequence": [o[0] for o in order[: step + 1]]}, observed=list(got), expected=list(want))
                third = "T" if sym.startswith("third") else "F"
                req += [f"hexequiv {code} {i} {j}", f"indomain {third} F {i} {j}", f"indomain {third} T {i} {j}"]
                impl += list(got)
                cases += [("symseq-hexequiv", cu, sym, i, j), ("symseq-indomain", cu, sym, False, i, j), ("symseq-indomain", cu, sym, True, i, j)]
        ctx.case(("symseq-hex", cu))
    model = lean_run("Hex", req)
    ctx.compare("Model/Hex.lean equivalents/domain after symmetry reassignment vs HexGrid", cases, model, impl)
    ctx.evaluations += len(req)

    M = ctx.pick(12, 30)
    req, impl, cases = [], [], []
    for isOffset in (False, True):
        live = grids.CartesianGrid.fromRectangle(1.0, 1.0, numRings=1, symmetry="full", isOffset=isOffset)
        variants = [v for v in CART_VARIANTS if v[1] == isOffset or v[2] != 0]
        fresh = {v[0]: grids.CartesianGrid.fromRectangle(1.0, 1.0, numRings=1, symmetry=v[0], isOffset=isOffset) for v in CART_VARIANTS}
        n = 0
        for i in range(-M, M + 1):
            for j in range(-M, M + 1):
                n += 1
                order = [CART_VARIANTS[n % len(CART_VARIANTS)], CART_VARIANTS[(n * 3 + 1) % len(CART_VARIANTS)],
                         CART_VARIANTS[(n + 4) % len(CART_VARIANTS)]]
                for step, (sym, _off, dom, rot, through) in enumerate(order):
                    live.symmetry = sym if (n + step) % 3 else geometry.SymmetryType.fromStr(sym)
                    got = _cart_answers(live, i, j)
                    want = _cart_answers(fresh[sym], i, j)
                    nq += 1
                    if got != want:
                        ctx.fail("symmetry-reassigned-stale-answer", "after grid.symmetry = s the equivalents / domain answers "
                                 "are those of a grid built with s", {"grid": "cartesian", "isOffset": isOffset, "i": i, "j": j,
                                 "sequence": [o[0] for o in order[: step + 1]]}, observed=list(got), expected=list(want))
                    req += [f"cartequiv {dom} {'T' if rot else 'F'} {'T' if through else 'F'} {i} {j}",
                            f"cartindomain {'T' if dom == 1 else 'F'} {i} {j}"]
                    impl += list(got)
                    cases += [("symseq-cartequiv", isOffset, sym, i, j), ("symseq-cartindomain", isOffset, sym, i, j)]
        ctx.case(("symseq-cart", isOffset))
    model = lean_run("Grid", req)
    ctx.compare("Model/Grid.lean equivalents/domain after symmetry reassignment vs CartesianGrid", cases, model, impl)
    ctx.evaluations += len(req)
    ctx.count("queries after a symmetry reassignment", nq)


# ------------------------------------------------------------------------------------------ pivot
def run_pivot(ctx):
    from armi.utils import iterables

    rng = ctx.rng
    req, impl, cases = [], [], []
    for n in list(range(0, 9)) + [12]:
        for p in range(-n - 3, n + 4):
            for kind in ("list", "array"):
                vals = [rng.randint(-50, 50) / 4.0 for _ in range(n)]
                items = list(vals) if kind == "list" else np.array(vals)
                out = iterables.pivot(items, p)
                if type(out) is not type(items):
                    ctx.fail("pivot-type", "pivot returns the container type it was given", {"n": n, "p": p, "kind": kind},
                             observed=type(out).__name__)
                out = [float(v) for v in out]
                req.append(f"pivot {common.ratlist(vals)} {p}"); impl.append(common.ratlist(out))
                cases.append(("pivot", n, p, kind))
                if n > 0 and -n <= p <= n:
                    want = [vals[(m + p) % n] for m in range(n)]
                    if out != want:
                        ctx.fail("pivot-spec", "pivot(l, p)[m] == l[(m + p) mod n]", {"l": vals, "p": p}, observed=out, expected=want)
                ctx.case(("pivot", n, p, kind), nontrivial=n > 1)
    for bad in ((1, 2, 3), "abc"):
        try:
            iterables.pivot(bad, 1)
            ctx.fail("pivot-type", "pivot refuses containers it does not support", {"items": repr(bad)}, observed="accepted")
        except TypeError:
            pass
    model = lean_run("Hex", req)
    ctx.compare("Hex.pivot vs iterables.pivot", cases, model, impl)
    ctx.evaluations += len(req)


# ------------------------------------------------------------------------------------------ HexBlock.rotate
_REACTOR = {}


def reference_blocks():
    if "blocks" not in _REACTOR:
        from armi.reactor.flags import Flags
        from armi.reactor.tests.test_reactors import loadTestReactor
        from armi.tests import TEST_ROOT

        with common.scratch_dir(), common.quiet():
            _o, r = loadTestReactor(TEST_ROOT)
        blocks = [b for b in r.core.getBlocks(Flags.FUEL) if b.spatialGrid is not None]
        _REACTOR["r"] = r
        _REACTOR["blocks"] = blocks
    return _REACTOR["blocks"]


def boundary_names(b):
    from armi.reactor.parameters import ParamLocation

    return list(b.p.paramDefs.atLocation(ParamLocation.CORNERS).names) + list(b.p.paramDefs.atLocation(ParamLocation.EDGES).names)


def prepare_block(rng, src, variant):
    """A private copy of a real fuel block with every locator kind and random boundary data."""
    from armi.reactor import grids
    from armi.reactor.flags import Flags

    b = copy.deepcopy(src)
    grid = b.spatialGrid
    duct = b.getComponent(Flags.DUCT)
    duct.spatialLocator = grids.CoordinateLocation(common.dyadic(rng, -3, 3, 5), common.dyadic(rng, -3, 3, 5),
                                                   common.dyadic(rng, -1, 1, 3), grid)
    wire = b.getComponent(Flags.WIRE)
    if wire is not None and variant % 2 == 0:
        wire.spatialLocator = grid[rng.randint(-4, 4), rng.randint(-4, 4), 0]
    bond = b.getComponent(Flags.BOND)
    if bond is not None and variant % 3 == 0:
        bond.spatialLocator = None
    names = boundary_names(b)
    for n in names:
        kind = rng.choice(["list", "array", "list", "array", "empty", "none", "short"])
        v = [rng.randint(-64, 64) / 8.0 for _ in range(6)]
        if kind == "list":
            b.p[n] = v
        elif kind == "array":
            b.p[n] = np.array(v)
        elif kind == "empty":
            b.p[n] = []
        elif kind == "short":
            b.p[n] = v[:4]
        else:
            b.p[n] = None
    if variant % 4 != 3:
        b.p.displacementX = common.dyadic(rng, -2, 2, 5)
        b.p.displacementY = common.dyadic(rng, -2, 2, 5)
    else:
        b.p.displacementX = None
        b.p.displacementY = None
    if variant % 5 == 4:
        b.spatialGrid = None  # children are then left alone
    return b


def block_state(b):
    """Observable state that rotate() touches."""
    from armi.reactor import grids

    children = []
    for c in b:
        loc = c.spatialLocator
        if isinstance(loc, grids.MultiIndexLocation):
            children.append(("m", [(int(l.i), int(l.j), int(l.k)) for l in loc]))
        elif isinstance(loc, grids.CoordinateLocation):
            xyz = loc.getLocalCoordinates()
            children.append(("c", [float(v) for v in xyz]))
        elif isinstance(loc, grids.IndexLocation):
            children.append(("i", (int(loc.i), int(loc.j), int(loc.k))))
        else:
            children.append(("n", None))
    boundary, other = [], []
    for n in boundary_names(b):
        v = b.p[n]
        if isinstance(v, (list, np.ndarray)):
            boundary.append([float(x) for x in v])
            other.append(type(v).__name__)
        else:
            other.append(repr(v))
    dx, dy = b.p.displacementX, b.p.displacementY
    disp = None if dx is None or dy is None else (float(dx), float(dy))
    return {"children": children, "boundary": boundary, "kinds": other, "disp": disp,
            "orientation": [float(v) for v in b.p.orientation], "hasGrid": b.spatialGrid is not None}


def encode_block(st, rotNum):
    ch = []
    for kind, v in st["children"]:
        if kind == "m":
            ch.append("[m" + "".join(f",[{i},{j},{k}]" for i, j, k in v) + "]")
        elif kind == "c":
            ch.append("[c," + ",".join(common.rat(x) for x in v) + "]")
        elif kind == "i":
            ch.append(f"[i,{v[0]},{v[1]},{v[2]}]")
        else:
            ch.append("[n]")
    bd = "[" + ",".join(common.ratlist(v) for v in st["boundary"]) + "]"
    dp = "_" if st["disp"] is None else common.ratlist(st["disp"])
    return (f"rotblock {rotNum} {'T' if st['hasGrid'] else 'F'} {common.rat(st['orientation'][2])} "
            f"[{','.join(ch)}] {bd} {dp}")


SQ3 = math.sqrt(3.0)


def q3(s):
    a, b = s
    return float(common.unrat(a)) + float(common.unrat(b)) * SQ3


def compare_block(ctx, case, line, after):
    """model answer (exact, Q(sqrt3)) vs the real block after rotate()."""
    ori, ch, bd, dp = line.split("|")
    bad = []
    if (float(common.unrat(ori)) - after["orientation"][2]) % 360 != 0:
        # compared modulo a full turn: the property fixes the orientation only up to 360 degrees
        bad.append(("orientation", ori, after["orientation"][2]))
    mch = common.parse_list(ch)
    if len(mch) != len(after["children"]):
        bad.append(("children", len(mch), len(after["children"])))
    else:
        for mc, (kind, v) in zip(mch, after["children"]):
            if mc[0] != kind:
                bad.append(("child kind", mc[0], kind))
            elif kind == "m":
                if [tuple(int(x) for x in cell) for cell in mc[1:]] != list(v):
                    bad.append(("multi", mc[1:4], v[:3]))
            elif kind == "i":
                if tuple(int(x) for x in mc[1:]) != tuple(v):
                    bad.append(("index", mc[1:], v))
            elif kind == "c":
                mx, my, mz = q3(mc[1]), q3(mc[2]), float(common.unrat(mc[3]))
                if abs(mx - v[0]) > TOL * 10 or abs(my - v[1]) > TOL * 10 or mz != v[2]:
                    bad.append(("coord", [mx, my, mz], v))
    mbd = [[float(common.unrat(x)) for x in row] for row in common.parse_list(bd)]
    if mbd != after["boundary"]:
        bad.append(("boundary", mbd[:2], after["boundary"][:2]))
    if dp == "_":
        if after["disp"] is not None:
            bad.append(("disp", None, after["disp"]))
    else:
        d = common.parse_list(dp)
        mx, my = q3(d[0]), q3(d[1])
        if after["disp"] is None or abs(mx - after["disp"][0]) > TOL * 10 or abs(my - after["disp"][1]) > TOL * 10:
            bad.append(("disp", [mx, my], after["disp"]))
    if bad:
        ctx.disagree("Hex.rotateBlock vs HexBlock.rotate", case, [str(x) for x in bad[:3]], "see case")


def block_oracle(ctx, case, b, before, after, pins0, pins1, k):
    """the property's clauses on the real block."""
    kk = k % 6
    if len(pins0):
        exp = np.array([list(rotxy(p[0], p[1], k)) + [p[2]] for p in pins0])
        if pins1.shape != exp.shape or np.abs(pins1 - exp).max() > 1e-8:
            ctx.fail("hexblock-rotate-pins", "pin coordinates after rotate(k*60deg) == R(60k) pin coordinates before",
                     case, observed=float(np.abs(pins1 - exp).max()) if pins1.shape == exp.shape else "shape")
    if before["hasGrid"]:
        for (k0, v0), (k1, v1) in zip(before["children"], after["children"]):
            if k0 != k1:
                ctx.fail("hexblock-rotate-child-kind", "a child's locator kind is unchanged", case, observed=[k0, k1])
            elif k0 == "c":
                ex, ey = rotxy(v0[0], v0[1], k)
                if abs(v1[0] - ex) > 1e-9 or abs(v1[1] - ey) > 1e-9 or v1[2] != v0[2]:
                    ctx.fail("hexblock-rotate-free-child", "free-coordinate child moves by R(60k), z kept", case,
                             observed=v1, expected=[ex, ey, v0[2]])
    else:
        if before["children"] != after["children"]:
            ctx.fail("hexblock-rotate-no-grid", "children of a block without grid are left alone", case)
    if before["kinds"] != after["kinds"]:
        ctx.fail("hexblock-rotate-boundary-kind", "boundary parameter container kinds unchanged", case,
                 observed=after["kinds"], expected=before["kinds"])
    for v0, v1 in zip(before["boundary"], after["boundary"]):
        want = [v0[(m - kk) % 6] for m in range(6)] if len(v0) == 6 else v0
        if v1 != want:
            ctx.fail("hexblock-rotate-boundary", "corner/edge vector: new[m] == old[(m - k) mod 6]", case,
                     observed=v1, expected=want)
    if before["disp"] is not None:
        ex, ey = rotxy(before["disp"][0], before["disp"][1], k)
        if after["disp"] is None or abs(after["disp"][0] - ex) > 1e-9 or abs(after["disp"][1] - ey) > 1e-9:
            ctx.fail("hexblock-rotate-displacement", "displacement vector rotated by 60k degrees", case,
                     observed=after["disp"], expected=[ex, ey])
    elif after["disp"] is not None:
        ctx.fail("hexblock-rotate-displacement", "unset displacement stays unset", case, observed=after["disp"])
    d = after["orientation"][2] - before["orientation"][2]
    if (d - 60 * k) % 360 != 0 or after["orientation"][:2] != before["orientation"][:2]:
        ctx.fail("hexblock-rotate-orientation", "orientation[2] advances by 60k (mod 360)", case,
                 observed=after["orientation"], expected=before["orientation"][2] + 60 * kk)


def run_blocks(ctx):
    from armi.reactor.flags import Flags

    rng = ctx.rng
    blocks = reference_blocks()
    nb = ctx.pick(4, 16)
    req, pending = [], []
    nrot = 0
    for t in range(nb):
        src = blocks[rng.randrange(len(blocks))]
        for k in KS:
            b = prepare_block(rng, src, t)
            before = block_state(b)
            pins0 = b.getPinCoordinates().copy() if before["hasGrid"] else np.zeros((0, 3))
            rad = k * math.pi / 3
            rotNum = round((rad % (2 * math.pi)) / math.radians(60))
            case = {"block": src.getName(), "variant": t, "k": k}
            snap0 = site_snapshot(b) if before["hasGrid"] else None
            b.rotate(rad)
            after = block_state(b)
            pins1 = b.getPinCoordinates() if before["hasGrid"] else np.zeros((0, 3))
            block_oracle(ctx, case, b, before, after, pins0, pins1, k)
            if snap0 is not None:
                multi_oracle(ctx, case, snap0, site_snapshot(b), k, pins0, pins1)      # every child, every site
            req.append(encode_block(before, rotNum)); pending.append((case, after))
            nrot += 1
            # composition: a second rotation by l lands where rotate(k + l) would
            l = rng.choice(KS)
            b.rotate(l * math.pi / 3)
            after2 = block_state(b)
            pins2 = b.getPinCoordinates() if before["hasGrid"] else np.zeros((0, 3))
            block_oracle(ctx, {**case, "then": l}, b, before, after2, pins0, pins2, k + l)
            ctx.case(("block", src.getName(), t, k), sample={"case": case, "rotNum": rotNum, "orientation_after": after["orientation"]} if (t, k) == (0, 2) else None)
    model = lean_run("Hex", req)
    for line, (case, after) in zip(model, pending):
        compare_block(ctx, case, line, after)
    ctx.evaluations += len(req)
    ctx.count("HexBlock.rotate calls", 2 * nrot)

    # HexAssembly.rotate: multiples of 60 degrees rotate every block; anything else is refused
    r = _REACTOR["r"]
    a0 = r.core.getFirstAssembly(Flags.FUEL)
    refused = []
    # every way of writing k x 60 degrees in floating point must be accepted (the remainder of rad modulo pi/3
    # lands just above 0 for some, just below pi/3 for others)
    forms = [("k*pi/3", lambda k: k * math.pi / 3), ("radians(60k)", lambda k: math.radians(60 * k)),
             ("k*(pi/3)", lambda k: k * (math.pi / 3))]
    for k in KS:
        for fname, form in (forms if ctx.thorough or k % 5 == 0 else forms[:1]):
            a = copy.deepcopy(a0)
            pins0 = [b.getPinCoordinates().copy() for b in a if b.spatialGrid is not None]
            ori0 = [float(b.p.orientation[2]) for b in a]
            try:
                with common.quiet():
                    a.rotate(form(k))
            except ValueError:
                refused.append([k, fname])
                continue
            pins1 = [b.getPinCoordinates() for b in a if b.spatialGrid is not None]
            for p0, p1 in zip(pins0, pins1):
                exp = np.array([list(rotxy(p[0], p[1], k)) + [p[2]] for p in p0])
                if np.abs(p1 - exp).max() > 1e-8:
                    ctx.fail("hexassembly-rotate-pins", "every block of the assembly is rotated by 60k degrees", {"k": k},
                             observed=float(np.abs(p1 - exp).max()))
            for o0, b in zip(ori0, a):
                if (float(b.p.orientation[2]) - o0 - 60 * k) % 360 != 0:
                    ctx.fail("hexassembly-rotate-orientation", "orientation advances by 60k", {"k": k},
                             observed=float(b.p.orientation[2]))
            ctx.case(("assembly", k))
    if refused:
        ctx.fail("hexassembly-rotate-refuses-multiple-of-60", "HexAssembly.rotate(k*pi/3) rotates for every integer k",
                 {"refused": refused[:12], "rad": [k * math.pi / 3 for k, _f in refused[:12]]}, observed="ValueError",
                 expected="rotation by 60k degrees", note="the float remainder rad % (pi/3) may land just below pi/3 "
                 "instead of just above 0; both must be accepted (repaired in /repo by 390903c)")
    for rad in (0.5, math.pi / 7, 1.0, -0.3, math.pi / 6, -math.pi / 2, math.pi / 3 + 1e-6, -math.pi - 1e-6,
                2 * math.pi / 3 - 1e-7, 5 * math.pi / 3 + 1e-9):
        a = copy.deepcopy(a0)
        before = [block_state(b) for b in a]
        try:
            with common.quiet():
                a.rotate(rad)
            ctx.fail("hexassembly-rotate-non-multiple", "a rotation that is no multiple of 60 degrees is refused",
                     {"rad": rad}, observed="accepted")
        except ValueError:
            if [block_state(b) for b in a] != before:
                ctx.fail("hexassembly-rotate-non-multiple", "a refused rotation changes nothing", {"rad": rad})
    ctx.count("HexAssembly.rotate calls", len(KS) + 4)


# ------------------------------------------------------------------------------------------ three-index arguments
def _arg_forms(grids, g, i, j, k):
    """every way a caller hands a cell to a grid function: 2-tuple, 3-tuple, list, numpy indices of a locator, complete
    indices of a locator (plus the locator's own method, handled by the caller)."""
    loc = g[i, j, k]
    forms = [("3-tuple", (i, j, k)), ("list", [i, j, k]), ("locator.indices", loc.indices),
             ("locator.getCompleteIndices()", loc.getCompleteIndices()), ("numpy int64 triple", np.array([i, j, k], dtype=np.int64))]
    if k == 0:
        forms.insert(0, ("2-tuple", (i, j)))
    return loc, forms


def run_three_index(ctx):
    """C08-b: every symmetry / rotation function fed with (i, j, k), k = 0 and k != 0, in every argument form, incl. the
    centre cell (0, 0, k); 3-D hex grids built from unit steps (rotation about z)."""
    from armi.reactor import grids

    rng = ctx.rng
    N = ctx.pick(9, 20)
    cells = hex_cells(N)
    KZ = (0, 1, 3, -2)
    req, impl, cases = [], [], []
    hexgrids = []
    for cu in (False, True):
        us = [list(r) for r in grids.HexGrid._getRawUnitSteps(1.0, cu)]
        us[2][2] = 7.5                                                           # dz / dk: a 3-D hex grid
        for sym, code in (("third periodic", 1), ("full", 0)):
            g = grids.HexGrid(unitSteps=tuple(tuple(r) for r in us), unitStepLimits=((-3, 3), (-3, 3), (0, 4)), symmetry=sym)
            hexgrids.append((cu, sym, code, g))
    for cu, sym, code, g in hexgrids:
        third = code == 1
        for (i, j) in cells:
            ref = None
            for k in KZ:
                loc, forms = _arg_forms(grids, g, i, j, k)
                case = {"grid": "hex", "cornersUp": cu, "symmetry": sym, "i": i, "j": j, "k": k}
                answers = [(name, [tuple(int(v) for v in e[:2]) for e in g.getSymmetricEquivalents(arg)]) for name, arg in forms]
                answers.append(("locator.getSymmetricEquivalents()", [tuple(int(v) for v in e[:2]) for e in loc.getSymmetricEquivalents()]))
                x, y, z = (float(v) for v in g.getCoordinates((i, j, k)))
                for name, eq in answers:
                    c2 = {**case, "argument": name}
                    if not third:
                        if eq != []:
                            ctx.fail("hex-full-core-equivalents", "a full-core grid reports no equivalents", c2, observed=eq)
                        continue
                    if (i, j) == (0, 0):
                        if eq != []:
                            ctx.fail("hex-third-equivalents-centre", "the centre cell has no equivalents at ANY axial index (its "
                                     "orbit is itself: multiplicity 1)", c2, observed=eq)
                        continue
                    if len(eq) != 2 or len({(i, j), *eq}) != 3:
                        ctx.fail("hex-third-equivalents-count", "two distinct equivalents, distinct from the cell", c2, observed=eq)
                        continue
                    for m, e in enumerate(eq, 1):
                        ex, ey = rotxy(x, y, 2 * m)
                        gx, gy, gz = (float(v) for v in g.getCoordinates((e[0], e[1], k)))
                        if abs(gx - ex) > TOL * N or abs(gy - ey) > TOL * N or gz != z:
                            ctx.fail("hex-third-equivalents-geometry", "m-th equivalent is the image under m x 120 degrees (CCW) "
                                     "in the cell's own plane", {**c2, "m": m}, observed=[e, [gx, gy, gz]], expected=[ex, ey, z])
                eq0 = answers[0][1]
                if ref is None:
                    ref = eq0
                elif eq0 != ref:
                    ctx.fail("symmetry-depends-on-axial-index", "equivalents of (i, j, k) do not depend on k", case, observed=eq0, expected=ref)
                req.append(f"hexequiv3 {code} {i} {j} {k}"); impl.append(pairs(eq0)); cases.append(("hexequiv3", cu, sym, i, j, k))
                if third:
                    # line class / first third / domain with a locator (or index triple) at k != 0
                    lines = {name: g.overlapsWhichSymmetryLine(arg) for name, arg in forms}
                    if len({repr(v) for v in lines.values()}) != 1 or lines["3-tuple"] != g.overlapsWhichSymmetryLine((i, j)):
                        ctx.fail("symmetry-depends-on-axial-index", "overlapsWhichSymmetryLine((i, j, k)) == overlapsWhichSymmetryLine((i, j))",
                                 case, observed={n: v for n, v in lines.items()})
                    ln = lines["3-tuple"]
                    req.append(f"line3 {i} {j} {k}"); impl.append(str(0 if ln is None else int(ln))); cases.append(("line3", cu, i, j, k))
                    flat = g[i, j, 0]
                    for top in (False, True):
                        v = bool(g.isInFirstThird(loc, includeTopEdge=top))
                        d = bool(g.locatorInDomain(loc, symmetryOverlap=top))
                        if v != bool(g.isInFirstThird(flat, includeTopEdge=top)) or d != bool(g.locatorInDomain(flat, symmetryOverlap=top)):
                            ctx.fail("symmetry-depends-on-axial-index", "first-third / domain membership of a locator does not depend "
                                     "on its axial index", {**case, "top": top}, observed=[v, d])
                        req.append(f"third3 {'T' if top else 'F'} {i} {j} {k}"); impl.append("T" if v else "F"); cases.append(("third3", cu, top, i, j, k))
                        req.append(f"indomain3 T {'T' if top else 'F'} {i} {j} {k}"); impl.append("T" if d else "F")
                        cases.append(("indomain3", cu, top, i, j, k))
                    # rotateIndex on locations with k != 0 (attached, detached, and straight from the grid)
                    for n in (rng.sample(KS, 4) + [1, 6]):
                        for lname, l in (("grid cell", loc), ("fresh locator", grids.IndexLocation(i, j, k, g)),
                                         ("detached locator", grids.IndexLocation(i, j, k, None))):
                            r = g.rotateIndex(l, n)
                            c3 = {**case, "rotations": n, "locator": lname}
                            if int(r.k) != k or r.grid is not l.grid:
                                ctx.fail("hex-rotate-keeps-axial-index", "rotateIndex keeps the axial index and the grid of the location",
                                         c3, observed=[int(r.i), int(r.j), int(r.k)], expected=k)
                            rx, ry, rz = (float(v) for v in g.getCoordinates((r.i, r.j, r.k)))
                            ex, ey = rotxy(x, y, n)
                            if abs(rx - ex) > TOL * N or abs(ry - ey) > TOL * N or rz != z:
                                ctx.fail("hex-rotate-geometry", "3-D hex grid: the rotated cell's centre is the centre rotated about the z axis "
                                         "(z unchanged)", c3, observed=[rx, ry, rz], expected=[ex, ey, z])
                        req.append(f"rot3 {n} {i} {j} {k}"); impl.append(f"[{int(r.i)},{int(r.j)},{int(r.k)}]"); cases.append(("rot3", cu, n, i, j, k))
                ctx.case(("three-index-hex", cu, sym, i, j, k), nontrivial=k != 0)
        ctx.count("hex cells x axial indices fed as 3-index arguments (%s, %s)" % ("corners up" if cu else "flats up", sym), len(cells) * len(KZ))
    model = lean_run("Hex", req)
    ctx.compare("Model/Hex.lean three-index symmetry / rotateLoc vs HexGrid", cases, model, impl)
    ctx.evaluations += len(req)

    # Cartesian: every symmetry variant, three-index arguments
    M = ctx.pick(6, 12)
    req, impl, cases = [], [], []
    for (sym, isOffset, dom, rot, through) in CART_VARIANTS:
        w, h = 1.0, 1.0
        g = grids.CartesianGrid(unitSteps=((w, 0.0, 0.0), (0.0, h, 0.0), (0.0, 0.0, 5.0)), unitStepLimits=((-3, 3), (-3, 3), (0, 4)),
                                offset=(w / 2.0, h / 2.0, 0.0) if isOffset else None, symmetry=sym)
        for i in range(-M, M + 1):
            for j in range(-M, M + 1):
                ref = None
                for k in (0, 2, -1):
                    loc, forms = _arg_forms(grids, g, i, j, k)
                    case = {"grid": "cartesian", "symmetry": sym, "isOffset": isOffset, "i": i, "j": j, "k": k}
                    answers = []
                    for name, arg in forms + [("locator method", None)]:
                        try:
                            e = loc.getSymmetricEquivalents() if arg is None else g.getSymmetricEquivalents(arg)
                            answers.append((name, [tuple(int(v) for v in t[:2]) for t in e]))
                        except NotImplementedError:
                            answers.append((name, None))
                    if len({repr(a) for _n, a in answers}) != 1:
                        ctx.fail("symmetry-argument-form", "every way of handing a cell to getSymmetricEquivalents gives the same answer",
                                 case, observed={n: a for n, a in answers})
                    eq = answers[0][1]
                    if ref is None:
                        ref = eq
                    elif eq != ref:
                        ctx.fail("symmetry-depends-on-axial-index", "equivalents of (i, j, k) do not depend on k", case, observed=eq, expected=ref)
                    if dom == 1 and eq is not None:
                        cart_oracle(ctx, g, sym, rot, through, i, j, eq)
                        if through and (i, j) == (0, 0) and eq != []:
                            ctx.fail("cart-equivalents-centre", "the centre cell of a through-centre quarter core has no equivalents at any k",
                                     case, observed=eq)
                    elif dom == 0 and eq != []:
                        ctx.fail("cart-full-core", "full core: no equivalents", case, observed=eq)
                    d = bool(g.locatorInDomain(loc))
                    if d != bool(g.locatorInDomain(g[i, j, 0])):
                        ctx.fail("symmetry-depends-on-axial-index", "domain membership of a locator does not depend on its axial index", case, observed=d)
                    req.append(f"cartequiv3 {dom} {'T' if rot else 'F'} {'T' if through else 'F'} {i} {j} {k}")
                    impl.append("reject" if eq is None else pairs(eq)); cases.append(("cartequiv3", sym, isOffset, i, j, k))
                    ctx.case(("three-index-cart", sym, isOffset, i, j, k), nontrivial=k != 0)
    model = lean_run("Grid", req)
    ctx.compare("Model/Grid.lean cartEquivalentsK vs CartesianGrid (three-index arguments)", cases, model, impl)
    ctx.evaluations += len(req)
    ctx.count("cartesian cells x axial indices fed as 3-index arguments", len(req))


# ------------------------------------------------------------------------------------------ several pin types
def ring_cells(g, ring):
    from armi.utils import hexagon

    return [tuple(int(v) for v in g.getIndicesFromRingAndPos(ring, pos)) for pos in range(1, hexagon.numPositionsInRing(ring) + 1)]


LATTICE_FAMILIES = ["alternating 3+3", "two single sites", "6+6 in different rings", "equal-size random sets", "opposite pairs 2+2+2",
                    "unequal sizes"]


def lattice_sites(rng, family, nrings=3):
    """{pin type id: [cells]} -- several pin types with the SAME number of sites at DIFFERENT cells."""
    from armi.reactor import grids

    g = grids.HexGrid.fromPitch(1.0, numRings=0)
    r2, r3 = ring_cells(g, 2), ring_cells(g, 3)
    allc = [(0, 0)] + r2 + r3 + (ring_cells(g, 4) if nrings >= 4 else [])
    if family == "alternating 3+3":
        o = rng.randrange(2)
        out = {1: r2[o::2], 2: r2[1 - o::2]}
        if rng.random() < 0.6:
            out[3] = [(0, 0)] + (r3[::4] if rng.random() < 0.5 else [])
        if rng.random() < 0.4:
            o3 = rng.randrange(4)
            out[4] = [c for n, c in enumerate(r3) if n % 4 == o3 and c not in out.get(3, [])]
    elif family == "two single sites":
        a, b = rng.sample(allc[1:], 2)
        out = {1: [a], 2: [b]}
        rest = [c for c in allc if c not in (a, b)]
        if rng.random() < 0.7:
            out[3] = [rng.choice(rest)]
        if rng.random() < 0.5:
            out[4] = [c for c in rest if c not in out.get(3, [])][: rng.randint(2, 9)]
    elif family == "6+6 in different rings":
        o = rng.randrange(2)
        out = {1: list(r2), 2: r3[o::2]}
        if rng.random() < 0.6:
            out[3] = r3[1 - o::2]
        if rng.random() < 0.5:
            out[4] = [(0, 0)]
    elif family == "equal-size random sets":
        nt = rng.randint(2, 4)
        m = rng.randint(1, len(allc) // nt)
        cells = rng.sample(allc, nt * m)
        out = {t + 1: cells[t * m:(t + 1) * m] for t in range(nt)}
    elif family == "opposite pairs 2+2+2":
        out = {t + 1: [r2[t], r2[t + 3]] for t in range(3)}
        if rng.random() < 0.5:
            out[4] = [r3[0], r3[6]]
    else:
        nt = rng.randint(2, 4)
        cells = list(allc)
        rng.shuffle(cells)
        out, pos = {}, 0
        for t in range(nt):
            m = rng.randint(1, max(1, (len(cells) - pos) // (nt - t)))
            out[t + 1] = cells[pos:pos + m]
            pos += m
    return {t: v for t, v in out.items() if v}


def lattice_text(contents, cornersUp):
    """the ascii lattice map of a blueprint `grids:` entry (written by armi's own ascii-map writer)."""
    import io

    from armi.reactor import geometry
    from armi.utils import asciimaps

    cls = asciimaps.asciiMapFromGeomAndDomain(geometry.HEX_CORNERS_UP if cornersUp else geometry.HEX, geometry.DomainType.FULL_CORE)
    m = cls()
    m.asciiLabelByIndices = dict(contents)
    m.gridContentsToAscii()
    out = io.StringIO()
    m.writeAscii(out)
    return out.getvalue()


def blueprint_text(sites, cornersUp, union, nrings):
    from armi.reactor import grids

    g = grids.HexGrid.fromPitch(1.0, numRings=0)
    cells = [(0, 0)] + [c for r in range(2, nrings + 1) for c in ring_cells(g, r)]
    contents = {c: "-" for c in cells}
    for t, cs_ in sites.items():
        for c in cs_:
            contents[c] = str(t)
    comps = []
    for t in sorted(sites):
        comps.append(f"""        pin{t}:
            shape: Circle
            material: HT9
            Tinput: 25.0
            Thot: 25.0
            id: 0.0
            od: 0.3
            latticeIDs: [{t}]
        clad{t}:
            shape: Circle
            flags: clad
            material: HT9
            Tinput: 25.0
            Thot: 25.0
            id: 0.3
            od: 0.35
            latticeIDs: [{t}]
""")
    if union:
        comps.append(f"""        wrap:
            shape: Circle
            material: HT9
            Tinput: 25.0
            Thot: 25.0
            id: 0.35
            od: 0.36
            latticeIDs: [{','.join(str(x) for x in union)}]
""")
    try:
        text = lattice_text(contents, cornersUp)
    except ValueError:
        # armi's writer refuses maps with a completely blank row: fill the holes with an id no component uses
        text = lattice_text({c: ("0" if v == "-" else v) for c, v in contents.items()}, cornersUp)
    lat = "\n".join("         " + ln for ln in text.splitlines())
    block = f"""        grid name: pins
{''.join(comps)}        coolant:
            shape: DerivedShape
            material: Sodium
            Tinput: 25.0
            Thot: 25.0
        duct:
            shape: Hexagon
            material: HT9
            Tinput: 25.0
            Thot: 25.0
            ip: 16.0
            mult: 1.0
            op: 16.6
"""
    return f"""blocks:
    fuel: &block_fuel
{block}
    fuel2: &block_fuel2
{block}
assemblies:
    fuel:
        specifier: IC
        blocks:  [*block_fuel, *block_fuel2, *block_fuel]
        height: [25.0, 15.0, 10.0]
        axial mesh points:  [1, 1, 1]
        xs types: [A, A, A]
grids:
    pins:
       geom: {'hex_corners_up' if cornersUp else 'hex'}
       symmetry: full
       lattice map: |
{lat}
"""


def blueprint_assembly(rng, family, cornersUp):
    """a HexAssembly of pin-lattice blocks built by armi's blueprint machinery from a lattice map with 2-4 pin types."""
    import io

    from armi import settings
    from armi.reactor import blueprints

    nrings = rng.choice([3, 3, 4])
    sites = lattice_sites(rng, family, nrings)
    types = sorted(sites)
    union = rng.sample(types, 2) if len(types) >= 2 and rng.random() < 0.5 else None
    txt = blueprint_text(sites, cornersUp, union, nrings)
    with common.scratch_dir(), common.quiet():
        cs = settings.Settings()
        bp = blueprints.Blueprints.load(io.StringIO(txt))
        bp._prepConstruction(cs)
        a = bp.assemDesigns.bySpecifier["IC"].construct(cs, bp)
    return a, sites, txt


@contextlib.contextmanager
def hushed():
    """armi's runLog keeps its own handle on stdout: raise its threshold while blueprints are built."""
    from armi import runLog

    saved = (runLog.header, runLog.error)
    runLog.header = runLog.error = lambda *a, **k: None
    try:
        yield
    finally:
        runLog.header, runLog.error = saved


def synthetic_block(rng, family, cornersUp):
    """a HexBlock assembled by hand: several components, each with its OWN MultiIndexLocation on the block's grid (some
    sharing one locator object), mixed with single-index, free-coordinate and locator-less children in random order."""
    from armi.reactor import blocks, grids
    from armi.reactor.components import Circle, Hexagon
    from armi.reactor.flags import Flags

    b = blocks.HexBlock("synthetic", height=10.0)
    grid = grids.HexGrid.fromPitch(common.dyadic(rng, 0.5, 3, 4), numRings=rng.choice([3, 4, 5]), armiObject=b, cornersUp=cornersUp)
    b.spatialGrid = grid
    sites = lattice_sites(rng, family, 4)
    kz = 0 if rng.random() < 0.6 else rng.choice([1, 2, -1])
    children, shared = [], None
    for t, cells in sites.items():
        loc = grids.MultiIndexLocation(grid)
        if rng.random() < 0.5:
            loc.extend([grids.IndexLocation(i, j, kz, grid) for i, j in cells])      # fresh locator objects
        else:
            loc.extend([grid[i, j, kz] for i, j in cells])                            # the grid's own cell objects
        pin = Circle(f"pin{t}", "HT9", Tinput=25.0, Thot=25.0, od=0.3, id=0.0, mult=len(cells))
        pin.p.flags = Flags.FUEL if t % 2 else Flags.CONTROL
        pin.spatialLocator = loc
        clad = Circle(f"clad{t}", "HT9", Tinput=25.0, Thot=25.0, od=0.35, id=0.3, mult=len(cells))
        clad.p.flags = Flags.CLAD
        r = rng.random()
        if r < 0.4:
            clad.spatialLocator = loc                                                 # ONE locator object, two children
        else:
            own = grids.MultiIndexLocation(grid)
            own.extend([grids.IndexLocation(i, j, kz, grid) for i, j in (cells if r < 0.8 else list(reversed(cells)))])
            clad.spatialLocator = own
        children += [pin, clad]
    single = Circle("instrument", "HT9", Tinput=25.0, Thot=25.0, od=0.2, id=0.0, mult=1)
    single.spatialLocator = grid[rng.randint(-3, 3), rng.randint(-3, 3), rng.choice([0, 0, 1, 3])]
    free = Circle("spacer", "HT9", Tinput=25.0, Thot=25.0, od=0.2, id=0.0, mult=1)
    free.spatialLocator = grids.CoordinateLocation(common.dyadic(rng, -3, 3, 5), common.dyadic(rng, -3, 3, 5), common.dyadic(rng, -1, 1, 3), grid)
    bare = Circle("tag", "HT9", Tinput=25.0, Thot=25.0, od=0.1, id=0.0, mult=1)
    children += [single, free, bare]
    if rng.random() < 0.3:
        empty = Circle("unplaced", "HT9", Tinput=25.0, Thot=25.0, od=0.1, id=0.0, mult=1)
        empty.spatialLocator = grids.MultiIndexLocation(grid)                         # a multi-locator without sites
        children.append(empty)
    rng.shuffle(children)
    for c in children:
        b.add(c)
    b.add(Hexagon("duct", "HT9", 25.0, 25.0, ip=16.0, op=16.6, mult=1))
    return b, sites


def fresh_copy(b):
    """private deep copy; the locator-less child loses its locator only now (Composite.__setstate__ cannot re-associate
    a child without locator, so such a block cannot be deep-copied)."""
    b2 = copy.deepcopy(b)
    for c in b2:
        if c.name == "tag":
            c.spatialLocator = None
    return b2


def site_snapshot(b):
    """per child: (name, locator kind, integer sites, local coordinates of every site, id of the locator object)."""
    from armi.reactor import grids

    out = []
    for c in b:
        loc = c.spatialLocator
        if isinstance(loc, grids.MultiIndexLocation):
            out.append((c.name, "m", [(int(l.i), int(l.j), int(l.k)) for l in loc],
                        [[float(v) for v in l.getLocalCoordinates()] for l in loc], id(loc),
                        all(l.grid is b.spatialGrid for l in loc) and loc.grid is b.spatialGrid))
        elif isinstance(loc, grids.CoordinateLocation):
            out.append((c.name, "c", [], [[float(v) for v in loc.getLocalCoordinates()]], id(loc), loc.grid is b.spatialGrid))
        elif isinstance(loc, grids.IndexLocation):
            out.append((c.name, "i", [(int(loc.i), int(loc.j), int(loc.k))], [[float(v) for v in loc.getLocalCoordinates()]],
                        id(loc), loc.grid is b.spatialGrid))
        else:
            out.append((c.name, "n", [], [], None, True))
    return out


def _sorted_pts(pts):
    return sorted(pts, key=lambda p: (round(p[0], 6), round(p[1], 6), round(p[2], 6)))


def multi_oracle(ctx, case, snap0, snap1, k, pins0, pins1):
    """the property's clauses for a block whose children have DIFFERENT site sets: every child, every site."""
    if [(n, kd) for n, kd, *_ in snap0] != [(n, kd) for n, kd, *_ in snap1]:
        ctx.fail("hexblock-rotate-child-kind", "children and their locator kinds are unchanged by rotate", case,
                 observed=[(n, kd) for n, kd, *_ in snap1], expected=[(n, kd) for n, kd, *_ in snap0])
        return
    for (name, kind, s0, x0, _id0, _g0), (_n, _k, s1, x1, _id1, g1) in zip(snap0, snap1):
        if kind == "n":
            continue
        ccase = {**case, "child": name, "sites_before": s0[:12]}
        want = [list(rotxy(p[0], p[1], k)) + [p[2]] for p in x0]
        if len(x1) != len(x0):
            ctx.fail("hexblock-rotate-site-count", "a child keeps its number of sites", ccase, observed=len(x1), expected=len(x0))
            continue
        a, w = _sorted_pts(x1), _sorted_pts(want)
        if any(abs(p[d] - q[d]) > 1e-8 for p, q in zip(a, w) for d in range(3)):
            ctx.fail("hexblock-rotate-child-sites", "the sites of EVERY child after rotate(k*60deg) are that child's own sites "
                     "rotated by k*60 degrees counter-clockwise about the block centre (as a multiset)", ccase,
                     observed={"sites_after": s1[:12], "coords_after": a[:6]}, expected={"coords": w[:6]})
        elif kind == "m" and any(abs(p[d] - q[d]) > 1e-8 for p, q in zip(x1, want) for d in range(3)):
            ctx.count("multi-location child: rotated multiset kept but site order changed")
        if not g1:
            ctx.fail("hexblock-rotate-child-grid", "rotated locators live in the block's own grid", ccase, observed="other grid")
    multis0 = [(n, frozenset(s)) for n, kd, s, *_ in snap0 if kd == "m"]
    multis1 = [(n, frozenset(s)) for n, kd, s, *_ in snap1 if kd == "m"]
    for a in range(len(multis0)):
        for c in range(a + 1, len(multis0)):
            if (multis0[a][1] == multis0[c][1]) != (multis1[a][1] == multis1[c][1]):
                ctx.fail("hexblock-rotate-children-stay-distinct", "children at different sites stay at different sites (and "
                         "children at the same sites stay together)", {**case, "children": [multis0[a][0], multis0[c][0]]},
                         observed=[sorted(multis1[a][1])[:8], sorted(multis1[c][1])[:8]],
                         expected=[sorted(multis0[a][1])[:8], sorted(multis0[c][1])[:8]])
    if len(pins0):
        exp = np.array([list(rotxy(p[0], p[1], k)) + [p[2]] for p in pins0])
        if pins1.shape != exp.shape or np.abs(pins1 - exp).max() > 1e-8:
            ctx.fail("hexblock-rotate-pins", "pin coordinates after rotate(k*60deg) == R(60k) pin coordinates before",
                     case, observed=float(np.abs(pins1 - exp).max()) if pins1.shape == exp.shape else "shape")


def rotate_and_judge(ctx, b, case, ks, req, pending):
    """rotate ONE block through the sequence ks; after every step judge against the ORIGINAL state (additivity), compare
    the single step with the model, and finish the turn (identity at a multiple of six)."""
    snap0 = site_snapshot(b)
    pins0 = b.getPinCoordinates().copy() if len(b.getPinLocations()) else np.zeros((0, 3))
    total = 0
    for n, k in enumerate(ks):
        before = block_state(b)
        rad = k * math.pi / 3
        rotNum = round((rad % (2 * math.pi)) / math.radians(60))
        b.rotate(rad)
        total += k
        after = block_state(b)
        pins1 = b.getPinCoordinates() if len(pins0) else np.zeros((0, 3))
        c2 = {**case, "rotations": list(ks[: n + 1])}
        multi_oracle(ctx, c2, snap0, site_snapshot(b), total, pins0, pins1)
        req.append(encode_block(before, rotNum)); pending.append((c2, after))
        ctx.count("HexBlock.rotate on blocks with several distinct multi-location children")
    back = (-total) % 6
    b.rotate(back * math.pi / 3)
    snap6 = site_snapshot(b)
    for (name, kind, s0, *_r0), (_n, _k, s1, *_r1) in zip(snap0, snap6):
        if kind in ("m", "i") and sorted(s0) != sorted(s1):
            ctx.fail("hexblock-rotate-identity-at-six", "rotations adding up to a multiple of six restore every child's sites",
                     {**case, "rotations": list(ks) + [back], "child": name}, observed=s1[:12], expected=s0[:12])


def run_multi_blocks(ctx):
    """C08-a: blocks whose pin lattice holds several multi-location children with the same number of sites at different
    sites (blueprint lattice maps with 2-4 pin types; hand-built blocks incl. shared locator objects), and assemblies of
    such blocks."""
    rng = ctx.rng
    req, pending = [], []
    asm_req, asm_pending = [], []
    nrep = ctx.pick(1, 4)
    allk = list(range(0, 12))
    for rep in range(nrep):
        for fi, family in enumerate(LATTICE_FAMILIES):
            for cu in (False, True):
                # --- blueprint-built assembly
                with hushed():
                    a, sites, txt = blueprint_assembly(rng, family, cu)
                case0 = {"source": "blueprint lattice map", "family": family, "cornersUp": cu,
                         "pin_types": {str(t): v[:8] for t, v in sites.items()}}
                blk = a[0]
                ks1 = allk + [rng.choice([-1, -5, -8, 13])] + ([-14, -7, 14] if ctx.thorough else [])
                for k in ks1:
                    rotate_and_judge(ctx, copy.deepcopy(blk), case0, [k], req, pending)
                for _ in range(ctx.pick(2, 6)):
                    rotate_and_judge(ctx, copy.deepcopy(blk), case0, [rng.randint(-7, 12) for _ in range(rng.randint(2, 4))], req, pending)
                # the whole assembly
                third = math.pi / 3
                angles = [(k, k * third) for k in (rng.sample(allk, 2) if not ctx.thorough else allk[::2] + [-1])]
                angles.append((rng.choice(allk), None))                       # a multiple of 60 degrees up to 1e-13
                angles[-1] = (angles[-1][0], angles[-1][0] * third + rng.choice([1e-13, -1e-13, 5e-13]))
                angles.append((None, rng.choice([0.5, math.pi / 7, -0.3, math.pi / 6, third + 1e-6, 2 * third - 1e-7, 1e-9])))
                for k, rad in angles:
                    a2 = copy.deepcopy(a)
                    snaps = [site_snapshot(b) for b in a2]
                    pins = [b.getPinCoordinates().copy() for b in a2]
                    befores = [block_state(b) for b in a2]
                    rotNum = round((rad % (2 * math.pi)) / math.radians(60))
                    acase = {**case0, "assembly": True, "k": k, "rad": rad}
                    try:
                        with common.quiet(), hushed():
                            a2.rotate(rad)
                        accepted = True
                    except ValueError:
                        accepted = False
                    afters = [block_state(b) for b in a2]
                    asm_req.append(f"rotassembly {rotNum} {common.rat(third)} {common.rat(rad % third)} {common.rat(1e-12)} " +
                                   " ".join(encode_block(st, rotNum).split(" ", 2)[2] for st in befores))
                    asm_pending.append((acase, accepted, afters))
                    if k is None:
                        if accepted:
                            ctx.fail("hexassembly-rotate-non-multiple", "a rotation that is no multiple of 60 degrees is refused",
                                     acase, observed="accepted")
                        elif afters != befores:
                            ctx.fail("hexassembly-rotate-non-multiple", "a refused rotation changes nothing", acase)
                        continue
                    if not accepted:
                        ctx.fail("hexassembly-rotate-refuses-multiple-of-60", "HexAssembly.rotate(k*pi/3) rotates for every integer k",
                                 acase, observed="ValueError")
                        continue
                    for n, b in enumerate(a2):
                        multi_oracle(ctx, {**acase, "assembly_block": n}, snaps[n], site_snapshot(b), k, pins[n], b.getPinCoordinates())
                    ctx.count("HexAssembly.rotate on assemblies of multi-pin-type blocks")
                ctx.case(("multiblock-bp", rep, family, cu), sample={"blueprint": txt[-400:], "pin_types": case0["pin_types"]}
                         if (rep, fi, cu) == (0, 0, False) else None)
                # --- hand-built block
                for v in range(ctx.pick(2, 4)):
                    sb, ssites = synthetic_block(rng, family, cu)
                    case1 = {"source": "hand-built block", "family": family, "cornersUp": cu,
                             "pin_types": {str(t): c[:8] for t, c in ssites.items()},
                             "children": [(c.name, type(c.spatialLocator).__name__) for c in sb]}
                    for k in (allk if ctx.thorough else rng.sample(allk, 4)):
                        rotate_and_judge(ctx, fresh_copy(sb), case1, [k], req, pending)
                    rotate_and_judge(ctx, fresh_copy(sb), case1, [rng.randint(-7, 12) for _ in range(rng.randint(2, 4))], req, pending)
                    ctx.case(("multiblock-synth", rep, family, cu, v))
    model = lean_run("Hex", req + asm_req)
    for line, (case, after) in zip(model, pending):
        compare_block(ctx, case, line, after)
    for line, (case, accepted, afters) in zip(model[len(req):], asm_pending):
        if (line == "reject") != (not accepted) or line == "bad-op":
            ctx.disagree("Hex.rotateHexAssembly vs HexAssembly.rotate (accept / refuse)", case, line, "accepted" if accepted else "ValueError")
        elif accepted:
            parts = line.split(" ; ")
            if len(parts) != len(afters):
                ctx.disagree("Hex.rotateHexAssembly vs HexAssembly.rotate (number of blocks)", case, len(parts), len(afters))
            else:
                for n, (pl, after) in enumerate(zip(parts, afters)):
                    compare_block(ctx, {**case, "assembly_block": n}, pl, after)
    ctx.evaluations += len(req) + len(asm_req)


# ------------------------------------------------------------------------------------------ entry points
def run(ctx):
    N = run_hex(ctx)
    M = run_cart(ctx)
    run_symmetry_sequences(ctx)
    run_pivot(ctx)
    run_blocks(ctx)
    run_multi_blocks(ctx)
    run_three_index(ctx)
    ctx.exhaustive = True
    ctx.rule = (f"exhaustive: every hex cell within {N} rings x k in -14..14 x both orientations (rotateIndex), every such "
                f"cell for third-core equivalents / first third / line class, every cell number x orientation for "
                f"getIndexOfRotatedCell; every Cartesian cell |i|,|j| <= {M} x 8 symmetry variants; query / reassign grid.symmetry / "
                f"query sequences on one live hex (every cell) and Cartesian grid object; pivot on lists/arrays "
                "of length 0..12 x all positions; real fuel HexBlocks (deep copies, every locator kind, random dyadic "
                "corner/edge vectors and displacement) x every k, plus a second rotation (composition); one real "
                "HexAssembly x every k; blocks with 2-4 pin types at different sites (6 lattice families x both orientations, "
                "from blueprint lattice maps and hand-built, seeded) x k in 0..11 and rotation sequences, assemblies of them; every hex cell "
                "within 9 (quick) rings x axial index in (0, 1, 3, -2) x 6 argument forms x 4 3-D hex grids and every Cartesian cell "
                "|i|,|j| <= 6 x k in (0, 2, -1) x 8 symmetry variants as three-index arguments. distinct = distinct cells / (block, variant, k); each compared with the model "
                "and judged by the geometric oracle.")


def _near(c, key):
    try:
        return int(c[key])
    except Exception:
        return 0


def search(ctx, disagreements, broken):
    """Evaluate the property's clauses on the real code around every disagreeing case."""
    from armi.reactor import grids

    sub = type(ctx)(ctx.prop, "quick", ctx.seed)
    gF = grids.HexGrid.fromPitch(1.0, numRings=0, cornersUp=False, symmetry="third periodic")
    gC = grids.HexGrid.fromPitch(1.0, numRings=0, cornersUp=True, symmetry="third periodic")
    done = set()
    for d in disagreements:
        c = d.case
        if isinstance(c, (list, tuple)) and c and c[0] in ("rot", "sym3", "hexequiv", "line", "third", "indomain"):
            i0, j0 = int(c[-2]), int(c[-1])
            cells = [(i, j) for i in range(i0 - 3, i0 + 4) for j in range(j0 - 3, j0 + 4)]
            ring = max(max(abs(i), abs(j), abs(i + j)) for i, j in cells) + 2
            coords = {}
            for cu, g in ((False, gF), (True, gC)):
                for cc in hex_cells(ring):
                    xyz = g.getCoordinates((cc[0], cc[1], 0))
                    coords[(cu, cc)] = (float(xyz[0]), float(xyz[1]))
            for (i, j) in cells:
                if (i, j) in done:
                    continue
                done.add((i, j))
                for cu, g in ((False, gF), (True, gC)):
                    x, y = coords[(cu, (i, j))]
                    for k in KS:
                        r = g.rotateIndex(grids.IndexLocation(i, j, 0, g), k)
                        ex, ey = rotxy(x, y, k)
                        got = coords.get((cu, (r.i, r.j)))
                        if got is None or abs(got[0] - ex) > 1e-7 or abs(got[1] - ey) > 1e-7:
                            sub.fail("hex-rotate-geometry", "coordinates(rotateIndex(c,k)) == R(60k) coordinates(c)",
                                     {"cornersUp": cu, "i": i, "j": j, "k": k}, observed=[r.i, r.j])
                eq = [tuple(int(v) for v in e[:2]) for e in gF.getSymmetricEquivalents((i, j, 0))]
                hex_symmetry_oracle(sub, grids, gF, gC, coords, i, j, eq, gF.overlapsWhichSymmetryLine((i, j)), 1e-7)
        elif isinstance(c, (list, tuple)) and c and c[0] in ("cartequiv", "cartindomain"):
            for (sym, isOffset, dom, rot, through) in CART_VARIANTS:
                if dom != 1:
                    continue
                g = grids.CartesianGrid.fromRectangle(1.0, 1.0, numRings=1, symmetry=sym, isOffset=isOffset)
                for i in range(int(c[-2]) - 2, int(c[-2]) + 3):
                    for j in range(int(c[-1]) - 2, int(c[-1]) + 3):
                        eq = [tuple(int(v) for v in e) for e in g.getSymmetricEquivalents((i, j, 0))]
                        cart_oracle(sub, g, sym, rot, through, i, j, eq)
        elif isinstance(c, (list, tuple)) and c and str(c[0]).startswith("symseq"):
            if "symseq" not in done:
                done.add("symseq")
                run_symmetry_sequences(sub)
        elif isinstance(c, (list, tuple)) and c and c[0] == "pivot":
            if "pivot" not in done:
                done.add("pivot")
                run_pivot(sub)
        elif isinstance(c, (list, tuple)) and c and str(c[0]).endswith("3"):
            if "three" not in done:
                done.add("three")
                run_three_index(sub)
        elif isinstance(c, (list, tuple)) and c and c[0] == "rotcell":
            sub.tier = "quick"
        elif isinstance(c, dict) and "block" in c:
            if "blocks" not in done:
                done.add("blocks")
                run_blocks(sub)
        elif isinstance(c, dict) and "source" in c:
            if "multi" not in done:
                done.add("multi")
                run_multi_blocks(sub)
    known = {f["key"] for f in common.load_findings()["finding"] if f["property"] == ctx.prop}
    seen, out = set(), []
    for f in sub.failures:
        if f.key not in seen:
            seen.add(f.key)
            out.append(f)
    return out


def replay(ctx, payload):
    """Re-evaluate the recorded clause: re-run the part of the quick check that owns the key."""
    key = payload["key"]
    sub = type(ctx)(ctx.prop, "quick", int(payload.get("seed", 0)))
    if key.startswith("hexblock") or key.startswith("hexassembly"):
        run_blocks(sub)
        run_multi_blocks(sub)
    elif key.startswith("symmetry-reassigned"):
        run_symmetry_sequences(sub)
    elif key.startswith("cart"):
        run_cart(sub)
    elif key.startswith("pivot"):
        run_pivot(sub)
    else:
        run_hex(sub)
        run_three_index(sub)
    hit = [f for f in sub.failures if f.key == key]
    return hit[0].to_json() if hit else None
